"""Hypothesis strategies that CONSTRUCT valid table content for property C02 (no rejection sampling).

Every strategy returns a plain JSON-able *spec*; props/c02.py turns a spec into fontTools table
objects, and the same spec is the expected content for the round trip, for the independent reader
(vf/otread.py, vf/sfntref.py) and for HarfBuzz.  Nothing from fontTools is imported here.

Preconditions taken from reading the library (documented in props/c02.py ASSUMPTIONS):
  * cmap: glyph ids >= 1 (a mapping to glyph 0 is "unmapped" and is dropped by design), format 0 gids <= 255
  * glyf: absolute coordinates and the deltas between consecutive points fit int16; instructions < 32768 bytes
  * name: strings have no U+0000 (NameRecord.toUnicode documents heuristics for NUL-interleaved strings)
  * TupleVariation: at least one non-None delta per tuple (all-None tuples are dropped by design)
"""

from hypothesis import strategies as st

GLYPH_COUNTS = [2, 3, 17, 258, 300, 1000]
BIG_GLYPH_COUNT = 65535  # maxp.numGlyphs is a uint16

# ---------------------------------------------------------------------------
# cmap


def expand_segs(segs):
    """segment list -> {code point: gid}"""
    m = {}
    for s in segs:
        kind = s[0]
        if kind == "seq":
            _, cp, n, g0 = s
            for i in range(n):
                m[cp + i] = g0 + i
        elif kind == "rev":
            _, cp, n, g0 = s
            for i in range(n):
                m[cp + i] = g0 - i
        elif kind == "same":
            _, cp, n, g0 = s
            for i in range(n):
                m[cp + i] = g0
        elif kind == "list":
            _, cp, gids = s
            for i, g in enumerate(gids):
                m[cp + i] = g
        elif kind == "stride":
            _, cp, n, k, g0, gk = s
            for i in range(n):
                m[cp + i * k] = g0 + i * gk
        else:
            raise ValueError(kind)
    return m


_GAPS = [0, 0, 0, 1, 1, 2, 3, 9, 40, 255, 256, 0x1000]
_STARTS_BMP = [0, 1, 0x20, 0x41, 0x7F, 0xFF, 0x100, 0x3040, 0xD7F0, 0xE000, 0xF000, 0xFF00, 0xFFF0]
_STARTS_SUP = [0x10000, 0x1F600, 0x2F800, 0xE0100, 0xFFFFE, 0x10FF00, 0x10FFF0]


@st.composite
def _segments(draw, maxcp, maxgid, *, maxsegs=7, dense=False, longruns=False, sup=False, modes=None):
    starts = [s for s in _STARTS_BMP if s <= maxcp]
    if sup:
        starts = starts + _STARTS_SUP
    cp = draw(st.one_of(st.sampled_from(starts), st.integers(0, min(maxcp, 0x400)), st.integers(0, maxcp)))
    nseg = draw(st.integers(0, maxsegs))
    segs = []
    for i in range(nseg):
        if i:
            gap = draw(st.sampled_from(_GAPS[:6] if dense else _GAPS))
            if sup and draw(st.integers(0, 5)) == 0:
                gap = draw(st.sampled_from([0x8000, 0x10000, 0x30000]))
            cp += gap
        if cp > maxcp:
            break
        room = maxcp - cp + 1
        lens = [st.integers(1, 3), st.integers(1, 12), st.integers(4, 9), st.integers(5, 60)]
        if longruns:
            lens += [st.sampled_from([255, 256, 257, 1000]), st.integers(100, 5000)]
        n = min(room, draw(st.one_of(*lens)))
        mode = draw(st.sampled_from(modes or ["seq", "seq", "seq", "same", "list", "list", "rev", "stride", "brk"]))
        if maxgid < 2:
            mode = "same"
        if mode == "brk" and (maxgid < 6 or room < 50):  # at most 3 * 14 + 2 * 3 code points
            mode = "seq"
        if mode == "brk":
            # one run of consecutive code points: stretches of consecutive glyph ids (each long enough to be worth a format 4
            # segment of its own) separated by one to three code points that break the sequence - the Latin-1 shape with
            # U+00A0 / U+00AD mapped to the re-used space / hyphen glyph
            total = 0
            for k in range(draw(st.integers(2, 3))):
                if k:
                    hole = draw(st.sampled_from([1, 1, 1, 2, 3]))
                    segs.append(["list", cp + total, draw(st.lists(st.integers(1, min(maxgid, 3)), min_size=hole, max_size=hole))])
                    total += hole
                ln = min(draw(st.integers(5, 14)), maxgid - 3)
                segs.append(["seq", cp + total, ln, draw(st.integers(4, maxgid - ln + 1))])
                total += ln
            cp += total
            continue
        if mode == "seq":
            n = min(n, maxgid)
            g0 = draw(st.one_of(st.integers(1, maxgid - n + 1), st.just(maxgid - n + 1), st.just(1)))
            segs.append(["seq", cp, n, g0])
        elif mode == "rev":
            n = min(n, maxgid, 40)
            g0 = draw(st.integers(n, maxgid))
            segs.append(["rev", cp, n, g0])
        elif mode == "same":
            segs.append(["same", cp, n, draw(st.integers(1, maxgid))])
        elif mode == "list":
            n = min(n, 40)
            gids = draw(st.lists(st.one_of(st.integers(1, maxgid), st.integers(1, min(maxgid, 8))), min_size=n, max_size=n))
            segs.append(["list", cp, gids])
        else:
            k = draw(st.sampled_from([2, 2, 3, 7, 256]))
            n = max(1, min(n, 30, (room + k - 1) // k))
            gk = draw(st.sampled_from([0, 1, 1, 2]))
            if gk * (n - 1) + 1 > maxgid:
                gk = 0
            g0 = draw(st.integers(1, maxgid - gk * (n - 1)))
            segs.append(["stride", cp, n, k, g0, gk])
            n = (n - 1) * k + 1
        cp += n
    return segs


def _with_ffff(draw, segs, maxgid):
    """make U+FFFF (and a short run before it) mapped: construct, never filter"""
    top = max([max(expand_segs([s])) for s in segs], default=-1)
    k = draw(st.integers(1, 4))
    start = 0x10000 - k
    if top >= start:
        segs = [s for s in segs if max(expand_segs([s])) < start]
    mode = draw(st.sampled_from(["seq", "same", "list"]))
    if mode == "seq" and maxgid >= k:
        segs.append(["seq", start, k, draw(st.integers(1, maxgid - k + 1))])
    elif mode == "list":
        segs.append(["list", start, draw(st.lists(st.integers(1, maxgid), min_size=k, max_size=k))])
    else:
        segs.append(["same", start, k, draw(st.integers(1, maxgid))])
    return segs


_UNI_BMP_PLAT = [(0, 3), (3, 1), (0, 0), (0, 1), (0, 2)]
_UNI_FULL_PLAT = [(3, 10), (0, 4), (0, 6)]
_OTHER_PLAT = [(1, 0), (3, 0), (3, 2), (2, 0), (4, 5)]


@st.composite
def cmap_subtable(draw, fmt, nglyphs, *, plat=None, big=False):
    maxgid = nglyphs - 1
    sub = {"fmt": fmt}
    if plat is None:
        if fmt in (12, 13):
            plat = draw(st.sampled_from(_UNI_FULL_PLAT + [(0, 4), (3, 10), (1, 0)]))
        elif fmt == 2:
            plat = draw(st.sampled_from([(3, 2), (3, 4), (1, 1), (3, 5)]))
        else:
            plat = draw(st.sampled_from(_UNI_BMP_PLAT + _UNI_BMP_PLAT + _OTHER_PLAT))
    sub["pid"], sub["eid"] = plat
    sub["lang"] = draw(st.sampled_from([0, 0, 0, 1, 19, 0xFFFF])) if plat[0] == 1 else 0
    if fmt == 0:
        sub["segs"] = draw(_segments(255, min(maxgid, 255), maxsegs=5))
    elif fmt == 2:
        # single-byte codes and lead bytes are disjoint sets of byte values
        singles = draw(_segments(0x7F, maxgid, maxsegs=3, dense=True))
        leads = draw(st.lists(st.sampled_from([0x81, 0x82, 0x8F, 0x90, 0x9F, 0xA1, 0xE0, 0xFC, 0xFE, 0xFF]), min_size=0, max_size=4, unique=True))
        segs = list(singles)
        for hi in sorted(leads):
            low = draw(_segments(255, maxgid, maxsegs=3, dense=True))
            for s in low:
                if s[0] == "stride":
                    s = ["stride", s[1] + (hi << 8)] + s[2:]
                else:
                    s = [s[0], s[1] + (hi << 8)] + s[2:]
                segs.append(s)
        sub["segs"] = segs
    elif fmt == 4:
        segs = draw(_segments(0xFFFF, maxgid, longruns=draw(st.booleans())))
        if draw(st.integers(0, 4)) == 0:
            segs = _with_ffff(draw, segs, maxgid)
        sub["segs"] = segs
    elif fmt == 6:
        sub["segs"] = draw(_segments(0xFFFF, maxgid, maxsegs=4, dense=True, longruns=draw(st.booleans())))
        if draw(st.integers(0, 9)) == 0:
            sub["segs"] = _with_ffff(draw, [], maxgid)
    elif fmt in (12, 13):
        if big:
            # > 64k entries: a few long runs
            segs = []
            cp = draw(st.sampled_from([0x20, 0x4E00, 0x10000, 0x20000]))
            for _ in range(draw(st.integers(4, 5))):
                n = draw(st.integers(20000, 30000))
                if fmt == 12:
                    g0 = draw(st.integers(1, maxgid - n + 1))
                    segs.append(["seq", cp, n, g0])
                else:
                    segs.append(["same", cp, n, draw(st.integers(1, maxgid))])
                cp += n + draw(st.sampled_from([0, 1, 17]))
            sub["segs"] = segs
        else:
            segs = draw(_segments(0x10FFFF, maxgid, longruns=draw(st.booleans()), sup=True))
            if draw(st.integers(0, 5)) == 0:
                segs = _with_ffff(draw, [s for s in segs if max(expand_segs([s])) < 0xFFF0], maxgid)
                segs.sort(key=lambda s: s[1])
            sub["segs"] = segs
    else:
        raise ValueError(fmt)
    return sub


_SELECTORS = [0xFE00, 0xFE01, 0xFE0E, 0xFE0F, 0x180B, 0xE0100, 0xE0101, 0xE01EF]


@st.composite
def cmap_uvs(draw, nglyphs, base_map):
    """format 14 content: [[selector, [[start, count] default ranges], [[cp, gid] non-default]]]"""
    maxgid = nglyphs - 1
    sels = draw(st.lists(st.sampled_from(_SELECTORS), min_size=1, max_size=4, unique=True))
    base = sorted(base_map)
    out = []
    for sel in sorted(sels):
        defaults, nondef = [], []
        used = set()
        nd = draw(st.integers(0, 3))
        for _ in range(nd):
            if base and draw(st.booleans()):
                start = draw(st.sampled_from(base))
            else:
                start = draw(st.sampled_from([0x41, 0x3400, 0x4E00, 0x20000, 0x2F800, 0xFFFF]))
            cnt = draw(st.one_of(st.integers(1, 4), st.sampled_from([255, 256, 257, 600])))
            cnt = min(cnt, 0x110000 - start)
            rng = [c for c in range(start, start + cnt) if c not in used]
            if not rng:
                continue
            # keep one contiguous piece
            piece = [rng[0]]
            for c in rng[1:]:
                if c != piece[-1] + 1:
                    break
                piece.append(c)
            used.update(piece)
            defaults.append([piece[0], len(piece)])
        nn = draw(st.integers(0 if defaults else 1, 5))
        for _ in range(nn):
            cp = draw(st.one_of(st.sampled_from(base) if base else st.just(0x41), st.integers(0x20, 0x2FFFF)))
            while cp in used:  # deterministic shift, construction not rejection
                cp += 1
            used.add(cp)
            nondef.append([cp, draw(st.integers(1, maxgid))])
        out.append([sel, sorted(defaults), sorted(nondef)])
    return out


@st.composite
def cmap_specs(draw, fmt=None, big=False):
    """a cmap table: 1..3 subtables; `fmt` forces the format of the first one"""
    if fmt is None:
        fmt = draw(st.sampled_from([0, 2, 4, 4, 4, 6, 12, 12, 13, 14]))
    if big or draw(st.integers(0, 7)) == 0:
        nglyphs = BIG_GLYPH_COUNT
    else:
        nglyphs = draw(st.sampled_from(GLYPH_COUNTS))
    subs = []
    if fmt == 14:
        basefmt = draw(st.sampled_from([4, 12]))
        base = draw(cmap_subtable(basefmt, nglyphs, plat=(3, 1) if basefmt == 4 else (3, 10)))
        subs.append(base)
        subs.append({"fmt": 14, "pid": 0, "eid": 5, "lang": 0, "uvs": draw(cmap_uvs(nglyphs, expand_segs(base["segs"])))})
    else:
        subs.append(draw(cmap_subtable(fmt, nglyphs, big=big)))
        extra = 0 if big else draw(st.sampled_from([0, 0, 0, 1, 2]))
        keys = {(subs[0]["pid"], subs[0]["eid"], subs[0]["lang"])}
        for _ in range(extra):
            f2 = draw(st.sampled_from([0, 4, 6, 12]))
            how = draw(st.sampled_from(["new", "copy"]))
            if how == "copy":
                s = dict(subs[0])
                plats = _UNI_FULL_PLAT + [(1, 0)] if s["fmt"] in (12, 13) else _UNI_BMP_PLAT + _OTHER_PLAT
            else:
                s = draw(cmap_subtable(f2, nglyphs))
                plats = [(s["pid"], s["eid"])] + (_UNI_FULL_PLAT if f2 in (12, 13) else _UNI_BMP_PLAT) + [(1, 0)]
            for p in plats:  # first free key: construction, no rejection
                k = (p[0], p[1], s["lang"] if p[0] == 1 else 0)
                if k not in keys:
                    s = dict(s, pid=p[0], eid=p[1], lang=k[2])
                    keys.add(k)
                    subs.append(s)
                    break
    return {"nglyphs": nglyphs, "subtables": subs}


# ---------------------------------------------------------------------------
# hmtx / vmtx


@st.composite
def metrics_specs(draw):
    n = draw(st.one_of(st.integers(1, 6), st.integers(1, 40), st.sampled_from([255, 256, 300])))
    adv = st.one_of(st.integers(0, 2000), st.sampled_from([0, 1, 500, 1000, 32767, 32768, 65535]))
    advs = draw(st.lists(adv, min_size=n, max_size=n))
    tail = draw(st.one_of(st.integers(0, n), st.sampled_from([0, 1, 2, n - 1, n])))
    tail = max(0, min(n, tail))
    if tail:
        v = draw(adv)
        for i in range(n - tail, n):
            advs[i] = v
        # in half of the cases make sure the glyph before the tail differs, so the tail length is exact
        if n - tail - 1 >= 0 and draw(st.booleans()) and advs[n - tail - 1] == v:
            advs[n - tail - 1] = (v + 1) % 65536
    sb = st.one_of(st.integers(-300, 300), st.sampled_from([-32768, 32767, -1, 0]))
    sbs = draw(st.lists(sb, min_size=n, max_size=n))
    return {"tag": draw(st.sampled_from(["hmtx", "hmtx", "vmtx"])), "n": n, "adv": advs, "sb": sbs, "hea": draw(st.integers(0, 9)) != 0}


# ---------------------------------------------------------------------------
# glyf

_DELTAS = st.one_of(
    st.just(0),
    st.integers(-12, 12),
    st.integers(-255, 255),
    st.sampled_from([-257, -256, -255, -254, 254, 255, 256, 257, 1, -1]),
    st.integers(-3000, 3000),
    st.sampled_from([-32768, -32767, 32767, 16384, -16384, 20000, -20000]),
)


def _clamp_delta(prev, d):
    lo = max(-32768, -32768 - prev)
    hi = min(32767, 32767 - prev)
    return max(lo, min(hi, d))


@st.composite
def simple_glyph(draw, maxpoints=40, allow_long=True):
    ncont = draw(st.one_of(st.integers(1, 3), st.integers(1, 6)))
    x = y = 0
    contours = []
    total = 0
    big = allow_long and draw(st.integers(0, 11)) == 0
    for ci in range(ncont):
        n = draw(st.one_of(st.integers(1, 4), st.integers(2, 12), st.integers(1, maxpoints)))
        pattern = draw(st.sampled_from(["random", "random", "all-on", "all-off", "alternate", "repeat"]))
        if big and ci == 0:
            n = draw(st.sampled_from([254, 255, 256, 257, 258, 300, 520]))
            pattern = "repeat"
        pts = []
        if pattern == "repeat":
            # identical flags and identical deltas: one flag byte + repeat count (limit 255 repeats per flag)
            dx, dy = draw(_DELTAS), draw(_DELTAS)
            if big:
                dx, dy = draw(st.integers(-60, 60)), draw(st.integers(-60, 60))
            on = draw(st.integers(0, 1))
            for i in range(n):
                ddx, ddy = _clamp_delta(x, dx), _clamp_delta(y, dy)
                x += ddx
                y += ddy
                pts.append([x, y, on])
        else:
            for i in range(n):
                dx, dy = draw(_DELTAS), draw(_DELTAS)
                ddx, ddy = _clamp_delta(x, dx), _clamp_delta(y, dy)
                x += ddx
                y += ddy
                if pattern == "all-on":
                    on = 1
                elif pattern == "all-off":
                    on = 0
                elif pattern == "alternate":
                    on = i & 1
                else:
                    on = draw(st.integers(0, 1))
                pts.append([x, y, on])
        contours.append(pts)
        total += n
    ov = draw(st.sampled_from(["none", "none", "first", "first", "some"]))
    if ov == "first":
        contours[0][0][2] |= 0x40
    elif ov == "some":
        for c in contours:
            for p in c:
                if draw(st.integers(0, 3)) == 0:
                    p[2] |= 0x40
    instr = draw(st.one_of(st.just(b""), st.binary(min_size=0, max_size=12), st.binary(min_size=1, max_size=300)))
    return {"pts": contours, "instr": instr}


_F2DOT14 = st.one_of(
    st.sampled_from([16384, -16384, 8192, -8192, 0, 1, -1, 32767, -32768, 24576, 4096, 19661]),
    st.integers(-32768, 32767),
)
_COMP_FLAGS = [0, 0, 0x0004, 0x0200, 0x0400, 0x0010, 0x0800, 0x1000, 0x0204, 0x0804]


def flat_points(glyphs, i, memo=None):
    """flattened points of glyph i (floats), only used to keep generated composites inside the int16 range"""
    if memo is None:
        memo = {}
    if i in memo:
        return memo[i]
    g = glyphs[i]
    if g is None:
        r = []
    elif "pts" in g:
        r = [(float(x), float(y)) for c in g["pts"] for x, y, f in c]
    else:
        r = []
        for comp in g["comps"]:
            r.extend(_place(glyphs, r, comp, memo))
    memo[i] = r
    return r


def _place(glyphs, parent, comp, memo):
    gid, flags, mode, a1, a2, tr = comp
    pts = flat_points(glyphs, gid, memo)
    m = [v / 16384 for v in tr] if tr is not None else [1.0, 0.0, 0.0, 1.0]

    def T(p):
        return (p[0] * m[0] + p[1] * m[2], p[0] * m[1] + p[1] * m[3])

    if mode == "pt":
        q = [T(p) for p in pts]
        dx, dy = parent[a1][0] - q[a2][0], parent[a1][1] - q[a2][1]
        return [(x + dx, y + dy) for x, y in q]
    if tr is not None and flags & 0x0800:
        return [T((x + a1, y + a2)) for x, y in pts]
    return [(T(p)[0] + a1, T(p)[1] + a2) for p in pts]


def _in_range(pts, lim=32000):
    return all(-lim <= x <= lim and -lim <= y <= lim for x, y in pts)


def npoints(glyphs, i):
    g = glyphs[i]
    if g is None:
        return 0
    if "pts" in g:
        return sum(len(c) for c in g["pts"])
    return sum(npoints(glyphs, c[0]) for c in g["comps"])


@st.composite
def composite_glyph(draw, glyphs):
    """components refer to earlier glyphs only (no cycles); point matching uses valid point numbers"""
    n = draw(st.integers(1, 4))
    comps = []
    parent_pts = 0
    parent_flat = []
    memo = {}
    for i in range(n):
        gid = draw(st.integers(0, len(glyphs) - 1))
        child_pts = npoints(glyphs, gid)
        flags = draw(st.sampled_from(_COMP_FLAGS))
        trk = draw(st.sampled_from(["none", "none", "none", "scale", "xy", "2x2", "2x2", "2x2-sparse"]))
        if trk == "none":
            tr = None
        elif trk == "scale":
            s = draw(_F2DOT14)
            tr = [s, 0, 0, s]
        elif trk == "xy":
            tr = [draw(_F2DOT14), 0, 0, draw(_F2DOT14)]
        elif trk == "2x2-sparse":
            # structured matrices: shears, flips and 90-degree rotations have exact zeros / units in some entries
            # while the others are general (the encoder chooses its form by testing entries against zero)
            el = st.one_of(st.just(0), st.just(0), st.sampled_from([16384, -16384]), _F2DOT14)
            tr = [draw(el), draw(el), draw(el), draw(el)]
            if not tr[1] and not tr[2]:
                tr[draw(st.sampled_from([1, 2]))] = draw(st.sampled_from([8192, -8192, 16384, -16384, 3277]))
        else:
            tr = [draw(_F2DOT14), draw(_F2DOT14), draw(_F2DOT14), draw(_F2DOT14)]
        if tr is None:
            flags &= ~0x1800
        if parent_pts and child_pts and draw(st.integers(0, 3)) == 0:
            words = draw(st.booleans())
            p1 = draw(st.integers(0, parent_pts - 1))
            p2 = draw(st.integers(0, child_pts - 1))
            if not words:
                p1, p2 = min(p1, 255), min(p2, 255)
            comp = [gid, flags & ~0x0004, "pt", p1, p2, tr]
        else:
            arg = st.one_of(st.integers(-128, 127), st.sampled_from([-129, -128, 127, 128, 0, 300, -300, 32767, -32768]), st.integers(-2000, 2000))
            comp = [gid, flags, "xy", draw(arg), draw(arg), tr]
        # the flattened composite must stay inside int16 (bounding box fields); fall back constructively
        placed = _place(glyphs, parent_flat, comp, memo)
        if not _in_range(placed):
            comp = [gid, flags & ~0x1800, "xy", draw(st.integers(-100, 100)), draw(st.integers(-100, 100)), None]
            placed = _place(glyphs, parent_flat, comp, memo)
            if not _in_range(placed, 32767):
                comp = [gid, flags & ~0x1800, "xy", 0, 0, None]
                placed = _place(glyphs, parent_flat, comp, memo)
        parent_flat.extend(placed)
        comps.append(comp)
        parent_pts += child_pts
    instr = draw(st.one_of(st.none(), st.none(), st.just(b""), st.binary(min_size=1, max_size=20)))
    return {"comps": comps, "instr": instr}


@st.composite
def glyf_specs(draw):
    n = draw(st.integers(1, 7))
    glyphs = []
    for i in range(n):
        kind = draw(st.sampled_from(["simple", "simple", "simple", "empty", "composite", "composite"]))
        if kind == "composite" and not glyphs:
            kind = "simple"
        if kind == "simple":
            glyphs.append(draw(simple_glyph()))
        elif kind == "empty":
            glyphs.append(None)
        else:
            glyphs.append(draw(composite_glyph(glyphs)))
    return {"glyphs": glyphs, "padding": draw(st.sampled_from([1, 1, 1, 1, 0, 2, 4]))}


@st.composite
def glyf_loca_specs(draw):
    """total glyf size next to the short/long loca switch (0x20000), odd glyph lengths"""
    if draw(st.booleans()):
        # exact mode: only filler glyphs (15 + n bytes each: header 10, endPts 2, instructionLength 2, n, one flag byte),
        # so the unpadded total is known: explore T and the number of odd-length glyphs around 0x20000
        target = 0x20000 + draw(st.integers(-7, 4))
        nfill = draw(st.integers(4, 6))
        sizes = [draw(st.integers(26000, 26200)) if nfill == 5 else draw(st.integers(21000, 32700 if nfill == 4 else 21800)) for _ in range(nfill - 1)]
        last = target - sum(sizes)
        if not 16 <= last <= 15 + 32767:
            sizes = [target // nfill] * (nfill - 1)
            last = target - sum(sizes)
        sizes.append(last)
        glyphs = [{"pts": [[[0, 0, 1]]], "instr": ["fill", sz - 15, draw(st.integers(0, 255))]} for sz in sizes]
        if draw(st.booleans()):
            glyphs.insert(draw(st.integers(0, len(glyphs))), None)
        return {"glyphs": glyphs, "padding": draw(st.sampled_from([1, 1, 1, 1, 0, 2])), "loca": True, "exact": target}
    glyphs = [draw(simple_glyph(maxpoints=8, allow_long=False)) for _ in range(draw(st.integers(1, 3)))]
    # filler glyphs: one point each, instructions make up the size. A filler glyph has 10 (header) + 2 + 2 + n + 1 (flag) bytes
    target = 0x20000 + draw(st.sampled_from([-40, -9, -4, -3, -2, -1, 0, 1, 2, 3, 8, 40, -400, 400]))
    nfill = 5
    base = (target - 200) // nfill
    for i in range(nfill):
        n = base + draw(st.integers(-3, 3)) if i < nfill - 1 else base
        n = max(1, min(32767, n))
        glyphs.append({"pts": [[[0, 0, 1]]], "instr": ["fill", n, draw(st.integers(0, 255))]})
    if draw(st.booleans()):
        glyphs.append(None)
    if draw(st.booleans()):
        glyphs.append(draw(composite_glyph(glyphs)))
    return {"glyphs": glyphs, "padding": draw(st.sampled_from([1, 1, 1, 0, 2, 4])), "loca": True}


def instr_bytes(v):
    if v is None:
        return None
    if isinstance(v, (bytes, bytearray)):
        return bytes(v)
    _, n, k = v
    return bytes(((i * 7 + k) ^ (i >> 8)) & 0xFF for i in range(n))


# ---------------------------------------------------------------------------
# name


_NAME_ENCODINGS = [
    # (platformID, encodingID, [languageIDs], repertoire key)
    (0, 0, [0], "utf16"), (0, 3, [0, 0xFFFF], "utf16"), (0, 4, [0, 1], "utf16"), (0, 6, [0], "utf16"),
    (3, 1, [0x409, 0x407, 0x411, 0x40C], "utf16"), (3, 10, [0x409], "utf16"), (3, 0, [0x409], "utf16"),
    (1, 0, [0, 1, 2, 3], "mac_roman"), (1, 0, [15], "mac_iceland"), (1, 0, [17], "mac_turkish"), (1, 0, [18], "mac_croatian"),
    (1, 0, [24, 25, 26, 27, 28, 36, 38, 39, 40], "mac_latin2"), (1, 0, [37], "mac_romanian"),
    (1, 6, [14], "mac_greek"), (1, 7, [32], "mac_cyrillic"), (1, 29, [24], "mac_latin2"), (1, 35, [17], "mac_turkish"), (1, 37, [15], "mac_iceland"),
    (1, 1, [11], "x_mac_japanese"), (1, 2, [19], "x_mac_trad_chinese"), (1, 3, [23], "x_mac_korean"), (1, 25, [33], "x_mac_simp_chinese"),
    (2, 0, [0], "ascii"), (2, 1, [0], "utf16"), (2, 2, [0], "latin1"),
    (3, 2, [0x411], "shift_jis"), (3, 3, [0x804], "gb2312"), (3, 4, [0x404], "big5"), (3, 5, [0x412], "euc_kr"), (3, 6, [0x412], "johab"),
    (1, 4, [12], "ascii"), (4, 0, [0], "ascii"), (3, 7, [0x409], "ascii"),
]

_REPERTOIRE = {}
_CJK_EXTRA = {
    "x_mac_japanese": ("shift_jis", "\\ ©™…"),
    "x_mac_trad_chinese": ("big5", "\\ ©™…"),
    "x_mac_korean": ("euc_kr", " ₩—©™…"),
    "x_mac_simp_chinese": ("gb2312", "ü ©™…"),
}


def repertoire(key):
    """characters that the Python codec of an encoding round-trips (computed with Python's codecs only)"""
    if key in _REPERTOIRE:
        return _REPERTOIRE[key]
    if key == "utf16":
        r = None
    elif key in ("ascii",):
        r = [chr(c) for c in range(1, 128)]
    elif key == "latin1":
        r = [chr(c) for c in range(1, 256)]
    elif key.startswith("mac_"):
        r = []
        for b in range(1, 256):
            try:
                c = bytes([b]).decode(key)
            except UnicodeDecodeError:
                continue
            if c.encode(key) == bytes([b]) and c != "\0":
                r.append(c)
    else:
        extra = ""
        base = key
        if key in _CJK_EXTRA:
            base, extra = _CJK_EXTRA[key]
        r = []
        # ASCII part: printable, minus the characters the Macintosh variants reassign
        for c in range(0x20, 0x7F):
            ch = chr(c)
            if key in _CJK_EXTRA and ch in "\\~|":
                continue
            try:
                if ch.encode(base).decode(base) == ch and len(ch.encode(base)) == 1:
                    r.append(ch)
            except UnicodeError:
                pass
        for c in list(range(0x3000, 0x3100)) + list(range(0x4E00, 0x5000)) + list(range(0xAC00, 0xAD00)) + list(range(0xFF61, 0xFFA0)):
            ch = chr(c)
            try:
                b = ch.encode(base)
                if len(b) == 2 and b.decode(base) == ch:
                    r.append(ch)
            except UnicodeError:
                pass
        if key in _CJK_EXTRA:
            r += [ch for ch in extra if ch not in r]
    _REPERTOIRE[key] = r
    return r


_UTF16_CHARS = st.one_of(
    st.characters(min_codepoint=0x20, max_codepoint=0x7E),
    st.characters(min_codepoint=1, max_codepoint=0xFFFF, blacklist_categories=("Cs",)),
    st.characters(min_codepoint=0x10000, max_codepoint=0x10FFFF),
    st.sampled_from(["é", "中", "\U0001F600", "￿", "﻿", "\u0001", "\U0010FFFF", "퟿", ""]),
)


@st.composite
def name_string(draw, key):
    rep = repertoire(key)
    n = draw(st.one_of(st.integers(0, 3), st.integers(0, 12), st.integers(0, 40)))
    if rep is None:
        return "".join(draw(st.lists(_UTF16_CHARS, min_size=n, max_size=n)))
    return "".join(draw(st.lists(st.sampled_from(rep), min_size=n, max_size=n)))


@st.composite
def name_specs(draw):
    n = draw(st.integers(0, 9))
    records = []
    seen = set()
    pool = {}
    for _ in range(n):
        pid, eid, langs, key = draw(st.sampled_from(_NAME_ENCODINGS))
        lang = draw(st.sampled_from(langs))
        nid = draw(st.one_of(st.integers(0, 6), st.sampled_from([16, 17, 25, 255, 256, 32767, 65535])))
        while (pid, eid, lang, nid) in seen:  # next free nameID
            nid = (nid + 1) % 65536
        seen.add((pid, eid, lang, nid))
        if key in pool and draw(st.integers(0, 2)) == 0:
            s = draw(st.sampled_from(pool[key]))  # same string again: string storage is shared
        else:
            s = draw(name_string(key))
            pool.setdefault(key, []).append(s)
        records.append([pid, eid, lang, nid, s])
    return {"records": records}


# ---------------------------------------------------------------------------
# kern / post / OS/2


@st.composite
def kern_specs(draw):
    nglyphs = draw(st.sampled_from([3, 17, 300, 1000]))
    apple = draw(st.integers(0, 3)) == 0
    nsub = draw(st.sampled_from([1, 1, 1, 2, 3]))
    subs = []
    for _ in range(nsub):
        npairs = draw(st.one_of(st.integers(0, 5), st.integers(0, 40), st.sampled_from([0, 1, 2, 3, 4, 7, 8, 9, 200])))
        g = st.integers(0, nglyphs - 1)
        pairs = draw(st.dictionaries(st.tuples(g, g), st.one_of(st.integers(-200, 200), st.sampled_from([-32768, 32767, 0, -1])), min_size=0, max_size=npairs))
        subs.append({"coverage": draw(st.sampled_from([1, 1, 0, 3, 5, 9, 0xFF])), "tupleIndex": draw(st.sampled_from([0, 0, 3])) if apple else None, "pairs": [[l, r, v] for (l, r), v in sorted(pairs.items())]})
    return {"nglyphs": nglyphs, "apple": apple, "subtables": subs}


_PS_CHARS = "ABCDEFGHIJKLMNOPQRSTUVWXYZabcdefghijklmnopqrstuvwxyz0123456789._-"


@st.composite
def post_specs(draw):
    fmt = draw(st.sampled_from([1, 2, 2, 2, 2, 3]))
    hdr = {
        "italicAngle": draw(st.one_of(st.just(0), st.integers(-(2**31), 2**31 - 1), st.sampled_from([-12 * 65536, 65536 // 2]))),
        "underlinePosition": draw(st.integers(-32768, 32767)),
        "underlineThickness": draw(st.integers(-32768, 32767)),
        "isFixedPitch": draw(st.sampled_from([0, 1, 0xFFFFFFFF])),
        "mem": [draw(st.sampled_from([0, 1, 0xFFFFFFFF, 4096])) for _ in range(4)],
    }
    spec = {"fmt": fmt, "hdr": hdr}
    if fmt == 1:
        spec["n"] = draw(st.sampled_from([1, 2, 100, 257, 258]))
    elif fmt == 3:
        spec["n"] = draw(st.integers(1, 20))
    else:
        n = draw(st.one_of(st.integers(1, 6), st.integers(1, 30)))
        mode = draw(st.sampled_from(["unique", "unique", "dups"]))
        name = st.one_of(
            st.tuples(st.just("std"), st.integers(0, 257)),
            st.tuples(st.just("str"), st.text(alphabet=_PS_CHARS, min_size=1, max_size=12)),
            st.tuples(st.just("str"), st.text(alphabet=_PS_CHARS, min_size=60, max_size=64)),
            st.tuples(st.just("str"), st.sampled_from(["x" * 255, "y" * 254, "a.1", "a.2", "glyph00001", "glyph00002", "uni0041", "a", "b"])),
        )
        names = draw(st.lists(name, min_size=n, max_size=n))
        if mode == "unique":
            from fontTools.ttLib.standardGlyphOrder import standardGlyphOrder as _STD  # the 258 Macintosh names (a constant)

            seen = set()
            out = []
            for k, v in names:
                key = _STD[v] if k == "std" else v
                bump = 0
                while key in seen:  # make unique by construction (by resolved NAME: a custom string may spell a standard name)
                    bump += 1
                    if k == "std":
                        v = (v + 1) % 258
                    else:
                        v = (v[:240] + "n%d" % bump) if len(v) >= 240 else v + "x"
                    key = _STD[v] if k == "std" else v
                seen.add(key)
                out.append([k, v])
            names = out
        else:
            names = [list(x) for x in names]
            if len(names) > 1:
                names[-1] = list(names[0])  # at least one duplicate
        spec["mode"] = mode
        spec["names"] = names
    return spec


@st.composite
def os2_specs(draw, version=None):
    version = draw(st.integers(0, 5)) if version is None else version
    vals = {"version": version}
    u16_ = st.one_of(st.integers(0, 65535), st.sampled_from([0, 1, 400, 0x8000, 0xFFFF]))
    s16_ = st.one_of(st.integers(-32768, 32767), st.sampled_from([0, -1, -32768, 32767]))
    u32_ = st.one_of(st.integers(0, 2**32 - 1), st.sampled_from([0, 1, 0x80000000, 0xFFFFFFFF]))
    from vf import otread

    for name, c in otread.os2_fields(version):
        if name == "version":
            continue
        if c == "H":
            vals[name] = draw(u16_)
        elif c == "h":
            vals[name] = draw(s16_)
        elif c == "L":
            vals[name] = draw(u32_)
        elif name == "panose":
            vals[name] = draw(st.lists(st.integers(0, 255), min_size=10, max_size=10))
        elif name == "achVendID":
            vals[name] = draw(st.text(alphabet="ABCDEFGHIJKLMNOPQRSTUVWXYZabcxyz0123456789 !", min_size=4, max_size=4))
    return vals


# ---------------------------------------------------------------------------
# glyph-ID patterns for Coverage / ClassDef


@st.composite
def gid_runs(draw, nglyphs, classes=None, maxruns=8):
    """[[start, length(, class)]] ascending, non-overlapping; runs of length 1, 2, 3, ... decide the format choice"""
    maxgid = nglyphs - 1
    g = draw(st.one_of(st.just(0), st.integers(0, min(maxgid, 20)), st.integers(0, maxgid)))
    runs = []
    for i in range(draw(st.integers(0, maxruns))):
        if i:
            g += draw(st.sampled_from([0, 1, 1, 1, 2, 3, 10, 200]))
            if classes is None and runs and g == runs[-1][0] + runs[-1][1]:
                g += 1  # adjacent runs of a coverage are one run
        if g > maxgid:
            break
        n = draw(st.one_of(st.integers(1, 1), st.integers(1, 4), st.integers(2, 30), st.sampled_from([2, 3, 4])))
        n = min(n, maxgid - g + 1)
        if classes is None:
            runs.append([g, n])
        else:
            c = draw(classes)
            if runs and runs[-1][0] + runs[-1][1] == g and runs[-1][2] == c:
                runs[-1][1] += n  # same class, adjacent: one run
            else:
                runs.append([g, n, c])
        g += n
    if draw(st.integers(0, 7)) == 0 and (not runs or runs[-1][0] + runs[-1][1] - 1 < maxgid - 1):
        # the last glyph of the font
        runs.append([maxgid, 1] if classes is None else [maxgid, 1, draw(classes)])
    return runs


def runs_to_gids(runs):
    out = []
    for r in runs:
        out.extend(range(r[0], r[0] + r[1]))
    return out


def runs_to_classes(runs):
    out = {}
    for s, n, c in runs:
        for g in range(s, s + n):
            out[g] = c
    return out


@st.composite
def gdef_specs(draw):
    nglyphs = BIG_GLYPH_COUNT if draw(st.integers(0, 9)) == 0 else draw(st.sampled_from([17, 258, 300, 1000]))
    spec = {"nglyphs": nglyphs}
    spec["gcd"] = draw(gid_runs(nglyphs, classes=st.integers(1, 4)))
    spec["macd"] = draw(st.one_of(st.none(), gid_runs(nglyphs, classes=st.one_of(st.integers(1, 5), st.sampled_from([255, 256, 65535])))))
    spec["sets"] = draw(st.lists(gid_runs(nglyphs), min_size=0, max_size=3))
    spec["unsorted"] = None
    if draw(st.integers(0, 5)) == 0:
        # a mark set whose glyph list is not in glyph-id order (the library documents support for it)
        g = runs_to_gids(draw(gid_runs(nglyphs, maxruns=4)))
        if len(g) > 1:
            k = draw(st.integers(1, len(g) - 1))
            spec["unsorted"] = g[k:] + g[:k]
    return spec


# ---------------------------------------------------------------------------
# layout lookups


@st.composite
def layout_specs(draw, kind=None):
    if kind is None:
        kind = draw(st.sampled_from(["single", "single", "multiple", "alternate", "ligature", "pairglyph", "pairclass", "markbase", "singlepos"]))
    nglyphs = BIG_GLYPH_COUNT if (kind == "single" and draw(st.integers(0, 9)) == 0) else draw(st.sampled_from([17, 300, 1000]))
    maxgid = nglyphs - 1
    gid = st.integers(1, maxgid)
    spec = {"kind": kind, "nglyphs": nglyphs, "ext": draw(st.integers(0, 7)) == 0}
    if kind == "single":
        mode = draw(st.sampled_from(["delta", "delta", "list", "list", "wrap"]))
        ins = runs_to_gids(draw(gid_runs(nglyphs, maxruns=5)))
        ins = [g for g in ins if g][:60] or [1]
        if mode == "delta":
            lo, hi = -min(ins), maxgid - max(ins)
            d = draw(st.integers(lo, hi))
            spec["map"] = [[g, g + d] for g in ins]
        elif mode == "wrap" and nglyphs == BIG_GLYPH_COUNT:
            # output = (input + delta) mod 65536 with a delta that wraps around
            ins = sorted(draw(st.sets(st.integers(60000, maxgid), min_size=1, max_size=20)))
            d = draw(st.integers(10000, 20000))
            spec["map"] = [[g, (g + d) % 65536] for g in ins]
        else:
            spec["map"] = [[g, draw(gid)] for g in ins]
        spec["mode"] = mode
    elif kind == "multiple":
        ins = [g for g in runs_to_gids(draw(gid_runs(nglyphs, maxruns=4))) if g][:30] or [1]
        spec["map"] = [[g, draw(st.lists(gid, min_size=1, max_size=4))] for g in ins]
    elif kind == "alternate":
        ins = [g for g in runs_to_gids(draw(gid_runs(nglyphs, maxruns=4))) if g][:30] or [1]
        spec["map"] = [[g, draw(st.lists(gid, min_size=1, max_size=5))] for g in ins]
    elif kind == "ligature":
        n = draw(st.integers(1, 8))
        firsts = draw(st.lists(gid, min_size=1, max_size=3, unique=True))
        rules = {}
        for _ in range(n):
            comps = (draw(st.sampled_from(firsts)),) + tuple(draw(st.lists(st.one_of(gid, st.sampled_from(firsts)), min_size=1, max_size=4)))
            rules[comps] = draw(gid)
        spec["ligs"] = [[list(k), v] for k, v in rules.items()]
    elif kind in ("pairglyph", "pairclass"):
        val = st.one_of(st.integers(-200, 200), st.sampled_from([-32768, 32767, 1, -1]))
        fmt1 = draw(st.sampled_from([4, 4, 5, 1, 0x0F]))  # XAdvance | XPlacement | ...
        fmt2 = draw(st.sampled_from([0, 0, 4, 1, 5]))
        spec["vf"] = [fmt1, fmt2]

        def value(draw, f):
            return [draw(val) if f & (1 << i) else None for i in range(4)]

        if kind == "pairglyph":
            npairs = draw(st.integers(1, 12))
            lefts = draw(st.lists(gid, min_size=1, max_size=4, unique=True))
            pairs = {}
            for _ in range(npairs):
                pairs[(draw(st.sampled_from(lefts)), draw(gid))] = [value(draw, fmt1), value(draw, fmt2)]
            spec["pairs"] = [[list(k), v] for k, v in sorted(pairs.items())]
        else:
            # disjoint glyph classes on each side
            def classes(draw, k):
                runs = draw(gid_runs(nglyphs, classes=st.integers(1, k), maxruns=6))
                by = {}
                for g, c in runs_to_classes(runs).items():
                    if g:
                        by.setdefault(c, []).append(g)
                return [sorted(v)[:25] for c, v in sorted(by.items())] or [[1]]

            c1 = classes(draw, 3)
            c2 = classes(draw, 3)
            pairs = []
            for i in range(len(c1)):
                for j in range(len(c2)):
                    if draw(st.integers(0, 3)):
                        pairs.append([i, j, [value(draw, fmt1), value(draw, fmt2)]])
            if not pairs:
                pairs.append([0, 0, [value(draw, fmt1), value(draw, fmt2)]])
            spec["classes1"], spec["classes2"], spec["pairs"] = c1, c2, pairs
    elif kind == "singlepos":
        val = st.one_of(st.integers(-200, 200), st.sampled_from([-32768, 32767, 1]))
        ins = [g for g in runs_to_gids(draw(gid_runs(nglyphs, maxruns=5))) if g][:60] or [1]
        same = draw(st.booleans())
        v0 = draw(val) or 5
        spec["map"] = [[g, v0 if same else (draw(val) or 7)] for g in ins]
    else:  # markbase
        nmark = draw(st.integers(1, 5))
        nbase = draw(st.integers(1, 5))
        gl = draw(st.lists(gid, min_size=nmark + nbase, max_size=nmark + nbase, unique=True)) if maxgid >= 12 else list(range(1, nmark + nbase + 1))
        ncls = draw(st.integers(1, 3))
        co = st.integers(-1000, 1000)
        marks = [[g, draw(st.integers(0, ncls - 1)), draw(co), draw(co)] for g in gl[:nmark]]
        used = sorted({m[1] for m in marks})
        remap = {c: i for i, c in enumerate(used)}  # class numbers are dense
        marks = [[g, remap[c], x, y] for g, c, x, y in marks]
        bases = []
        for g in gl[nmark:]:
            anchors = [[draw(co), draw(co)] if draw(st.integers(0, 4)) else None for _ in used]
            bases.append([g, anchors])
        spec["marks"], spec["bases"] = marks, bases
    return spec


# ---------------------------------------------------------------------------
# variations: fvar / avar / gvar / cvar

_AXIS_TAGS = ["wght", "wdth", "opsz", "ital", "slnt", "ZZ01", "a  b"]
_PEAKS = [16384, -16384, 8192, -8192, 4096, 12288, 1, -1, 16383, 5461]


@st.composite
def region(draw, tags):
    """{tag: [start, peak, end]} in F2Dot14 integers; valid: start <= peak <= end, same sign, peak != 0"""
    reg = {}
    use = draw(st.lists(st.sampled_from(tags), min_size=1, max_size=len(tags), unique=True))
    for t in use:
        peak = draw(st.one_of(st.sampled_from(_PEAKS), st.integers(1, 16384), st.integers(-16384, -1)))
        if draw(st.integers(0, 2)) == 0:
            if peak > 0:
                lo = draw(st.integers(0, peak))
                hi = draw(st.integers(peak, 16384))
            else:
                lo = draw(st.integers(-16384, peak))
                hi = draw(st.integers(peak, 0))
            reg[t] = [lo, peak, hi]
        else:
            reg[t] = [min(peak, 0), peak, max(peak, 0)]
    return reg


_TV_DELTA = st.one_of(st.just(0), st.integers(-20, 20), st.integers(-128, 127), st.sampled_from([-129, -128, 127, 128, 300, -300]), st.integers(-2000, 2000))
_TV_DELTA_WIDE = st.one_of(_TV_DELTA, st.sampled_from([-32768, 32767, 32768, -32769, 100000, -(2**31), 2**31 - 1]))


@st.composite
def tuple_variations(draw, tags, npts, width, *, wide=False, min_tuples=1):
    """list of {"region", "deltas"}; deltas: [dx, dy] | int | None per point"""
    ntv = draw(st.integers(min_tuples, 4))
    tvs = []
    regions = [draw(region(tags)) for _ in range(draw(st.integers(1, 3)))]
    pointsets = []
    dl = _TV_DELTA_WIDE if wide else _TV_DELTA
    for _ in range(ntv):
        reg = draw(st.sampled_from(regions)) if draw(st.booleans()) else draw(region(tags))
        mode = draw(st.sampled_from(["all", "all", "sparse", "sparse", "reuse", "one", "zero-runs"]))
        if mode == "reuse" and not pointsets:
            mode = "sparse"
        if mode == "all" or mode == "zero-runs":
            used = list(range(npts))
        elif mode == "reuse":
            used = draw(st.sampled_from(pointsets))
        elif mode == "one":
            used = [draw(st.integers(0, npts - 1))]
        else:
            used = sorted(draw(st.sets(st.integers(0, npts - 1), min_size=1, max_size=npts)))
        if len(used) < npts:
            pointsets.append(used)
        deltas = [None] * npts
        for i in used:
            if mode == "zero-runs":
                v = draw(st.sampled_from([0, 0, 0, 5, 300]))
                deltas[i] = [v, draw(st.sampled_from([0, 0, v]))] if width == 2 else v
            else:
                deltas[i] = [draw(dl), draw(dl)] if width == 2 else draw(dl)
        tvs.append({"region": reg, "deltas": deltas})
    return tvs


@st.composite
def var_specs(draw):
    naxes = draw(st.integers(1, 3))
    tags = draw(st.lists(st.sampled_from(_AXIS_TAGS), min_size=naxes, max_size=naxes, unique=True))
    axes = []
    for t in tags:
        mn, df, mx = draw(st.sampled_from([(100, 400, 900), (400, 400, 900), (100, 900, 900), (0, 50, 100), (-10, 0, 10), (0.5, 1.25, 300.75), (-32768, 0, 32767)]))
        axes.append([t, mn, df, mx, draw(st.sampled_from([0, 1])), draw(st.integers(256, 300))])
    instances = []
    for _ in range(draw(st.integers(0, 3))):
        instances.append({"sub": draw(st.integers(256, 300)), "flags": 0, "coords": [draw(st.sampled_from([a[1], a[2], a[3], (a[1] + a[3]) / 2])) for a in axes], "ps": None})
    if instances and draw(st.booleans()):
        for i in instances:
            i["ps"] = draw(st.integers(256, 300))
    spec = {"axes": axes, "instances": instances}
    # avar
    if draw(st.integers(0, 2)):
        av = []
        for a in axes:
            pts = {-16384: -16384, 0: 0, 16384: 16384}
            for _ in range(draw(st.integers(0, 4))):
                k = draw(st.integers(-16383, 16383))
                if k:
                    pts[k] = 0  # value filled below, monotone
            keys = sorted(pts)
            # monotone non-decreasing values with the three fixed points
            vals = []
            for k in keys:
                if k in (-16384, 0, 16384):
                    vals.append(k)
                else:
                    lo = vals[-1]
                    hi = 0 if k < 0 else 16384
                    vals.append(draw(st.integers(min(lo, hi), hi)) if lo <= hi else lo)
            # values left of 0 must not exceed 0 etc. is ensured by hi
            av.append([[k, v] for k, v in zip(keys, vals)])
        spec["avar"] = av
    else:
        spec["avar"] = None
    # glyphs: small simple glyphs (moderate coordinates so that HarfBuzz outlines stay comparable)
    glyphs = []
    for _ in range(draw(st.integers(1, 3))):
        conts = []
        for _c in range(draw(st.integers(0, 2))):
            n = draw(st.integers(1, 7))
            conts.append([[draw(st.integers(-20, 40)) * 25, draw(st.integers(-20, 40)) * 25, draw(st.integers(0, 1))] for _ in range(n)])
        glyphs.append({"pts": conts, "adv": draw(st.integers(0, 40)) * 25})
    spec["glyphs"] = glyphs
    wide = draw(st.integers(0, 5)) == 0
    spec["wide"] = wide
    tvs = {}
    for gi, g in enumerate(glyphs):
        npts = sum(len(c) for c in g["pts"]) + 4
        if draw(st.integers(0, 5)):
            tvs[str(gi)] = draw(tuple_variations(tags, npts, 2, wide=wide))
    spec["gvar"] = tvs
    ncvt = draw(st.sampled_from([0, 1, 5, 70, 200]))
    spec["cvt"] = [draw(st.integers(-1000, 1000)) for _ in range(ncvt)]
    spec["cvar"] = draw(tuple_variations(tags, ncvt, 1, wide=False, min_tuples=0)) if ncvt else []
    spec["cvar_shared"] = draw(st.booleans())
    return spec


# ---------------------------------------------------------------------------
# COLR


_F214 = st.sampled_from([0.0, 1.0, 0.5, -0.5, 0.25, 1.5, -1.0, 1 / 16384, 0.75])
_FIXED = st.one_of(st.sampled_from([0.0, 1.0, -1.0, 0.5, 2.0, 100.25, -3.5]), st.integers(-500, 500).map(float))
_FW = st.integers(-1000, 1000)
# angles are in degrees, stored as F2Dot14 fractions of a half circle
_ANGLE = st.sampled_from([0.0, 90.0, -90.0, 45.0, 180.0, -360.0, 359.989013671875, 0.010986328125, 1.5, -33.3])


@st.composite
def paint(draw, nglyphs, depth, colr_glyphs):
    gid = st.integers(1, nglyphs - 1)
    kinds = ["solid", "linear", "glyph", "glyph"]
    if depth > 0:
        kinds += ["transform", "translate", "scale", "rotate", "skew", "composite", "layers", "glyph", "scale-center", "scale-uniform"]
        if colr_glyphs:
            kinds.append("colrglyph")
    k = draw(st.sampled_from(kinds))

    def colorline():
        n = draw(st.integers(1, 3))
        return {
            "Extend": draw(st.sampled_from(["pad", "repeat", "reflect"])),
            "ColorStop": [{"StopOffset": draw(_F214), "PaletteIndex": draw(st.integers(0, 5)), "Alpha": draw(_F214)} for _ in range(n)],
        }

    sub = lambda: draw(paint(nglyphs, depth - 1, colr_glyphs))
    if k == "solid":
        return {"Format": 2, "PaletteIndex": draw(st.sampled_from([0, 1, 7, 0xFFFF])), "Alpha": draw(_F214)}
    if k == "linear":
        return {"Format": 4, "ColorLine": colorline(), "x0": draw(_FW), "y0": draw(_FW), "x1": draw(_FW), "y1": draw(_FW), "x2": draw(_FW), "y2": draw(_FW)}
    if k == "glyph":
        inner = sub() if depth > 0 else {"Format": 2, "PaletteIndex": draw(st.integers(0, 3)), "Alpha": draw(_F214)}
        return {"Format": 10, "Paint": inner, "Glyph": draw(gid)}
    if k == "colrglyph":
        return {"Format": 11, "Glyph": draw(st.sampled_from(colr_glyphs))}
    if k == "transform":
        return {"Format": 12, "Paint": sub(), "Transform": {n: draw(_FIXED) for n in ("xx", "yx", "xy", "yy", "dx", "dy")}}
    if k == "translate":
        return {"Format": 14, "Paint": sub(), "dx": draw(_FW), "dy": draw(_FW)}
    if k == "scale":
        return {"Format": 16, "Paint": sub(), "scaleX": draw(_F214), "scaleY": draw(_F214)}
    if k == "scale-center":
        return {"Format": 18, "Paint": sub(), "scaleX": draw(_F214), "scaleY": draw(_F214), "centerX": draw(_FW), "centerY": draw(_FW)}
    if k == "scale-uniform":
        return {"Format": 20, "Paint": sub(), "scale": draw(_F214)}
    if k == "rotate":
        return {"Format": 24, "Paint": sub(), "angle": draw(_ANGLE)}
    if k == "skew":
        return {"Format": 28, "Paint": sub(), "xSkewAngle": draw(_ANGLE), "ySkewAngle": draw(_ANGLE)}
    if k == "composite":
        return {"Format": 32, "SourcePaint": sub(), "CompositeMode": draw(st.sampled_from(["src_over", "multiply", "xor", "clear", "hsl_luminosity"])), "BackdropPaint": sub()}
    # layers: at least two, none of them a PaintColrLayers itself (the unbuilder flattens nested layer lists)
    n = draw(st.integers(2, 4))
    layers = []
    for _ in range(n):
        p = sub()
        while p["Format"] == 1:
            p = p["Layers"][0]
        layers.append(p)
    return {"Format": 1, "Layers": layers}


@st.composite
def colr_specs(draw):
    nglyphs = draw(st.sampled_from([17, 300]))
    gid = st.integers(1, nglyphs - 1)
    version = draw(st.sampled_from([0, 1, 1]))
    bases = sorted(draw(st.lists(gid, min_size=1, max_size=4, unique=True)))
    spec = {"nglyphs": nglyphs, "version": version}
    if version == 0:
        v0 = []
        for b in bases:
            if v0 and v0[-1][1] and draw(st.integers(0, 2)) == 0:
                # a recoloured variant of the previous base glyph: the same layer glyphs, other palette entries
                ls = [[g, draw(st.sampled_from([0, 1, 2, 3, 0xFFFF]))] for g, _p in v0[-1][1]]
            else:
                ls = [[draw(gid), draw(st.sampled_from([0, 1, 2, 0xFFFF]))] for _ in range(draw(st.integers(0, 4)))]
            v0.append([b, ls])
        spec["v0"] = v0
    else:
        spec["v1"] = [[b, draw(paint(nglyphs, draw(st.integers(0, 3)), bases))] for b in bases]
        spec["reuse"] = draw(st.booleans())
        spec["clips"] = [[b, [draw(_FW), draw(_FW), draw(_FW), draw(_FW)]] for b in bases if draw(st.integers(0, 2)) == 0]
    return spec


# ---------------------------------------------------------------------------
# DeltaSetIndexMap / VarIdxMap (HVAR advance width map)


@st.composite
def dsim_specs(draw):
    """{"n": glyph count, "map": [[outer, inner], ...]} one entry per glyph: the variation index map of an HVAR table."""
    n = draw(st.sampled_from([1, 2, 3, 5, 17, 40]))
    shape = draw(st.sampled_from(["dense", "two-rows", "single-bit", "sparse", "big-outer", "identity", "no-variation"]))
    outer_max = draw(st.sampled_from([0, 0, 1, 3, 255, 4095]))
    if shape == "dense":
        k = draw(st.integers(1, 70))
        m = [[draw(st.integers(0, outer_max)), draw(st.integers(0, k))] for _ in range(n)]
    elif shape == "two-rows":
        a, b = draw(st.sampled_from([(0, 4), (0, 2), (0, 8), (2, 6), (0, 64), (1, 128), (0, 0x8000 - 1)]))
        m = [[draw(st.integers(0, outer_max)), draw(st.sampled_from([a, b]))] for _ in range(n)]
    elif shape == "single-bit":
        v = draw(st.sampled_from([1, 2, 4, 8, 64, 256, 0x4000, 0x8000]))
        m = [[draw(st.integers(0, outer_max)), v] for _ in range(n)]
    elif shape == "sparse":
        m = [[draw(st.integers(0, outer_max)), draw(st.sampled_from([0, 1, 3, 5, 1000, 0xFFFE]))] for _ in range(n)]
    elif shape == "big-outer":
        m = [[draw(st.sampled_from([0, 1, 0xFF, 0x100, 0xFFFE])), draw(st.integers(0, 3))] for _ in range(n)]
    elif shape == "identity":
        m = [[0, i] for i in range(n)]
    else:
        m = [[0xFFFF, 0xFFFF] if draw(st.booleans()) else [0, draw(st.integers(0, 9))] for _ in range(n)]
    return {"n": n, "map": m, "shape": shape}
