#!/bin/bash
cd /verif
run() { echo "### $1"; shift; timeout 1500 /venv/bin/python tools/mut.py C14 "$@"; }
run M3 pens/pointPen.py 'points = points[firstOnCurve + 1 :] + points[: firstOnCurve + 1]' 'points = points[firstOnCurve:] + points[:firstOnCurve]'
run M4 pens/transformPen.py '            points = self._transformPoints(points)
        self._outPen.qCurveTo(*points)' '            points = list(points[:-1]) + [self._transformPoint(points[-1])]
        self._outPen.qCurveTo(*points)'
run M5 pens/pointPen.py '            and (self.contour[0][0] == self.contour[-1][0])
            and self.contour[0][1] is not None
            and self.contour[-1][1] is not None' '            and (self.contour[0][0] == self.contour[-1][0])'
run M7 pens/roundingPen.py 'def __init__(self, outPen, roundFunc=otRound, transformRoundFunc=noRound):
        super().__init__(outPen)
        self.roundFunc = roundFunc
        self.transformRoundFunc = transformRoundFunc

    def moveTo' 'def __init__(self, outPen, roundFunc=round, transformRoundFunc=noRound):
        super().__init__(outPen)
        self.roundFunc = roundFunc
        self.transformRoundFunc = transformRoundFunc

    def moveTo'
run M8 pens/t2CharStringPen.py '        pt = self._p0 = (self.round(pt[0]), self.round(pt[1]))
        return [pt[0] - p0[0], pt[1] - p0[1]]' '        self._p0 = pt
        return [self.round(pt[0] - p0[0]), self.round(pt[1] - p0[1])]'
run M11 misc/transform.py 'dx, dy = -xx * dx - yx * dy, -xy * dx - yy * dy' 'dx, dy = -xx * dx - xy * dy, -yx * dx - yy * dy'
run M16 pens/transformPen.py '        transformation = self._transformation.transform(transformation)
        self._outPen.addComponent(glyphName, transformation)' '        from fontTools.misc.transform import Transform
        transformation = Transform(*transformation).transform(self._transformation)
        self._outPen.addComponent(glyphName, transformation)'
run M9 pens/svgPathPen.py '        self._lastCommand = "Q"
        self._lastX, self._lastY = pt2' '        self._lastCommand = "Q"
        self._lastX, self._lastY = pt1'
run M10 pens/areaPen.py 'self.value -= (x2 * y1 - x1 * y2) / 3' 'self.value -= (x2 * y1 - x1 * y2) / 2'
run M12 ttLib/tables/_g_l_y_f.py 'nxt = i + 1 if i < last else start' 'nxt = i + 1 if i < last else 0'
run M13 pens/boundsPen.py '        if not pointInRect(bcp, bounds):
            bounds = unionRect(
                bounds, calcQuadraticBounds(self._getCurrentPoint(), bcp, pt)' '        if not pointInRect(bcp, bounds):
            bounds = unionRect(
                bounds, calcQuadraticBounds(bcp, bcp, pt)'
run M14 pens/ttGlyphPen.py '        if endPt == 0 or (self.endPts and endPt == self.endPts[-1] + 1):' '        if endPt == 0:'
run M15 pens/pointPen.py '            contour.append(contour.pop(0))
            # Find the first on-curve point.' '            # Find the first on-curve point.'
echo ALLDONE
