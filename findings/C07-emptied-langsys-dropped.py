"""Subsetter removes a LangSys record whose features all became empty (Script.subset_features / Script.prune_features,
GSUB and GPOS alike). A language system that applies nothing is not the same as no language system: when the record is
gone the shaper uses the script's DefaultLangSys and applies ITS features to text in that language. Built font, GSUB:
'liga' (f i -> f_i) under DFLT/dflt and latn/dflt; latn/TRK has only 'locl' (scedilla -> scedilla.trk), i.e. Turkish
text gets no fi ligature. Subset to unicodes f, i with layout_features=['*']: latn/TRK is dropped, and 'fi' shaped with
script latn, language Turkish gives 'f i' with the original but 'f_i' with the subset.
Expected: same glyphs as the original for text over the retained characters."""


def reproduce():
    import io

    import uharfbuzz as hb
    from fontTools import subset
    from fontTools.feaLib.builder import addOpenTypeFeaturesFromString
    from fontTools.fontBuilder import FontBuilder
    from fontTools.pens.ttGlyphPen import TTGlyphPen

    fb = FontBuilder(1000, isTTF=True)
    order = [".notdef", "f", "i", "f_i", "scedilla", "scedilla.trk"]
    fb.setupGlyphOrder(order)
    fb.setupCharacterMap({0x66: "f", 0x69: "i", 0x15F: "scedilla"})
    pen = TTGlyphPen(None)
    pen.moveTo((0, 0))
    pen.lineTo((0, 500))
    pen.lineTo((500, 500))
    pen.closePath()
    glyph = pen.glyph()
    fb.setupGlyf({n: glyph for n in order})
    fb.setupHorizontalMetrics({n: (600, 0) for n in order})
    fb.setupHorizontalHeader(ascent=800, descent=-200)
    fb.setupNameTable({"familyName": "W", "styleName": "Regular"})
    fb.setupOS2()
    fb.setupPost()
    addOpenTypeFeaturesFromString(
        fb.font,
        "languagesystem DFLT dflt; languagesystem latn dflt;"
        "feature liga { sub f i by f_i; } liga;"
        "feature locl { script latn; language TRK exclude_dflt; sub scedilla by scedilla.trk; } locl;",
    )
    buf = io.BytesIO()
    fb.save(buf)
    original = buf.getvalue()

    def langsys(font):
        return sorted(
            "%s/%s" % (r.ScriptTag.strip(), t.strip())
            for r in font["GSUB"].table.ScriptList.ScriptRecord
            for t in (["dflt"] if r.Script.DefaultLangSys else []) + [l.LangSysTag for l in r.Script.LangSysRecord]
        )

    opts = subset.Options(layout_features=["*"])
    font = subset.load_font(io.BytesIO(original), opts)
    order0, ls0 = font.getGlyphOrder(), langsys(font)
    s = subset.Subsetter(opts)
    s.populate(unicodes=[0x66, 0x69])
    s.subset(font)
    order1, ls1 = font.getGlyphOrder(), langsys(font) if "GSUB" in font else []
    out = io.BytesIO()
    subset.save_font(font, out, opts)

    def shape(data, order):
        hbfont = hb.Font(hb.Face(data))
        b = hb.Buffer()
        b.add_str("fi")
        b.script = "Latn"
        b.direction = "ltr"
        b.language = "tr"
        hb.shape(hbfont, b, {})
        return [order[i.codepoint] for i in b.glyph_infos]

    r0 = shape(original, order0)
    r1 = shape(out.getvalue(), order1)
    if r0 != ["f", "i"]:
        return None  # not the input this witness is about
    if r0 != r1:
        return "'fi' with script latn, language TRK: original %s, subset %s (GSUB language systems: original %s, subset %s)" % (r0, r1, ls0, ls1)
    return None
