"""FreeType as a third, independent vote (freetype-py). Used only to adjudicate a
fontTools / HarfBuzz disagreement."""

import freetype
from freetype import FT_LOAD_NO_BITMAP, FT_LOAD_NO_HINTING, FT_LOAD_NO_SCALE, FT_LOAD_IGNORE_TRANSFORM


class FTFont:
    def __init__(self, data, index=0):
        self.data = data
        self.face = freetype.Face(__import__("io").BytesIO(data), index=index)

    def axes(self):
        try:
            info = self.face.get_variation_info()
        except Exception:
            return []
        return [(a.tag, a.minimum, a.default, a.maximum) for a in info.axes]

    def set_location(self, loc):
        axes = self.axes()
        if not axes:
            return
        coords = []
        for tag, mn, df, mx in axes:
            v = (loc or {}).get(tag, df)
            coords.append(min(max(v, mn), mx))
        self.face.set_var_design_coords(coords)

    def load(self, gid):
        self.face.load_glyph(gid, FT_LOAD_NO_SCALE | FT_LOAD_NO_HINTING | FT_LOAD_NO_BITMAP | FT_LOAD_IGNORE_TRANSFORM)
        return self.face.glyph

    def h_advance(self, gid):
        g = self.load(gid)
        return g.metrics.horiAdvance

    def v_advance(self, gid):
        g = self.load(gid)
        return g.metrics.vertAdvance

    def draw(self, gid):
        """Segment-pen style op list from FT_Outline_Decompose."""
        g = self.load(gid)
        outline = g.outline
        ops = []
        state = {"open": False}

        def move_to(a, ctx):
            if state["open"]:
                ops.append(("closePath", ()))
            ops.append(("moveTo", ((a.x, a.y),)))
            state["open"] = True

        def line_to(a, ctx):
            ops.append(("lineTo", ((a.x, a.y),)))

        def conic_to(a, b, ctx):
            ops.append(("qCurveTo", ((a.x, a.y), (b.x, b.y))))

        def cubic_to(a, b, c, ctx):
            ops.append(("curveTo", ((a.x, a.y), (b.x, b.y), (c.x, c.y))))

        outline.decompose(None, move_to=move_to, line_to=line_to, conic_to=conic_to, cubic_to=cubic_to)
        if state["open"]:
            ops.append(("closePath", ()))
        return ops
