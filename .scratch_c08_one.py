import sys, time, json
sys.path.insert(0, '/verif')
from vf import runner
runner.bootstrap()
from props import c08
tier = sys.argv[1]; seed = int(sys.argv[2]); pat = sys.argv[3]; clause = sys.argv[4] if len(sys.argv) > 4 else None
for j in c08.jobs(tier, seed):
    if pat not in j['name']: continue
    acc = c08.run_job(j)
    seen = set()
    for f in acc.failures:
        if clause and f['clause'] != clause: continue
        k = json.dumps(f['case']['limits'], sort_keys=True)
        print(f['clause'], f['kind'], json.dumps(f['case']), '\n    ', f['detail'][:300])
