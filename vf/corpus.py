"""Corpus access. vf/corpus_index.json (built by tools/build_index.py on the
unchanged tree) lists which files under /repo/Tests are complete fonts together
with cheap attributes; the bytes are always loaded / compiled from /repo at run
time, with the fontTools of the tree under test.

A font id is "bin:<path relative to Tests>[#n]" (n = TTC member),
"ttx:<relative path>" (complete TTX font, compiled on demand) or
"gen:<seed>:<i>" (the i-th font specification drawn from vf.gen_font.specs() with the run's
VERIF_SEED; built on demand; table shapes the test data lacks: OS/2 v5, EBLC/EBDT of every
index/image format, Type 2 programs with flex/hints/subroutines, cmap 12/14/mac, kern, hdmx, ...).
A replay file that names a gen id carries the specification itself (runner attaches "gen_specs"),
so it stays replayable when the generator changes."""

import io
import json
import os
import random

from .runner import TESTS, HarnessError

_INDEX = None


def index():
    global _INDEX
    if _INDEX is None:
        with open(os.path.join(os.path.dirname(__file__), "corpus_index.json")) as f:
            _INDEX = json.load(f)
    return _INDEX


# ---------------------------------------------------------------------------
# generated entries

GEN_COUNT = int(os.environ.get("VERIF_GEN", "64"))
_GEN_SPECS = {}  # fid -> spec (drawn here or registered from a replay file)
_GEN_DRAWN = {}  # seed -> [fid, ...]
_GEN_BYTES = {}
_GEN_ENTRY = {}


def _run_seed():
    try:
        return int(os.environ.get("VERIF_SEED", "1") or "1")
    except ValueError:
        return 1


def gen_ids(seed=None, n=None):
    """Ids of the generated fonts of this run (drawn once per process; a pure function of seed and n)."""
    seed = _run_seed() if seed is None else seed
    n = GEN_COUNT if n is None else n
    if n <= 0:
        return []
    if (seed, n) not in _GEN_DRAWN:
        import hypothesis
        from hypothesis import given

        from . import gen_font
        from .runner import hyp_settings, subseed

        got = []

        more = 236  # continuation of the stream from which missing shapes are taken (gen_font.shape_picks)

        @hypothesis.seed(subseed(seed, "gen-font"))
        @hyp_settings(n + more)
        @given(gen_font.specs())
        def t(spec):
            got.append(spec)

        t()
        ids = []
        for i, spec in enumerate(got[:n] + gen_font.pinned_specs(seed) + gen_font.shape_picks(got[:n], got[n:])):
            fid = "gen:%d:%d" % (seed, i)
            _GEN_SPECS.setdefault(fid, spec)
            ids.append(fid)
        _GEN_DRAWN[(seed, n)] = ids
    return _GEN_DRAWN[(seed, n)]


def register_generated(fid, spec):
    _GEN_SPECS[fid] = spec
    _GEN_BYTES.pop(fid, None)
    _GEN_ENTRY.pop(fid, None)


def gen_spec(fid):
    if fid not in _GEN_SPECS:
        _, seed, i = fid.split(":")
        gen_ids(int(seed))
    if fid not in _GEN_SPECS:
        raise KeyError(fid)
    return _GEN_SPECS[fid]


def gen_bytes(fid):
    if fid not in _GEN_BYTES:
        from . import gen_font

        _GEN_BYTES[fid] = gen_font.build(gen_spec(fid))
    return _GEN_BYTES[fid]


def gen_entry(fid):
    """Index entry of a generated font, from its specification and a struct-level look at the built file."""
    if fid not in _GEN_ENTRY:
        from . import sfntref

        spec = gen_spec(fid)
        try:
            data = gen_bytes(fid)
            tags = sorted(sfntref.parse(data).fonts[0].tables)
            size = len(data)
        except HarnessError:
            raise
        except Exception as e:  # a tree under test that cannot build the font: the entry is dropped, never an alarm
            _GEN_ENTRY[fid] = None
            return None
        _GEN_ENTRY[fid] = dict(id=fid, flavor=None, numGlyphs=len(spec["names"]), ok=True, secs=0.0, size=size, tables=tags, upem=1000, variable="fvar" in tags, generated=True)
    return _GEN_ENTRY[fid]


def generated():
    return [e for e in (gen_entry(f) for f in gen_ids()) if e is not None]


def fonts(pred=None):
    """List of index entries (dicts) for usable fonts, in stable order (corpus files, then generated fonts)."""
    out = [e for e in index()["fonts"]] + generated()
    if pred:
        out = [e for e in out if pred(e)]
    return out


def ids(pred=None):
    return [e["id"] for e in fonts(pred)]


def entry(fid):
    if fid.startswith("gen:"):
        e = gen_entry(fid)
        if e is None:
            raise KeyError(fid)
        return e
    for e in index()["fonts"]:
        if e["id"] == fid:
            return e
    raise KeyError(fid)


def path_of(fid):
    kind, rest = fid.split(":", 1)
    rel = rest.split("#")[0]
    return os.path.join(TESTS, rel)


def file_bytes(fid):
    with open(path_of(fid), "rb") as f:
        return f.read()


def load_font(fid, **kw):
    """Open the font with the fontTools under test. For ttx ids the XML is imported
    (the result is an unsaved in-memory font); for bin ids the file is opened."""
    from fontTools.ttLib import TTFont

    kind, rest = fid.split(":", 1)
    if kind == "gen":
        return TTFont(io.BytesIO(gen_bytes(fid)), **kw)
    if kind == "ttx":
        f = TTFont(**{k: v for k, v in kw.items() if k in ("recalcBBoxes", "recalcTimestamp")})
        f.importXML(path_of(fid))
        return f
    num = -1
    if "#" in rest:
        num = int(rest.split("#")[1])
    return TTFont(io.BytesIO(file_bytes(fid)), fontNumber=num, **kw)


def sfnt_bytes(fid):
    """Bytes of a plain (or original-flavour) font file for this id: bin ids give the
    file bytes (TTC members are re-saved as a standalone sfnt); ttx ids are compiled."""
    kind, rest = fid.split(":", 1)
    if kind == "gen":
        return gen_bytes(fid)
    if kind == "bin" and "#" not in rest:
        return file_bytes(fid)
    f = load_font(fid)
    buf = io.BytesIO()
    f.save(buf)
    return buf.getvalue()


def sample(items, k, seed):
    items = list(items)
    if k >= len(items):
        return items
    rnd = random.Random(seed)
    return sorted(rnd.sample(items, k), key=items.index)


def shard(items, n):
    """Split into n interleaved shards (stable)."""
    return [items[i::n] for i in range(n) if items[i::n]]


def designspaces():
    out = []
    for dp, dn, fn in os.walk(TESTS):
        dn.sort()
        for f in sorted(fn):
            if f.endswith(".designspace"):
                out.append(os.path.join(dp, f))
    return out


def fea_files():
    out = []
    for dp, dn, fn in os.walk(TESTS):
        dn.sort()
        for f in sorted(fn):
            if f.endswith(".fea"):
                out.append(os.path.join(dp, f))
    return out
