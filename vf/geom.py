"""Outline canonicalisation and comparison "up to representation".

Input is a list of segment-pen calls as recorded by RecordingPen.value:
    ("moveTo", (pt,)), ("lineTo", (pt,)), ("curveTo", (c1, c2, pt)) [or a super-bezier with
    more off-curves], ("qCurveTo", (off..., on)) [on may be None for a contour without
    on-curve point], ("closePath", ()), ("endPath", ()).
Components must have been decomposed by the caller.

canon() turns this into a list of contours
    {"closed": bool, "start": (x, y), "segs": [("L", p0, p1) | ("Q", p0, c, p1) | ("C", p0, c1, c2, p1)]}
where implied on-curve points of quadratic splines are explicit, the closing line is
explicit, and fully degenerate segments (all control points coincident) are dropped.
Nothing from fontTools is used here.
"""

import math


class GeomError(Exception):
    pass


def _pt(p):
    return (float(p[0]), float(p[1]))


def _mid(a, b):
    return ((a[0] + b[0]) / 2.0, (a[1] + b[1]) / 2.0)


def _super_bezier(p0, pts):
    """Decompose a curveTo with n>3 points the way the pen protocol documents
    (basePen.decomposeSuperBezierSegment), re-implemented."""
    n = len(pts) - 1
    assert n > 1
    segs = []
    pt1, pt2, final = pts[0], None, pts[-1]
    for i in range(2, n + 1):
        nDivisions = min(i, 3, n - i + 2)
        for k in range(1, nDivisions):
            factor = k / nDivisions
            temp1 = pts[i - 1]
            temp2 = pts[i - 2]
            temp = (temp2[0] + factor * (temp1[0] - temp2[0]), temp2[1] + factor * (temp1[1] - temp2[1]))
            if pt2 is None:
                pt2 = temp
            else:
                pt3 = (0.5 * (pt2[0] + temp[0]), 0.5 * (pt2[1] + temp[1]))
                segs.append((pt1, pt2, pt3))
                pt1, pt2 = temp, None
    segs.append((pt1, pts[-2], final))
    return segs


def canon(ops, tol=0.0, drop_degenerate=True, drop_empty=False):
    contours = []
    cur = None  # current contour dict
    pos = None

    def finish(closed):
        nonlocal cur, pos
        if cur is None:
            return
        if closed and cur["segs"] is not None:
            s = cur["start"]
            if pos is not None and (pos[0] != s[0] or pos[1] != s[1]):
                cur["segs"].append(("L", pos, s))
        cur["closed"] = closed
        contours.append(cur)
        cur = None
        pos = None

    for op, args in ops:
        if op == "moveTo":
            if cur is not None:
                finish(False)
            pos = _pt(args[0])
            cur = {"closed": False, "start": pos, "segs": []}
        elif op == "lineTo":
            if cur is None:
                raise GeomError("lineTo without moveTo")
            p = _pt(args[0])
            cur["segs"].append(("L", pos, p))
            pos = p
        elif op == "curveTo":
            if cur is None:
                raise GeomError("curveTo without moveTo")
            pts = [_pt(p) for p in args]
            if len(pts) == 3:
                cur["segs"].append(("C", pos, pts[0], pts[1], pts[2]))
            elif len(pts) == 2:
                # documented: curveTo with 2 points == qCurveTo
                cur["segs"].append(("Q", pos, pts[0], pts[1]))
            elif len(pts) == 1:
                cur["segs"].append(("L", pos, pts[0]))
            else:
                p0 = pos
                for c1, c2, p in _super_bezier(p0, pts):
                    cur["segs"].append(("C", p0, c1, c2, p))
                    p0 = p
            pos = pts[-1]
        elif op == "qCurveTo":
            if args[-1] is None:
                # contour without on-curve points; it is its own (closed) contour
                offs = [_pt(p) for p in args[:-1]]
                if cur is not None and cur["segs"] == [] :
                    # some pens emit a moveTo first; not part of the protocol for this form
                    cur = None
                if cur is not None:
                    finish(False)
                n = len(offs)
                if n == 0:
                    raise GeomError("qCurveTo(None) without points")
                start = _mid(offs[-1], offs[0])
                segs = []
                p0 = start
                for i in range(n):
                    c = offs[i]
                    p1 = _mid(offs[i], offs[(i + 1) % n])
                    segs.append(("Q", p0, c, p1))
                    p0 = p1
                cur = {"closed": True, "start": start, "segs": segs, "no_oncurve": True}
                pos = start
                # closePath will follow
                continue
            if cur is None:
                raise GeomError("qCurveTo without moveTo")
            pts = [_pt(p) for p in args]
            on = pts[-1]
            offs = pts[:-1]
            if not offs:
                cur["segs"].append(("L", pos, on))
            else:
                p0 = pos
                for i, c in enumerate(offs):
                    p1 = on if i == len(offs) - 1 else _mid(c, offs[i + 1])
                    cur["segs"].append(("Q", p0, c, p1))
                    p0 = p1
            pos = on
        elif op == "closePath":
            finish(True)
        elif op == "endPath":
            finish(False)
        elif op == "addComponent":
            raise GeomError("component not decomposed")
        else:
            raise GeomError("unknown op %r" % (op,))
    if cur is not None:
        finish(False)

    out = []
    for c in contours:
        segs = c["segs"]
        if drop_degenerate:
            segs = [s for s in segs if not _degenerate(s, tol)]
        c = dict(c, segs=segs)
        if drop_empty and not segs:
            continue
        out.append(c)
    return out


def _degenerate(seg, tol):
    p0 = seg[1]
    return all(abs(p[0] - p0[0]) <= tol and abs(p[1] - p0[1]) <= tol for p in seg[2:])


def merge_collinear(contours, eps=1e-9):
    """Merge consecutive line segments that continue in exactly the same direction
    (used only where the property allows topology changes)."""
    out = []
    for c in contours:
        segs = list(c["segs"])
        changed = True
        while changed and len(segs) > 1:
            changed = False
            n = len(segs)
            rng = range(n) if c["closed"] else range(n - 1)
            for i in rng:
                a, b = segs[i], segs[(i + 1) % n]
                if a[0] == "L" and b[0] == "L" and a is not b:
                    d1 = (a[2][0] - a[1][0], a[2][1] - a[1][1])
                    d2 = (b[2][0] - b[1][0], b[2][1] - b[1][1])
                    cross = d1[0] * d2[1] - d1[1] * d2[0]
                    dot = d1[0] * d2[0] + d1[1] * d2[1]
                    scale = max(abs(d1[0]), abs(d1[1]), abs(d2[0]), abs(d2[1]), 1.0)
                    if abs(cross) <= eps * scale * scale and dot > 0:
                        m = ("L", a[1], b[2])
                        if (i + 1) % n == 0:
                            segs = [m] + segs[1:-1]
                            c = dict(c, start=m[1])
                        else:
                            segs = segs[:i] + [m] + segs[i + 2 :]
                        changed = True
                        break
        out.append(dict(c, segs=segs))
    return out


def _seg_close(a, b, tol):
    if a[0] != b[0]:
        return False
    for p, q in zip(a[1:], b[1:]):
        if abs(p[0] - q[0]) > tol or abs(p[1] - q[1]) > tol:
            return False
    return True


def _seg_maxdiff(a, b):
    return max(max(abs(p[0] - q[0]), abs(p[1] - q[1])) for p, q in zip(a[1:], b[1:]))


def contour_match(a, b, tol):
    """True if contours a and b have the same segments (closed contours: up to rotation
    of the starting segment)."""
    if a["closed"] != b["closed"]:
        return False
    sa, sb = a["segs"], b["segs"]
    if len(sa) != len(sb):
        return False
    n = len(sa)
    if n == 0:
        # single-point contours: compare the point
        return abs(a["start"][0] - b["start"][0]) <= tol and abs(a["start"][1] - b["start"][1]) <= tol
    if not a["closed"]:
        return all(_seg_close(x, y, tol) for x, y in zip(sa, sb))
    for k in range(n):
        if _seg_close(sa[0], sb[k], tol):
            if all(_seg_close(sa[i], sb[(i + k) % n], tol) for i in range(n)):
                return True
    return False


def same_geometry(A, B, tol=0.0, ordered=True):
    """Compare two canonical contour lists. Returns (ok, detail)."""
    if len(A) != len(B):
        return False, "contour count %d vs %d (segment counts %s vs %s)" % (
            len(A),
            len(B),
            [len(c["segs"]) for c in A][:12],
            [len(c["segs"]) for c in B][:12],
        )
    if ordered:
        for i, (a, b) in enumerate(zip(A, B)):
            if not contour_match(a, b, tol):
                return False, "contour %d differs: %s" % (i, describe_diff(a, b))
        return True, ""
    used = [False] * len(B)
    for i, a in enumerate(A):
        for j, b in enumerate(B):
            if not used[j] and contour_match(a, b, tol):
                used[j] = True
                break
        else:
            return False, "contour %d has no counterpart: %s" % (i, short_contour(a))
    return True, ""


def short_contour(c, n=6):
    return "%s%s" % ("closed" if c["closed"] else "open", [tuple([s[0]] + [(round(p[0], 3), round(p[1], 3)) for p in s[1:]]) for s in c["segs"][:n]])


def describe_diff(a, b):
    if a["closed"] != b["closed"]:
        return "closed %s vs %s" % (a["closed"], b["closed"])
    if len(a["segs"]) != len(b["segs"]):
        return "segment count %d vs %d; %s vs %s" % (len(a["segs"]), len(b["segs"]), short_contour(a, 4), short_contour(b, 4))
    kinds_a = "".join(s[0] for s in a["segs"])
    kinds_b = "".join(s[0] for s in b["segs"])
    best = None
    n = len(a["segs"])
    for k in range(n if a["closed"] else 1):
        if all(a["segs"][i][0] == b["segs"][(i + k) % n][0] for i in range(n)):
            d = max(_seg_maxdiff(a["segs"][i], b["segs"][(i + k) % n]) for i in range(n))
            if best is None or d < best:
                best = d
    if best is None:
        return "segment kinds %s vs %s" % (kinds_a[:40], kinds_b[:40])
    return "max coordinate difference %.6g; %s vs %s" % (best, short_contour(a, 3), short_contour(b, 3))


# ---------------------------------------------------------------------------
# measurements by dense sampling (independent of fontTools' pens)


def _eval(seg, t):
    if seg[0] == "L":
        (x0, y0), (x1, y1) = seg[1], seg[2]
        return (x0 + (x1 - x0) * t, y0 + (y1 - y0) * t)
    if seg[0] == "Q":
        p0, c, p1 = seg[1:]
        mt = 1 - t
        return (mt * mt * p0[0] + 2 * mt * t * c[0] + t * t * p1[0], mt * mt * p0[1] + 2 * mt * t * c[1] + t * t * p1[1])
    p0, c1, c2, p1 = seg[1:]
    mt = 1 - t
    a, b, c, d = mt * mt * mt, 3 * mt * mt * t, 3 * mt * t * t, t * t * t
    return (a * p0[0] + b * c1[0] + c * c2[0] + d * p1[0], a * p0[1] + b * c1[1] + c * c2[1] + d * p1[1])


def exact_area(contours):
    """Signed area by Green's theorem, exact polynomial integration per segment
    (closed contours; open contours are closed implicitly as fill rules do)."""
    total = 0.0
    for c in contours:
        segs = list(c["segs"])
        if not segs:
            continue
        if not c["closed"]:
            if segs[-1][-1] != segs[0][1]:
                segs.append(("L", segs[-1][-1], segs[0][1]))
        for s in segs:
            if s[0] == "L":
                (x0, y0), (x1, y1) = s[1], s[2]
                total += 0.5 * (x0 * y1 - x1 * y0)
            elif s[0] == "Q":
                (x0, y0), (x1, y1), (x2, y2) = s[1:]
                # integral of (x dy - y dx)/2 for quadratic Bezier
                total += (
                    (x0 * y1 - x1 * y0) * 2 / 3 + (x0 * y2 - x2 * y0) * 1 / 3 + (x1 * y2 - x2 * y1) * 2 / 3
                ) * 0.5
            else:
                (x0, y0), (x1, y1), (x2, y2), (x3, y3) = s[1:]
                total += (
                    (x0 * y1 - x1 * y0) * 6
                    + (x0 * y2 - x2 * y0) * 3
                    + (x0 * y3 - x3 * y0) * 1
                    + (x1 * y2 - x2 * y1) * 3
                    + (x1 * y3 - x3 * y1) * 3
                    + (x2 * y3 - x3 * y2) * 6
                ) / 20.0
    return total


def control_bounds(contours):
    xs, ys = [], []
    for c in contours:
        if not c["segs"]:
            xs.append(c["start"][0])
            ys.append(c["start"][1])
        for s in c["segs"]:
            for p in s[1:]:
                xs.append(p[0])
                ys.append(p[1])
    if not xs:
        return None
    return (min(xs), min(ys), max(xs), max(ys))


def _extrema_1d(seg, axis):
    if seg[0] == "L":
        return []
    if seg[0] == "Q":
        p0, c, p1 = (p[axis] for p in seg[1:])
        d = p0 - 2 * c + p1
        if d == 0:
            return []
        t = (p0 - c) / d
        return [t] if 0 < t < 1 else []
    p0, c1, c2, p1 = (p[axis] for p in seg[1:])
    a = -p0 + 3 * c1 - 3 * c2 + p1
    b = 2 * (p0 - 2 * c1 + c2)
    c = c1 - p0
    if abs(a) < 1e-14 * max(1.0, abs(b), abs(c)):
        if b == 0:
            return []
        t = -c / b
        return [t] if 0 < t < 1 else []
    disc = b * b - 4 * a * c
    if disc < 0:
        return []
    r = math.sqrt(disc)
    return [t for t in ((-b + r) / (2 * a), (-b - r) / (2 * a)) if 0 < t < 1]


def tight_bounds(contours):
    """Bounds of the curves themselves (extrema solved analytically per segment)."""
    xs, ys = [], []
    for c in contours:
        if not c["segs"]:
            xs.append(c["start"][0])
            ys.append(c["start"][1])
        for s in c["segs"]:
            for p in (s[1], s[-1]):
                xs.append(p[0])
                ys.append(p[1])
            for t in _extrema_1d(s, 0):
                xs.append(_eval(s, t)[0])
            for t in _extrema_1d(s, 1):
                ys.append(_eval(s, t)[1])
    if not xs:
        return None
    return (min(xs), min(ys), max(xs), max(ys))


# ---------------------------------------------------------------------------
# distance-based comparison (used when rounding may legitimately change the
# segment structure, e.g. a sub-unit segment collapsing after scaling)


def flatten(contours, n=12):
    """List of polylines (one per contour), curves sampled at n steps."""
    out = []
    for c in contours:
        pts = []
        for s in c["segs"]:
            if not pts:
                pts.append(s[1])
            if s[0] == "L":
                pts.append(s[2])
            else:
                for i in range(1, n + 1):
                    pts.append(_eval(s, i / n))
        if not pts:
            pts = [c["start"]]
        out.append(pts)
    return out


def _pt_seg_dist2(p, a, b):
    ax, ay = a
    bx, by = b
    px, py = p
    dx, dy = bx - ax, by - ay
    L = dx * dx + dy * dy
    if L == 0:
        return (px - ax) ** 2 + (py - ay) ** 2
    t = ((px - ax) * dx + (py - ay) * dy) / L
    t = 0.0 if t < 0 else 1.0 if t > 1 else t
    qx, qy = ax + t * dx, ay + t * dy
    return (px - qx) ** 2 + (py - qy) ** 2


def hausdorff_polylines(PA, PB):
    """Two-sided Hausdorff distance between unions of polylines (vertex-to-polyline)."""

    def one(P, Q):
        segs = []
        for q in Q:
            if len(q) == 1:
                segs.append((q[0], q[0]))
            segs.extend(zip(q, q[1:]))
        worst = 0.0
        for poly in P:
            for p in poly:
                best = min((_pt_seg_dist2(p, a, b) for a, b in segs), default=float("inf"))
                if best > worst:
                    worst = best
        return math.sqrt(worst)

    if not PA and not PB:
        return 0.0
    if not PA or not PB:
        return float("inf")
    return max(one(PA, PB), one(PB, PA))


def outline_distance(A, B, n=12):
    """Hausdorff distance between the flattened outlines (contour count must match for closedness
    to be meaningful; callers decide)."""
    return hausdorff_polylines(flatten(A, n), flatten(B, n))
