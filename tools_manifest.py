#!/usr/bin/env python3
"""Regenerates MANIFEST.json from the table below (kept valid at all times)."""
import json, os, sys
HERE = os.path.dirname(os.path.abspath(__file__))
BASE_CMD = "cd /repo && /venv/bin/python -m pytest -ra -q -p no:cacheprovider --timeout=900 --continue-on-collection-errors"

CHECKS = {}
def reg(pid, category, text, note, technique, design_ref):
    CHECKS[pid] = dict(
        property_id=pid,
        quick_cmd="./check %s --tier quick" % pid,
        thorough_cmd="./check %s --tier thorough" % pid,
        evidence_file="evidence/%s.json" % pid,
        replay_cmd_template="./check %s --replay {path}" % pid,
        engine="vf",
        level_claimed=dict(category=category, text=text, design_ref=design_ref),
        level_note=note,
        technique=technique,
    )

exec(open(os.path.join(HERE, "manifest_entries.py")).read())

props = [json.loads(l) for l in open(os.path.join(HERE, "properties.jsonl"))]
na = []
for p in props:
    if p["id"] not in CHECKS:
        na.append(dict(property_id=p["id"], reason=NOT_YET.get(p["id"], "check not built yet in this round; design in DESIGN.md section 2 (%s)" % p["id"])))
m = dict(
    version=1,
    setup_cmd="./setup.sh",
    hooks=dict(guard="FONTTOOLS_VERIF", enable="no hooks are needed: checks import /repo/Lib directly (sys.path) with FONTTOOLS_VERIF=1 exported; observation is external (audit hooks, monkeypatching in the check process)", baseline_off_cmd=BASE_CMD, source_commits=[], add_only=True),
    engines=[dict(name="vf", path="vf/", serves_properties=sorted(CHECKS), kind_free_text="Hypothesis-driven generators, corpus enumerations and fault injection with independent oracles (HarfBuzz, FreeType, own sfnt reader, exact-rational reference models); ./check <ID>")],
    checks=[CHECKS[k] for k in sorted(CHECKS)],
    notes="See DESIGN.md. Repairs of genuine defects are 'fix:' commits in /repo, listed in known_findings.json.",
    not_applicable=na,
)
json.dump(m, open(os.path.join(HERE, "MANIFEST.json"), "w"), indent=1)
print("MANIFEST.json: %d checks, %d not_applicable" % (len(CHECKS), len(na)))
