"""Subsetter drops a GDEF GlyphClassDef that lists none of the retained glyphs (GDEF.prune_post_subset sets it to None and
then removes the whole GDEF). A font without glyph classes is not the same as a font whose retained glyphs are all
unclassified: shapers (HarfBuzz, and others) synthesise classes when there are none, every non-mark glyph becomes a BASE
glyph, and lookups with LookupFlag IgnoreBaseGlyphs then skip everything. Tests/ttLib/tables/data/aots/gpos3_font3.otf
(GDEF classifies only g21; GPOS lookup 0 = cursive attachment with IgnoreBaseGlyphs), subset to U+0012 U+0013 with all
layout features kept: U+0012 U+0012 with feature 'test' shapes to g18(adv 200) g18(adv 1400, offset -100,+100) with the
original and to g18(1500) g18(1500) with the subset. Expected: same advances and offsets as the original."""


def reproduce():
    import io
    import os

    import uharfbuzz as hb
    from fontTools import subset

    path = os.path.join(os.environ.get("VERIF_REPO", "/repo"), "Tests", "ttLib", "tables", "data", "aots", "gpos3_font3.otf")
    with open(path, "rb") as f:
        original = f.read()

    opts = subset.Options(layout_features=["*"])
    font = subset.load_font(io.BytesIO(original), opts)
    had_classes = "GDEF" in font and font["GDEF"].table.GlyphClassDef is not None
    s = subset.Subsetter(opts)
    s.populate(unicodes=[0x12, 0x13])
    s.subset(font)
    out = io.BytesIO()
    subset.save_font(font, out, opts)

    def shape(data):
        face = hb.Face(data)
        hbfont = hb.Font(face)
        from fontTools.ttLib import TTFont

        order = TTFont(io.BytesIO(data)).getGlyphOrder()
        buf = hb.Buffer()
        buf.add_codepoints([0x12, 0x12])
        buf.guess_segment_properties()
        hb.shape(hbfont, buf, {"test": True})
        return [
            (order[i.codepoint], p.x_advance, p.y_advance, p.x_offset, p.y_offset)
            for i, p in zip(buf.glyph_infos, buf.glyph_positions)
        ]

    r0 = shape(original)
    r1 = shape(out.getvalue())
    if r0 != r1:
        has = "GDEF" in font and font["GDEF"].table.GlyphClassDef is not None
        return "U+0012 U+0012 with feature 'test': original %s, subset %s (GlyphClassDef present: original %s, subset %s)" % (r0, r1, had_classes, has)
    return None
