"""C06 — serialising layout tables never changes how text is shaped.

(a) corpus: every corpus font with GSUB/GPOS/GDEF (binary fonts: the file's own bytes are the first
    serialisation; TTX fonts and feature-file builds: the first configuration's bytes are), recompiled with
    the pure-Python packer / hb.repack (auto) / hb.repack (required), GPOS additionally after
    otlLib.optimize.compact(level); HarfBuzz must shape every probe identically.
(b) generated tables of overflow-forcing size (vf.gen_layout, vf.c06_util): HarfBuzz on the compiled bytes
    must give what the generator's spec says (vf.gen_layout.reference), under every configuration, after a
    second compile of the same (mutated) object and after decompile+recompile; or compile raises.
"""

import collections
import io
import random

from vf import c06_util as U
from vf import corpus
from vf import gen_layout as G
from vf.runner import Acc, CaseTimeout, HarnessError, subseed, time_limit

ID = "C06"
LEVEL = "exploration"
RULE = (
    "(a) every corpus font with GSUB/GPOS/GDEF: binary fonts (AOTS, real fonts; original file bytes = reference serialisation), "
    "complete TTX fonts and Tests/feaLib/data/*.fea built by feaLib onto a shell with the feaLib test glyph order (first "
    "configuration = reference serialisation); tables fully decompiled and recompiled with USE_HARFBUZZ_REPACKER in {False, None, "
    "True}, fonts with class-pair kerning additionally after otlLib.optimize.compact(level) (3 levels quick, 0-9 thorough), each "
    "compiled twice from the same object; HarfBuzz shapes glyph runs read off the font's own rules (input sequences of every "
    "subtable, concatenations), coverage-biased and random runs and cmap texts under default features, all features on (value 1 and 2, "
    "ltr and rtl, up to 3 script/language systems, a random feature subset, one non-default location for variable fonts): results "
    "(glyph, cluster, advances, offsets) must be identical to the reference serialisation. non-trivial = at least one probe fired a lookup. "
    "(b) generated GSUB/GPOS(+GDEF) from 16 families (pair format 1/2, class pairs for compaction, mark-base, ligature, multiple, "
    "alternate, single, hundreds of lookups, lookups built from shared templates and near-copies, 4 unsplittable shapes) at scale 1 "
    "(16-bit offsets overflow at LookupList, Lookup, subtable, Coverage, class-record level), at a random scale in 0.3-0.95 and at "
    "scales 0.01-0.08 (no overflow; calibrates the reference), x repacker {False, None, True} x compaction level (kern families): "
    "compile may raise; returned bytes must shape ~400 probe runs (rule hits, near misses, concatenations, random) exactly as "
    "vf.gen_layout.reference says and as every other configuration does; same for a second compile of the same object and "
    "(thorough, sampled in quick) for decompile+recompile of the written bytes. non-trivial = the compile went through >= 1 overflow "
    "resolution (extension promotion, subtable split) or compaction changed the subtable structure; distinct by (family, seed, scale, configuration)"
)
ASSUMPTIONS = [
    "HarfBuzz 12.1 (uharfbuzz 0.52) implements OpenType layout correctly and reads the written bytes itself; glyph runs are shaped through a nominal-glyph callback, script DFLT or the font's own script tags",
    "reference conventions of vf.gen_layout (ltr, horizontal, LookupFlag 0, one feature): GDEF mark advances zeroed after GPOS, attachment offsets relative to the pen position, a class-pair subtable that covers the "
    "first glyph ends the lookup, a second value format consumes the second glyph; calibrated at small scales in every run (label calibration:*)",
    "an exception out of compile() is an allowed outcome (clause 'error instead of wrong offsets') and is only counted; so is one out of compact(). Non-termination is counted as inconclusive: "
    "a compile whose split moves everything into the new subtable (the same overflow then recurs for ever), that asks for more than 48 overflow resolutions (tables here need < 20) or that runs longer than the time limit is stopped by the harness",
    "shared_gpos keeps mark glyphs out of pair lookups and orders pair lookups before mark attachment (the reference resolves attachment last)",
    "corpus fonts the unchanged library cannot decompile, or feature files it rejects for the shell font, are skipped and counted",
    "the overflow machinery is observed through call-through wrappers (vf.c06_util.Spy) that do not change arguments or results",
]
WALL_BUDGET = {"quick": 1200, "thorough": 4 * 3600}
MAXTASKS = 4

FAMILIES = U.FAMILIES
RPS = ("F", "N", "T")

# families whose scale-1 tables are expected to need the named resolution with the pure-Python packer
REQUIRED_EVENTS = [
    "promote:lookuplist",
    "promote:lookup-subtable",
    "split:PairPos1",
    "split:PairPos2",
    "split:MarkBasePos",
    "split:LigatureSubst",
    "split:AlternateSubst",
    "split:MultipleSubst",
]


def cfg_label(cfg):
    rp, level = cfg
    return "rp=%s" % rp + ("" if level is None else "+L%d" % level)


def cfg_class(cfg):
    rp, level = cfg
    return "rp=%s" % rp + ("" if level is None else "+compact")


# ---------------------------------------------------------------------------
# compiling under a configuration


class Outcome:
    def __init__(self):
        self.data = None
        self.status = None  # ok | raised:<Exc> | loop | timeout
        self.events = collections.Counter()
        self.packer = None
        self.exc = None


TIMES = collections.Counter()


class _timed:
    def __init__(self, name):
        self.name = name

    def __enter__(self):
        import time

        self.t0 = time.time()

    def __exit__(self, *a):
        import time

        TIMES[self.name] += time.time() - self.t0
        return False


def compile_table(font, tag, rp, limit):
    """font[tag].compile(font) under repacker mode rp, observed."""
    import time

    t0 = time.time()
    try:
        return _compile_table(font, tag, rp, limit)
    finally:
        TIMES["compile"] += time.time() - t0


def _compile_table(font, tag, rp, limit):
    out = Outcome()
    font.cfg[U.REPACKER_KEY] = U.RP[rp]
    spy = U.Spy()
    try:
        with time_limit(limit):
            with spy:
                out.data = font[tag].compile(font)
        out.status = "ok"
    except CaseTimeout:
        out.status = "timeout"
    except U.OverflowLoop as e:
        out.status = "loop"
        out.exc = e
    except (KeyboardInterrupt, MemoryError, HarnessError):
        raise
    except Exception as e:
        out.status = "raised:%s" % type(e).__name__
        out.exc = e
    out.events = spy.events
    out.packer = spy.packer
    return out


# ---------------------------------------------------------------------------
# (b) generated tables


def shape_generated(data, spec, runs):
    from vf.hbref import HBFont

    hb = HBFont(data)
    feats = {spec["tag"]: spec["fvalue"]}
    return [hb.shape_gids(r, features=feats, script="DFLT", direction="ltr") for r in runs]


def first_ref_diff(runs, got, ref):
    for k, (r, g, e) in enumerate(zip(runs, got, ref)):
        gg = [(x[0], x[2], x[4], x[5]) for x in g]
        if gg != e:
            kind = "glyphs" if [x[0] for x in gg] != [x[0] for x in e] else "positions"
            return k, kind, "run %r: HarfBuzz (gid, xadv, xoff, yoff) %r, spec says %r" % (r, gg[:8], e[:8])
    return None


def first_cross_diff(runs, a, b):
    for k, (r, x, y) in enumerate(zip(runs, a, b)):
        if x != y:
            kind = "glyphs" if [t[0] for t in x] != [t[0] for t in y] else "positions"
            return k, kind, "run %r: %r vs %r" % (r, x[:8], y[:8])
    return None


def gen_configs(family, tier, rnd, scale):
    """list of (rp, level)"""
    cfgs = [(rp, None) for rp in RPS]
    if family in U.KERN_FAMILIES:
        heavy = family == "kern_classes" and scale >= 0.5  # clustering is cubic in the number of class rows
        if tier == "thorough":
            levels = list(range(10)) if not heavy else [0, rnd.choice([1, 2, 3]), rnd.choice([5, 9])]
            for lv in levels:
                for rp in RPS if scale < 0.5 or lv in (0, 5, 9) else (rnd.choice(RPS),):
                    cfgs.append((rp, lv))
        elif scale < 0.2:
            for lv in range(10):
                cfgs.append((RPS[(lv + rnd.randrange(3)) % 3], lv))
        else:
            levels = [0, rnd.choice([1, 2, 3, 4]), rnd.choice([5, 6, 7, 8, 9])] if not heavy else []  # > 1 min per level: thorough only
            if family == "kern_pairs":
                levels = [rnd.choice(range(10))]  # compaction leaves format 1 alone
            for lv in levels:
                cfgs.append((rnd.choice(RPS), lv))
    return cfgs


def run_generated(acc, family, seed, scale, configs, pseed, tier, third=False, only_run=None):
    from fontTools.ttLib import TTFont

    thorough = tier == "thorough"
    limit = 900 if thorough else 240
    with _timed("spec"):
        spec = U.make_spec(family, seed, scale)
    tag = spec["table"]
    with _timed("shell"):
        shell = G.shell_bytes(spec["n"])
    with _timed("reference"):
        ix = G.index(spec)
        runs = G.probes(spec, pseed)
        dense, nkept, nrules = U.dense_probes(spec, subseed(pseed, "dense"), budget=400000 if thorough else 120000)
        runs = runs + dense
        if only_run is not None:
            runs = [list(only_run)]
        ref = [G.reference(ix, r) for r in runs]
        nominal = [G.reference(ix, r, fvalue=0) for r in runs]
    fired = sum(1 for a, b in zip(ref, nominal) if a != b)
    base_struct = G.spec_structure(spec)
    sclass = "scale1" if scale >= 1 else "mid" if scale >= 0.2 else "small"
    acc.label("dense-probes:%s:%s" % (family, "every-rule" if nkept == nrules else "sampled"))
    acc.extra["probe_runs"] = acc.extra.get("probe_runs", 0) + len(runs)
    acc.extra["probe_runs_fired"] = acc.extra.get("probe_runs_fired", 0) + fired
    base = dict(kind="gen", family=family, seed=seed, scale=scale, pseed=pseed)
    first_ok = None  # (cfg, shaped)
    for cfg in configs:
        cfg = tuple(cfg)
        rp, level = cfg
        lab = cfg_label(cfg)
        cls = cfg_class(cfg)
        case = dict(base, config=list(cfg))
        labels = ["gen:%s:%s" % (family, sclass)]
        with _timed("build"):
            font = TTFont(io.BytesIO(shell))
            G.build_layout(spec, font)
            gdef = font["GDEF"].compile(font) if "GDEF" in font else None
        compact_changed = False
        struct_pre = base_struct
        if level is not None:
            from fontTools.otlLib.optimize import compact

            try:
                with time_limit(limit), _timed("compact"):
                    compact(font, level)
            except CaseTimeout:
                acc.inconclusive += 1
                acc.case((family, seed, scale, cfg), labels=labels + ["compact-timeout:%s:L%d" % (family, level)])
                continue
            except (KeyboardInterrupt, MemoryError, HarnessError):
                raise
            except Exception as e:
                acc.case((family, seed, scale, cfg), labels=labels + ["raised:compact:%s:L%d:%s" % (family, level, type(e).__name__)])
                continue
            struct_pre = G.structure(font[tag].table)
            compact_changed = struct_pre != base_struct
            labels.append("compact:%s:L%d:%s" % (family, level, "structure-changed" if compact_changed else "structure-unchanged"))
            if compact_changed:
                labels.append("compact-changed-structure")

        def assemble(data):
            return U.swap_tables(shell, {tag: data, "GDEF": gdef} if gdef is not None else {tag: data})

        def check(data, clause, where_extra=""):
            """shape and compare with the reference and with the first configuration that returned bytes"""
            nonlocal first_ok
            with _timed("shape"):
                shaped = shape_generated(assemble(data), spec, runs)
            where = "%s:%s%s" % (family, cls, where_extra)
            d = first_ref_diff(runs, shaped, ref)
            if d:
                k, kind, msg = d
                acc.fail(clause, kind, "%s %s scale %s seed %s: %s" % (family, lab, scale, seed, msg), dict(case, run=runs[k], clause=clause), where=where)
            if first_ok is None:
                first_ok = (cfg, shaped)
            elif first_ok[1] is not shaped:
                d = first_cross_diff(runs, first_ok[1], shaped)
                if d:
                    k, kind, msg = d
                    acc.fail("cross-config", kind, "%s scale %s seed %s: %s vs %s: %s" % (family, scale, seed, cfg_label(first_ok[0]), lab, msg), dict(case, run=runs[k], clause="cross-config", other=list(first_ok[0])), where=where)
            return shaped

        o1 = compile_table(font, tag, rp, limit)
        stat = o1.status.split(":")[0]
        labels.append("outcome:%s:%s:%s:%s" % (family, sclass, cls, o1.status))
        pref = "res-ok" if o1.status == "ok" else "res-noresult"
        for ev, n in o1.events.items():
            if ev.startswith(("promote", "split", "dontshare")):
                acc.label("%s:%s:%s:%s" % (pref, family, cls, ev), n)
                if o1.status == "ok":
                    acc.label("any-ok:" + ev, n)
        if o1.status == "timeout" or o1.status == "loop":
            acc.inconclusive += 1
            acc.case((family, seed, scale, cfg), labels=labels + ["inconclusive:%s:%s:%s" % (o1.status, family, cls)])
            continue
        if o1.status != "ok":
            labels.append("raised:%s:%s:%s" % (family, cls, o1.status.split(":", 1)[1]))
            if family in U.UNSPLITTABLE:
                labels.append("raised-unsplittable")
            acc.case((family, seed, scale, cfg), nontrivial=False, labels=labels)
            continue
        labels.append("packer:%s:%s:%s" % (family, cls, o1.packer))
        if o1.packer == "hb":
            labels.append("hb-repack-success" + (":scale1" if scale >= 1 else ""))
        struct1 = G.structure(font[tag].table)
        restructured = any(ev.startswith(("promote:", "split:")) for ev in o1.events)
        resolved = restructured or o1.events.get("dontshare", 0) > 0
        if restructured != (struct1 != struct_pre):
            labels.append("note:structure-change-vs-events-disagree")
        if family in U.UNSPLITTABLE and scale >= 1:
            labels.append("unsplittable-packed:%s:%s" % (family, cls))
        check(o1.data, "generated-vs-reference")
        # second compile of the same, possibly mutated, object
        o2 = compile_table(font, tag, rp, limit)
        if o2.status == "ok":
            if o2.data == o1.data:
                labels.append("second-compile:identical-bytes")
            else:
                labels.append("second-compile:different-bytes")
                check(o2.data, "second-compile", ":2nd")
        elif o2.status in ("timeout", "loop"):
            acc.inconclusive += 1
            labels.append("inconclusive:second-compile:%s" % o2.status)
        else:
            labels.append("raised:second-compile:%s:%s:%s" % (family, cls, o2.status.split(":", 1)[1]))
        # decompile the written bytes and compile again
        if third:
            f3 = TTFont(io.BytesIO(assemble(o1.data)))
            try:
                f3[tag].ensureDecompiled()
                ok3 = True
            except (KeyboardInterrupt, MemoryError, HarnessError):
                raise
            except Exception as e:
                ok3 = False
                acc.fail_exc("recompile-decompiled", e, dict(case, clause="recompile-decompiled"), extra=" (decompiling the bytes just written for %s %s)" % (family, lab))
            if ok3:
                o3 = compile_table(f3, tag, rp, limit)
                if o3.status == "ok":
                    labels.append("third-compile:" + ("identical-bytes" if o3.data == o1.data else "different-bytes"))
                    if o3.data != o1.data:
                        check(o3.data, "recompile-decompiled", ":3rd")
                elif o3.status in ("timeout", "loop"):
                    acc.inconclusive += 1
                    labels.append("inconclusive:third-compile:%s" % o3.status)
                else:
                    labels.append("raised:third-compile:%s:%s:%s" % (family, cls, o3.status.split(":", 1)[1]))
        if scale < 0.2:
            labels.append("calibration:%s" % family)
        nontrivial = resolved or compact_changed
        if nontrivial:
            labels.append("nontrivial:%s:%s" % (family, cls))
        sample = None
        if resolved:
            sample = dict(family=family, seed=seed, scale=scale, config=lab, structure_before=base_struct[:4], structure_after=struct1[:4], events=dict(o1.events), probes=len(runs), probes_fired=fired)
        acc.case((family, seed, scale, cfg), nontrivial=nontrivial, labels=labels, sample=sample)


# ---------------------------------------------------------------------------
# (a) corpus


def _has_layout(e):
    return bool(set(e["tables"]) & set(U.LAYOUT_TAGS))


def corpus_items():
    items = [("font", e["id"]) for e in corpus.fonts(_has_layout)]
    items += [("fea", rel) for rel in U.fea_files()]
    return items


def _plain_sfnt(fid):
    from fontTools.ttLib import TTFont

    kind, rest = fid.split(":", 1)
    data = corpus.file_bytes(fid)
    if data[:4] in (b"wOFF", b"wOF2", b"ttcf"):
        num = int(rest.split("#")[1]) if "#" in rest else -1
        f = TTFont(io.BytesIO(data), fontNumber=num)
        f.flavor = None
        b = io.BytesIO()
        f.save(b)
        data = b.getvalue()
    return data


class Source:
    """A corpus item: how to get fresh in-memory tables and (for binary fonts) the original bytes."""

    def __init__(self, kind, ident):
        self.kind, self.ident = kind, ident
        self.original = None
        self.shell = None
        if kind == "fea":
            self.sub = "fea"
            self.shell = U.fea_shell_bytes()
        elif ident.startswith("bin:"):
            self.sub = "bin"
            self.original = _plain_sfnt(ident)
            self.shell = self.original
        else:
            self.sub = "ttx"

    def fresh(self):
        from fontTools.ttLib import TTFont

        if self.sub == "fea":
            return U.build_fea_font(self.ident)
        if self.sub == "bin":
            return TTFont(io.BytesIO(self.original))
        f = corpus.load_font(self.ident)
        if self.shell is None:
            f.cfg[U.REPACKER_KEY] = False
            b = io.BytesIO()
            f.save(b)
            self.shell = b.getvalue()
            f = corpus.load_font(self.ident)
        return f


def _settings(hb0, rnd):
    """[(features or None, script, language, direction, location)]"""
    tags = set()
    langsys = []
    for table in ("GSUB", "GPOS"):
        try:
            scripts = hb0.layout_scripts(table)
        except Exception:
            scripts = []
        for si, s in enumerate(scripts):
            try:
                langs = hb0.layout_languages(table, si)
            except Exception:
                langs = []
            for li in [0xFFFF] + list(range(len(langs))):
                try:
                    tags.update(hb0.layout_features(table, si, li))
                except Exception:
                    pass
                ls = (s, None if li == 0xFFFF else langs[li])
                if ls not in langsys:
                    langsys.append(ls)
    tags = sorted(tags)
    out = [(None, None, None, "ltr", None)]
    if tags:
        on = {t: 1 for t in tags}
        out.append((on, None, None, "ltr", None))
        out.append(({t: 2 for t in tags}, None, None, "ltr", None))
        out.append((on, None, None, "rtl", None))
        for s, l in rnd.sample(langsys, min(len(langsys), 3)):
            out.append((on, s, l, "ltr", None))
        if len(tags) > 1:
            sub = {t: (1 if rnd.random() < 0.5 else 0) for t in tags}
            out.append((sub, None, None, "ltr", None))
    axes = hb0.axes()
    if axes:
        loc = {}
        for tag, lo, df, hi in axes:
            loc[tag] = rnd.choice([lo, hi, lo + (hi - lo) * rnd.random()])
        out.append(({t: 1 for t in tags} or None, None, None, "ltr", loc))
    return out


def _shape_all(hb, settings, gid_runs, texts):
    res = []
    for feats, script, lang, direction, loc in settings:
        hb.set_location(loc)
        for r in gid_runs:
            res.append(hb.shape_gids(r, features=feats, script=script, language=lang, direction=direction))
        for t in texts:
            res.append(hb.shape_text(t, features=feats, script=script, language=lang, direction=direction if direction == "rtl" else None))
    hb.set_location(None)
    return res


def _has_class_pairs(font):
    if "GPOS" not in font:
        return False
    ll = font["GPOS"].table.LookupList
    for lk in ll.Lookup if ll else []:
        for st in lk.SubTable:
            t = lk.LookupType
            if t == 9:
                t, st = st.ExtensionLookupType, st.ExtSubTable
            if t == 2 and st.Format == 2:
                return True
    return False


def corpus_configs(tier, rnd, class_pairs):
    cfgs = [(rp, None) for rp in RPS]
    if class_pairs:
        if tier == "thorough":
            cfgs += [(rp, lv) for lv in range(10) for rp in RPS]
        else:
            for lv in sorted({0, rnd.choice([1, 2, 3, 4]), rnd.choice([5, 6, 7, 8]), 9}):
                cfgs.append((rnd.choice(RPS), lv))
    return cfgs


def run_corpus_item(acc, kind, ident, seed, tier, only=None):
    from fontTools.ttLib import TTLibError
    from vf import shapecmp
    from vf.hbref import HBFont

    thorough = tier == "thorough"
    limit = 600
    rnd = random.Random(subseed(seed, "corpus", kind, ident))
    base = dict(kind="corpus", item=[kind, ident], seed=seed, tier=tier)
    try:
        src = Source(kind, ident)
        with time_limit(limit):
            pf = src.fresh()
            tags = [t for t in U.LAYOUT_TAGS if t in pf]
            for t in tags:
                pf[t].ensureDecompiled()
    except CaseTimeout:
        acc.inconclusive += 1
        return
    except (KeyboardInterrupt, MemoryError, HarnessError):
        raise
    except Exception as e:
        acc.exclude("corpus-%s-not-loadable-by-unchanged-library:%s" % ("fea-rejected-for-shell-font" if kind == "fea" else "font", type(e).__name__))
        return
    if not tags:
        acc.exclude("corpus-item-without-layout-tables")
        return
    order = pf.getGlyphOrder()
    gid = {n: i for i, n in enumerate(order)}
    class_pairs = _has_class_pairs(pf)
    cfgs = corpus_configs(tier, rnd, class_pairs)
    # probes (inputs only)
    nrule, nbias, nrand, ntext = (120, 40, 20, 16) if thorough else (70, 20, 10, 8)
    runs = U.rule_probes(pf, rnd, per_subtable=3 if len(order) < 300 else 2, cap=nrule)
    runs += shapecmp.layout_probe_sequences(pf, rnd, nbias, maxlen=6)
    runs += [[rnd.choice(order) for _ in range(rnd.randint(1, 6))] for _ in range(nrand)]
    gid_runs = [[gid[g] for g in r] for r in runs if all(g in gid for g in r)]
    if only is not None:
        cfgs = [tuple(only["config"])]
        if src.original is None and cfgs[0] != ("F", None):
            cfgs.insert(0, ("F", None))
    ref_res = None
    settings = None
    texts = None
    fired_any = False
    nshapes = 0
    for cfg in cfgs:
        cfg = tuple(cfg)
        rp, level = cfg
        lab, cls = cfg_label(cfg), cfg_class(cfg)
        case = dict(base, config=list(cfg))
        labels = ["corpus:%s" % src.sub, "corpus:%s:%s" % (src.sub, cls)]
        try:
            with time_limit(limit):
                f = src.fresh()
                for t in tags:
                    f[t].ensureDecompiled()
        except CaseTimeout:
            acc.inconclusive += 1
            continue
        if ref_res is None:
            # reference serialisation: the original file, else (TTX, fea) this first configuration
            if src.original is not None:
                hb0 = HBFont(src.original)
            else:
                hb0 = None
        if level is not None:
            from fontTools.otlLib.optimize import compact

            try:
                with time_limit(limit):
                    compact(f, level)
                labels.append("corpus:compact:L%d" % level)
            except CaseTimeout:
                acc.inconclusive += 1
                continue
            except (KeyboardInterrupt, MemoryError, HarnessError):
                raise
            except Exception as e:
                acc.case(("corpus", ident, cfg), labels=labels + ["raised:corpus:compact:L%d:%s" % (level, type(e).__name__)])
                continue
        new = {}
        bad = None
        for t in tags:
            o = compile_table(f, t, rp, limit)
            if o.status != "ok":
                bad = (t, o)
                break
            first = o.data
            o2 = compile_table(f, t, rp, limit)
            if o2.status != "ok":
                bad = (t, o2)
                break
            new[t] = (first, o2.data)
            for ev, n in o.events.items():
                if ev.startswith(("promote", "split", "dontshare")):
                    acc.label("corpus-res:%s:%s" % (cls, ev), n)
            if t != "GDEF":
                labels.append("corpus:packer:%s" % o.packer)
        if bad:
            t, o = bad
            if o.status in ("timeout", "loop"):
                acc.inconclusive += 1
                acc.case(("corpus", ident, cfg), labels=labels + ["inconclusive:corpus:%s" % o.status])
            else:
                acc.case(("corpus", ident, cfg), labels=labels + ["raised:corpus:%s:%s:%s" % (cls, t, o.status.split(":", 1)[1])])
            continue
        shell = src.shell
        data1 = U.swap_tables(shell, {t: v[0] for t, v in new.items()})
        if ref_res is None:
            if hb0 is None:
                hb0 = HBFont(data1)
                labels.append("corpus:reference-is-first-configuration")
            settings = _settings(hb0, rnd)
            texts = shapecmp.random_texts(hb0.unicodes(), rnd, ntext, maxlen=6)
            if only is not None and only.get("probe") is not None:
                pass
            ref_res = _shape_all(hb0, settings, gid_runs, texts)
            # did anything fire? compare with the result of shaping with every feature off where possible: cheap proxy:
            for res, inp in zip(ref_res, (gid_runs + [None] * len(texts)) * len(settings)):
                if inp is None:
                    if any(x[4] or x[5] for x in res):
                        fired_any = True
                    continue
                if [x[0] for x in res] != inp or any(x[4] or x[5] or x[3] or x[2] != hb0.h_advance(x[0]) for x in res):
                    fired_any = True
                    if fired_any:
                        break
        nprobe = len(gid_runs) + len(texts)

        def compare(data, clause):
            nonlocal nshapes
            res = _shape_all(HBFont(data), settings, gid_runs, texts)
            nshapes += len(res)
            for k, (a, b) in enumerate(zip(ref_res, res)):
                if a != b:
                    si, pi = divmod(k, nprobe)
                    feats, script, lang, direction, loc = settings[si]
                    probe = runs_names(pi)
                    kindd = "glyphs" if [x[0] for x in a] != [x[0] for x in b] else "positions"
                    ga = [(order[x[0]] if x[0] < len(order) else x[0],) + tuple(x[1:]) for x in a][:8]
                    gb = [(order[x[0]] if x[0] < len(order) else x[0],) + tuple(x[1:]) for x in b][:8]
                    acc.fail(
                        clause,
                        kindd,
                        "%s %s: probe %r features %s script %s/%s %s loc %s: reference serialisation %r, recompiled %r" % (ident, lab, probe, _short_feats(feats), script, lang, direction, loc, ga, gb),
                        dict(case, clause=clause, setting=si, probe=pi),
                        where="%s:%s" % (src.sub, cls),
                    )
                    return False
            return True

        def runs_names(pi):
            if pi < len(gid_runs):
                return [order[g] for g in gid_runs[pi]]
            return texts[pi - len(gid_runs)]

        if not (src.original is None and cfg == cfgs[0] and hb0.data is data1):
            compare(data1, "corpus-vs-reference-serialisation")
        if any(v[0] != v[1] for v in new.values()):
            labels.append("corpus:second-compile:different-bytes")
            compare(U.swap_tables(shell, {t: v[1] for t, v in new.items()}), "corpus-second-compile")
        else:
            labels.append("corpus:second-compile:identical-bytes")
        if fired_any:
            labels.append("corpus:fired")
        acc.case(("corpus", ident, cfg), nontrivial=fired_any, labels=labels)
    acc.extra["corpus_shapes"] = acc.extra.get("corpus_shapes", 0) + nshapes


def _short_feats(feats):
    if feats is None:
        return "default"
    vals = sorted(set(feats.values()))
    if len(vals) == 1:
        return "all=%d" % vals[0]
    return "{%s}" % ",".join("%s=%d" % kv for kv in sorted(feats.items()))


# ---------------------------------------------------------------------------
# framework entry points


def jobs(tier, seed):
    thorough = tier == "thorough"
    J = []
    rnd = random.Random(subseed(seed, "c06-jobs"))
    # generated, overflow-forcing
    n1 = 18 if thorough else 2
    for fam in FAMILIES:
        for i in range(n1):
            J.append(dict(kind="gen", name="gen-%s-1.0-%d" % (fam, i), family=fam, seed=subseed(seed, "g1", fam, i), scale=1.0, pseed=subseed(seed, "p1", fam, i), third=thorough or fam in ("kern_pairs", "markbase", "ligature", "manylookups_gsub", "shared_gpos")))
    # second scale-1 table for the families whose resolution depends on the draw (duplicates, Extension start)
    extra = ["multiple", "alternate", "ligature", "kern_pairs", "markbase", "shared_gsub"]
    if not thorough:
        for fam in extra:
            J.append(dict(kind="gen", name="gen-%s-1.0-b" % fam, family=fam, seed=subseed(seed, "g1b", fam), scale=1.0, pseed=subseed(seed, "p1b", fam), third=False, rps=[rnd.choice(RPS), "F"]))
    # mid scale: around the overflow boundary
    nm = 6 if thorough else 2
    for fam in FAMILIES:
        for i in range(nm):
            sc = round(0.3 + 0.65 * rnd.random(), 3)
            J.append(dict(kind="gen", name="gen-%s-mid-%d" % (fam, i), family=fam, seed=subseed(seed, "gm", fam, i), scale=sc, pseed=subseed(seed, "pm", fam, i), third=thorough))
    # small: calibration of the reference, every compaction level
    ns = 40 if thorough else 8
    for fam in FAMILIES:
        specs = []
        for i in range(ns):
            specs.append([subseed(seed, "gs", fam, i), round(0.01 + 0.07 * rnd.random(), 4), subseed(seed, "ps", fam, i)])
        J.append(dict(kind="gen-small", name="gen-%s-small" % fam, family=fam, specs=specs))
    # corpus
    items = corpus_items()
    big = [it for it in items if "LinLibertine" in it[1] or "CFFFont" in it[1] or "TestVGID" in it[1]]
    rest = [it for it in items if it not in big]
    for i, it in enumerate(big):
        J.append(dict(kind="corpus", name="corpus-big-%d" % i, items=[list(it)], seed=seed))
    shards = 28
    for s in range(shards):
        part = rest[s::shards]
        if part:
            J.append(dict(kind="corpus", name="corpus-%02d" % s, items=[list(x) for x in part], seed=seed))
    # long jobs first
    J.sort(key=lambda j: (0 if j["kind"] == "gen" and j["scale"] >= 1 else 1 if j["name"].startswith("corpus-big") else 2))
    for j in J:
        j["tier"] = tier
    return J


def run_job(job):
    acc = Acc()
    tier = job["tier"]
    TIMES.clear()
    try:
        return _run_job(job, acc, tier)
    finally:
        acc.extra["cpu_seconds_by_phase"] = {k: round(v, 1) for k, v in TIMES.items()}


def _run_job(job, acc, tier):
    if job["kind"] == "gen":
        rnd = random.Random(subseed(job["seed"], "cfg"))
        cfgs = gen_configs(job["family"], tier, rnd, job["scale"])
        if job.get("rps"):
            cfgs = [c for c in cfgs if c[0] in job["rps"]]
        run_generated(acc, job["family"], job["seed"], job["scale"], cfgs, job["pseed"], tier, third=job.get("third", False))
    elif job["kind"] == "gen-small":
        for sseed, scale, pseed in job["specs"]:
            rnd = random.Random(subseed(sseed, "cfg"))
            cfgs = gen_configs(job["family"], tier, rnd, scale)
            run_generated(acc, job["family"], sseed, scale, cfgs, pseed, tier, third=True)
    elif job["kind"] == "corpus":
        for kind, ident in job["items"]:
            run_corpus_item(acc, kind, ident, job["seed"], tier)
    else:
        raise HarnessError("unknown job kind %r" % job["kind"])
    return acc


def replay(case):
    acc = Acc()
    if case["kind"] == "gen":
        cfgs = [tuple(case["config"])]
        if case.get("other"):
            cfgs.insert(0, tuple(case["other"]))
        run_generated(acc, case["family"], case["seed"], case["scale"], cfgs, case["pseed"], "quick", third=case.get("clause") == "recompile-decompiled", only_run=case.get("run"))
    elif case["kind"] == "corpus":
        kind, ident = case["item"]
        run_corpus_item(acc, kind, ident, case["seed"], case.get("tier", "quick"), only=case)
    return acc.failures


def finish(total, tier, seed):
    L = total.labels
    missing = []
    for ev in REQUIRED_EVENTS:
        if L.get("any-ok:" + ev, 0) == 0:
            missing.append("overflow resolution never seen in a compile that returned bytes: " + ev)
    for lab in ("hb-repack-success:scale1", "raised-unsplittable", "compact-changed-structure", "corpus:fired", "corpus:compact:L9"):
        if L.get(lab, 0) == 0:
            missing.append("label never hit: " + lab)
    for fam in FAMILIES:
        if L.get("calibration:%s" % fam, 0) == 0:
            missing.append("no calibration case for family " + fam)
    for sub in ("bin", "ttx", "fea"):
        n = L.get("corpus:%s" % sub, 0)
        raised = sum(v for k, v in L.items() if k.startswith("raised:corpus:") and not k.startswith("raised:corpus:compact"))
        if n == 0:
            missing.append("no corpus case of kind " + sub)
    ncorpus = sum(L.get("corpus:%s" % s, 0) for s in ("bin", "ttx", "fea"))
    nraised = sum(v for k, v in L.items() if k.startswith("raised:corpus:"))
    if ncorpus and nraised > 0.1 * ncorpus:
        missing.append("%d of %d corpus compiles raised: nothing was compared for them" % (nraised, ncorpus))
    if missing:
        raise HarnessError("vacuity guard: " + "; ".join(missing))
