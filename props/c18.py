"""C18 — merging fonts preserves each input's characters."""

import io
import os
import random

from vf import corpus, geom, shapecmp
from vf.runner import Acc, CaseTimeout, fingerprint, scratch_dir, subseed, time_limit

ID = "C18"
LEVEL = "exploration"
RULE = (
    "ordered lists of 2-4 static fonts with equal units-per-em and the same outline flavour: (a) parts derived from one corpus "
    "font by seeded disjoint or overlapping partitions of its character set (each part produced with the subsetter, layout kept), "
    "(b) seeded tuples of different corpus fonts with equal upem, (c) FontBuilder-generated TrueType/CFF fonts with generated "
    "outlines, overlapping and disjoint cmaps, identical and differing duplicate glyphs, with/without kerning and ligatures "
    "compiled from generated feature text. Merger().merge(paths) -> save -> HarfBuzz: every character of the union has a nominal "
    "glyph whose outline and advance equal those in the FIRST input mapping it; glyph names unique; for pairwise disjoint "
    "character sets, seeded texts over one input's characters shape to the same sequence of (outline, advance, offsets) in the "
    "merged font as in that input alone. non-trivial = some glyph was renamed because of a name clash, or a code point is mapped "
    "by two inputs to differing glyphs, or >= 2 inputs carry layout tables; distinct by input tuple"
)
ASSUMPTIONS = [
    "documented restrictions respected by construction: equal units per em, same outline flavour, static fonts, duplicate-glyph disambiguation only when every input has GSUB",
    "texts are shaped with default features and explicit script 'latn'/'DFLT' chosen from the input; glyphs are identified by outline+advance, never by name",
    "U+25CC and default-ignorable characters are skipped in the duplicate-mapping clause (the merger documents special handling)",
]


def _sfnt(fid):
    from fontTools.ttLib import TTFont

    kind, rest = fid.split(":", 1)
    if kind == "bin":
        data = corpus.file_bytes(fid)
        num = int(rest.split("#")[1]) if "#" in rest else -1
        if data[:4] in (b"wOFF", b"wOF2", b"ttcf"):
            f = TTFont(io.BytesIO(data), fontNumber=num)
            f.flavor = None
            b = io.BytesIO()
            f.save(b)
            data = b.getvalue()
        return data
    return corpus.sfnt_bytes(fid)


def _eligible(e):
    t = set(e["tables"])
    return (
        not e["variable"]
        and {"head", "hhea", "hmtx", "maxp", "cmap", "name", "OS/2", "post"}.issubset(t)
        and bool(t & {"glyf", "CFF "})
        and "CFF2" not in t
        and e["numGlyphs"] >= 6
        and not (t & {"CBDT", "sbix", "SVG ", "COLR", "MATH", "VARC", "Silf", "EBDT"})
    )


def _subset(data, unicodes):
    from fontTools import subset
    from fontTools.ttLib import TTFont

    f = TTFont(io.BytesIO(data))
    o = subset.Options()
    o.layout_features = ["*"]
    o.notdef_outline = True
    o.glyph_names = True
    o.name_IDs = ["*"]
    o.legacy_cmap = False
    o.symbol_cmap = False
    o.prune_unicode_ranges = False
    s = subset.Subsetter(o)
    s.populate(unicodes=unicodes)
    s.subset(f)
    b = io.BytesIO()
    f.save(b)
    return b.getvalue()


def _gen_font(spec):
    """spec: dict(cff=bool, glyphs=[(name, cp|None, advance, [rect...])], kern=[(a,b,v)], liga=[(a,b,lig)])"""
    from fontTools.fontBuilder import FontBuilder
    from fontTools.pens.t2CharStringPen import T2CharStringPen
    from fontTools.pens.ttGlyphPen import TTGlyphPen

    names = [".notdef"] + [g[0] for g in spec["glyphs"]]
    fb = FontBuilder(1000, isTTF=not spec["cff"])
    fb.setupGlyphOrder(names)
    fb.setupCharacterMap({g[1]: g[0] for g in spec["glyphs"] if g[1] is not None})
    adv = {".notdef": 500}
    shapes = {".notdef": []}
    for name, cp, a, rects in spec["glyphs"]:
        adv[name] = a
        shapes[name] = rects

    def draw(pen, rects):
        for x0, y0, x1, y1 in rects:
            pen.moveTo((x0, y0))
            pen.lineTo((x0, y1))
            pen.lineTo((x1, y1))
            pen.lineTo((x1, y0))
            pen.closePath()

    if spec["cff"]:
        cs = {}
        for n in names:
            p = T2CharStringPen(adv[n], None)
            draw(p, shapes[n])
            cs[n] = p.getCharString()
        fb.setupCFF("Gen-%s" % spec["tag"], {"FullName": "Gen %s" % spec["tag"]}, cs, {})
        lsb = {n: 0 for n in names}
    else:
        gl = {}
        for n in names:
            p = TTGlyphPen(None)
            draw(p, shapes[n])
            gl[n] = p.glyph()
        fb.setupGlyf(gl)
        lsb = {n: (min(r[0] for r in shapes[n]) if shapes[n] else 0) for n in names}
    fb.setupHorizontalMetrics({n: (adv[n], lsb[n]) for n in names})
    fb.setupHorizontalHeader(ascent=800, descent=-200)
    fb.setupNameTable({"familyName": "Gen" + spec["tag"], "styleName": "Regular"})
    fb.setupOS2()
    fb.setupPost()
    fea = []
    if spec.get("kern"):
        fea.append("feature kern {\n" + "\n".join("  pos %s %s %d;" % k for k in spec["kern"]) + "\n} kern;")
    if spec.get("liga"):
        fea.append("feature liga {\n" + "\n".join("  sub %s %s by %s;" % l for l in spec["liga"]) + "\n} liga;")
    if fea:
        fb.addOpenTypeFeatures("languagesystem DFLT dflt;\nlanguagesystem latn dflt;\n" + "\n".join(fea))
    b = io.BytesIO()
    fb.font.save(b)
    return b.getvalue()


def _gen_specs(rnd, n):
    """n generated font specs sharing a code-point universe so that overlaps can occur"""
    cff = rnd.random() < 0.5
    cps = list(range(0x61, 0x7B)) + list(range(0x410, 0x420))
    specs = []
    disjoint = rnd.random() < 0.5
    pool = cps[:]
    rnd.shuffle(pool)
    for i in range(n):
        k = rnd.randrange(3, 9)
        if disjoint:
            mine, pool = pool[:k], pool[k:]
        else:
            mine = rnd.sample(cps, k)
        glyphs = []
        for cp in mine:
            # same glyph NAME across fonts on purpose (name clash); shape identical with probability 1/2
            name = "u%04X" % cp if rnd.random() < 0.8 else "g%d_%d" % (i, cp)
            same = rnd.random() < 0.5
            r = random.Random(cp if same else cp * 31 + i)
            w = r.randrange(2, 10) * 50
            rects = [[r.randrange(0, 3) * 50, 0, w, r.randrange(2, 14) * 50]]
            if r.random() < 0.4:
                rects.append([w + 50, 100, w + 150, 300])
            glyphs.append([name, cp, w + r.randrange(1, 4) * 50, rects])
        # an unencoded ligature glyph
        names = [g[0] for g in glyphs]
        kern, liga = [], []
        if rnd.random() < 0.7 and len(names) >= 2:
            for _ in range(rnd.randrange(1, 4)):
                a, b = rnd.sample(names, 2)
                kern.append((a, b, rnd.randrange(-8, 8) * 10 or -30))
            kern = list({(a, b): (a, b, v) for a, b, v in kern}.values())
        if (rnd.random() < 0.6 or not disjoint) and len(names) >= 2:
            a, b = rnd.sample(names, 2)
            lig = "%s_%s" % (a, b)
            glyphs.append([lig, None, 700, [[0, 0, 600, 650], [100, 100, 200, 200]]])
            liga.append((a, b, lig))
        specs.append(dict(cff=cff, tag="F%d" % i, glyphs=glyphs, kern=kern, liga=liga))
    return specs, disjoint


def build_inputs(case):
    """-> list of bytes, flags"""
    rnd = random.Random(case["seed"])
    kind = case["kind"]
    if kind == "partition":
        data = _sfnt(case["fid"])
        from vf.hbref import HBFont

        chars = [c for c in HBFont(data).unicodes() if c not in (0x25CC,)]
        rnd.shuffle(chars)
        chars = chars[: rnd.randrange(6, 60)]
        n = case["n"]
        parts = [[] for _ in range(n)]
        for c in chars:
            parts[rnd.randrange(n)].append(c)
        if case["overlap"]:
            for p in parts:
                p.extend(rnd.sample(chars, min(len(chars), rnd.randrange(1, 4))))
        parts = [sorted(set(p)) for p in parts if p]
        if len(parts) < 2:
            return None, None
        return [_subset(data, p) for p in parts], dict(disjoint=not case["overlap"])
    if kind == "corpus":
        return [_sfnt(f) for f in case["fids"]], dict(disjoint=False)
    specs, disjoint = _gen_specs(rnd, case["n"])
    return [_gen_font(s) for s in specs], dict(disjoint=disjoint)


def _glyph_key(hbf, gid):
    c = geom.canon(hbf.draw(gid), tol=0.01)
    c = [x for x in c if x["segs"]]
    return c


def _same_glyph(hba, ga, hbb, gb):
    return shapecmp.diff_glyph(hba, ga, hbb, gb, tol=1e-6)


def run_case(case, acc):
    from fontTools.merge import Merger
    from fontTools.ttLib import TTFont
    from vf.hbref import HBFont

    try:
        with time_limit(600):
            inputs, flags = build_inputs(case)
    except CaseTimeout:
        acc.inconclusive += 1
        return
    except Exception as e:
        acc.exclude("input-build-failed:%s" % type(e).__name__)
        return
    if not inputs:
        acc.exclude("degenerate-partition")
        return
    fonts = [TTFont(io.BytesIO(d)) for d in inputs]
    hbs = [HBFont(d) for d in inputs]
    # the merger documents that it only merges format 4 / format 12 Unicode cmap subtables
    ok_props = {(4, 3, 1), (4, 0, 3), (4, 0, 4), (4, 0, 6), (12, 3, 10), (12, 0, 4), (12, 0, 6)}
    for f in fonts:
        if not any((st.format, st.platformID, st.platEncID) in ok_props for st in f["cmap"].tables):
            acc.exclude("input-without-format-4-or-12-unicode-cmap")
            return
    charsets = [set(h.unicodes()) for h in hbs]
    all_have_gsub = all("GSUB" in f for f in fonts)
    # documented restriction: duplicate glyph disambiguation needs GSUB in the fonts
    dup = any(charsets[i] & charsets[j] for i in range(len(inputs)) for j in range(i))
    if dup and not all_have_gsub:
        # still valid when the duplicate code points map to identical glyphs? The restriction is stated on
        # disambiguation taking place, which the merger decides by glyph identity; keep to the safe side
        acc.exclude("overlap-without-gsub")
        return
    with scratch_dir("c18") as d:
        paths = []
        for i, data in enumerate(inputs):
            p = os.path.join(d, "in%d.%s" % (i, "otf" if "CFF " in fonts[i] else "ttf"))
            with open(p, "wb") as fh:
                fh.write(data)
            paths.append(p)
        try:
            with time_limit(900):
                merged = Merger().merge(paths)
                buf = io.BytesIO()
                merged.save(buf)
                mdata = buf.getvalue()
        except CaseTimeout:
            acc.inconclusive += 1
            return
        except NotImplementedError as e:
            acc.exclude("merge-not-implemented")
            return
        except Exception as e:
            acc.fail_exc("merge-raises", e, case)
            return
    mfont = TTFont(io.BytesIO(mdata))
    order = mfont.getGlyphOrder()
    if len(set(order)) != len(order):
        dups = sorted(n for n in set(order) if order.count(n) > 1)
        acc.fail("names", "glyph-names-not-unique", "%r" % dups[:6], case)
    hm = HBFont(mdata)
    renamed = any("." in n and n.rsplit(".", 1)[1].isdigit() for n in order)
    conflicting = False
    # --- every character keeps the glyph of the first input that maps it -------------------------
    for cp in sorted(set().union(*charsets)):
        first = next(i for i, cs in enumerate(charsets) if cp in cs)
        g_in = hbs[first].nominal(cp)
        g_m = hm.nominal(cp)
        if not g_m:
            acc.fail("cmap", "character-lost", "U+%04X mapped by input %d but not by the merged font" % (cp, first), case)
            break
        dres = _same_glyph(hbs[first], g_in, hm, g_m)
        if dres:
            acc.fail("glyph", "character-glyph-differs", "U+%04X: input %d vs merged: %s" % (cp, first, dres), case)
            break
        for j in range(first + 1, len(inputs)):
            if cp in charsets[j] and _same_glyph(hbs[first], g_in, hbs[j], hbs[j].nominal(cp)):
                conflicting = True
    # --- disjoint inputs: shaping of each input's texts is unchanged -----------------------------------
    layout_inputs = sum(1 for f in fonts if "GSUB" in f or "GPOS" in f)
    if flags["disjoint"] and not dup:
        rnd = random.Random(case["seed"] ^ 0x5EED)
        for i, h in enumerate(hbs):
            # the shaper's Unicode normalisation may compose base+mark (or Hangul jamo) sequences into a precomposed
            # character that only ANOTHER input supports; that is the shaper using the larger merged repertoire, not a
            # change to this input's behaviour: probe texts avoid combining marks and conjoining jamo
            import unicodedata

            chars = sorted(c for c in charsets[i] if not unicodedata.category(chr(c)).startswith("M") and not (0x1100 <= c <= 0x11FF))
            script = "latn" if any(0x41 <= c <= 0x24F for c in chars) else None
            for t in shapecmp.random_texts(chars, rnd, case.get("ntexts", 10), maxlen=6):
                ra = h.shape_text(t, script=None, direction="ltr")
                rb = hm.shape_text(t, script=None, direction="ltr")
                bad = None
                if len(ra) != len(rb):
                    bad = "glyph count %d vs %d" % (len(ra), len(rb))
                else:
                    for k, (a, b) in enumerate(zip(ra, rb)):
                        if a[1:] != b[1:]:
                            bad = "glyph %d: cluster/advance/offset %r vs %r" % (k, a[1:], b[1:])
                            break
                        dres = _same_glyph(h, a[0], hm, b[0])
                        if dres:
                            bad = "glyph %d differs: %s" % (k, dres)
                            break
                if bad:
                    acc.fail("shaping", "disjoint-input-shapes-differently", "input %d text %r: %s" % (i, t, bad), case)
                    break
    labels = ["kind:%s" % case["kind"], "disjoint" if flags["disjoint"] and not dup else "overlapping", "n:%d" % len(inputs), "cff" if "CFF " in fonts[0] else "glyf"]
    if renamed:
        labels.append("renamed-glyph")
    if conflicting:
        labels.append("conflicting-duplicate")
    if layout_inputs >= 2:
        labels.append("layout-in->=2-inputs")
    acc.case(case, nontrivial=renamed or conflicting or layout_inputs >= 2, labels=labels, sample=case if renamed else None)


def jobs(tier, seed):
    thorough = tier == "thorough"
    rnd = random.Random(subseed(seed, "c18"))
    ents = corpus.fonts(_eligible)
    J = []
    npart = 1200 if thorough else 60
    for i in range(npart):
        e = rnd.choice(ents)
        J.append(dict(name="partition-%d" % i, kind="partition", fid=e["id"], n=rnd.choice([2, 2, 3, 4]), overlap=rnd.random() < 0.4, seed=subseed(seed, "p", i)))
    # tuples of different corpus fonts: equal upem and flavour
    groups = {}
    opt = {"GSUB", "GPOS", "GDEF", "DSIG", "BASE"}
    for e in ents:
        # "compatible" fonts: same units per em, same flavour and the same set of non-layout tables
        groups.setdefault((e.get("upem"), "CFF " in e["tables"], tuple(sorted(set(e["tables"]) - opt))), []).append(e["id"])
    groups = [g for g in groups.values() if len(g) >= 2]
    ncorp = 400 if thorough else 20
    for i in range(ncorp):
        g = rnd.choice(groups)
        k = min(len(g), rnd.choice([2, 2, 3]))
        J.append(dict(name="corpus-%d" % i, kind="corpus", fids=rnd.sample(g, k), seed=subseed(seed, "c", i)))
    ngen = 2400 if thorough else 90
    for i in range(ngen):
        J.append(dict(name="generated-%d" % i, kind="generated", n=rnd.choice([2, 2, 3, 4]), seed=subseed(seed, "g", i)))
    return J


def run_job(job):
    acc = Acc()
    case = {k: v for k, v in job.items() if k != "name"}
    try:
        with time_limit(1500):
            run_case(case, acc)
    except CaseTimeout:
        acc.inconclusive += 1
    return acc


def replay(case):
    acc = Acc()
    run_case(case, acc)
    return acc.failures
