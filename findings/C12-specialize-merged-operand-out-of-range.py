"""specializeProgram (preserveTopology=False) merges two consecutive collinear lines (and two consecutive rmovetos)
by adding their operands without looking at the Type 2 operand range -32768..32767: for
[-20000, 0, 'rmoveto', 20000, 'hlineto', 20000, 'hlineto', 'endchar'] (every point of the glyph within +-20000, every
operand legal) it emits '40000 hlineto'. T2CharString.compile() only logs a warning and writes 40000 as the 16.16 number
ff 00 00 9c 40, which reads back as 0.6103515625: the line that should end at x = 20000 ends at x = -19999.39.
Expected: the emitted operands stay encodable (no merge) and the compiled glyph still ends at (20000, 0)."""


def reproduce():
    import logging

    from fontTools.cffLib import PrivateDict
    from fontTools.cffLib.specializer import specializeProgram
    from fontTools.misc.psCharStrings import T2CharString
    from fontTools.pens.recordingPen import RecordingPen

    program = [-20000, 0, "rmoveto", 20000, "hlineto", 20000, "hlineto", "endchar"]
    expected_last_point = (20000, 0)  # -20000 + 20000 + 20000, hand-computed

    out = specializeProgram(list(program))
    bad = [t for t in out if not isinstance(t, str) and not -32768 <= t < 32768]

    logger = logging.getLogger("fontTools.misc.psCharStrings")
    was_disabled = logger.disabled
    logger.disabled = True  # compile() warns about the unencodable operand; keep the run quiet
    try:
        private = PrivateDict()
        cs = T2CharString(program=list(out), private=private, globalSubrs=[])
        cs.compile()
        back = T2CharString(bytecode=cs.bytecode, private=private, globalSubrs=[])
        pen = RecordingPen()
        back.draw(pen)
    finally:
        logger.disabled = was_disabled
    points = [pt for op, args in pen.value for pt in args]
    last = points[-1] if points else None
    if bad or last != expected_last_point:
        return "specializeProgram(%r) -> %r (operands outside -32768..32767: %r); after compile/decompile the program is %r and the outline ends at %r instead of %r" % (
            program,
            out,
            bad,
            back.program,
            last,
            expected_last_point,
        )
    return None
