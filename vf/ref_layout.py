"""Reference interpreter of the structured feature programs of vf.gen_fea (C11).

It interprets the *program structure* (never feaLib's AST or the compiled
tables) the way the OpenType specification describes layout processing, and
reports positions in HarfBuzz's conventions (ltr, horizontal):

* lookups of the selected feature in definition order, each lookup walking the
  glyph run left to right (reverse chaining: right to left), first matching
  rule at a position wins, a lookup never re-examines what it has produced;
* LookupFlag skipping from the GDEF classes of the program;
* value records: xPlacement/yPlacement add to the offsets, xAdvance to the
  advance (yAdvance is ignored in horizontal text);
* attachments are recorded and resolved at the end the way HarfBuzz does
  (offset relative to the attached glyph's own pen position), after the
  advances of GDEF mark glyphs have been zeroed.
"""

from vf.gen_fea import ADV, all_lookups, gdef_class_map, skips

GSUB_KIND = {"single": "gsub1", "multiple": "gsub2", "alternate": "gsub3", "ligature": "gsub4", "context": "gsub6", "reverse": "gsub8"}
GPOS_KIND = {"spos": "gpos1", "cursive": "gpos3", "markbase": "gpos4", "marklig": "gpos5", "markmark": "gpos6", "cpos": "gpos8"}


class Pos:
    __slots__ = ("xa", "ya", "xo", "yo", "atype", "chain")

    def __init__(self, xa):
        self.xa, self.ya, self.xo, self.yo, self.atype, self.chain = xa, 0, 0, 0, None, 0


class Layout:
    def __init__(self, program):
        self.P = program
        self.cls = gdef_class_map(program)
        self.lookups = all_lookups(program)
        self.by_name = {l["name"]: l for l in self.lookups if l["name"]}
        self.markclass = {}  # mark class name -> {glyph: anchor}
        for n, defs in program["markclasses"]:
            d = self.markclass.setdefault(n, {})
            for gl, a in defs:
                for g in gl:
                    d[g] = a
        self.has_gpos = any(l["table"] == "GPOS" for l in self.lookups)
        self._features = self._feature_map()

    # -- which lookups does (script, language, feature) select ------------------
    def _feature_map(self):
        """(script, lang, tag) -> [lookup] following the feature file specification (4.b)."""
        P = self.P
        default = [tuple(x) for x in P["langsys"]] or [("DFLT", "dflt")]
        F = {}
        for t in P["top"]:
            if t["k"] != "feature":
                continue
            tag = t["tag"]
            cur = list(default)
            script = "DFLT"
            for it in t["items"]:
                k = it["k"]
                if k == "script":
                    script = it["tag"]
                    cur = [(script, "dflt")]
                    F.setdefault((script, "dflt", tag), [])
                elif k == "language":
                    key = (script, it["tag"], tag)
                    dflt = F.get((script, "dflt", tag), [])
                    if it["tag"] == "dflt" or it["dflt"]:
                        if dflt:
                            F[key] = list(dflt)
                        else:
                            F.setdefault(key, [])
                    else:
                        F[key] = [l for l in F.get(key, []) if not any(l is d for d in dflt)]
                    cur = [(script, it["tag"])]
                else:
                    L = self.by_name[it["name"]] if k == "ref" else it["lookup"]
                    for s, l in cur:
                        F.setdefault((s, l, tag), []).append(L)
        return F

    def select(self, table, script, lang, tag):
        """Lookups (definition order) that a shaper asked for script/lang/tag applies for `table`."""
        F = {}
        for (s, l, t), lks in self._features.items():
            lks = [x for x in lks if x["table"] == table]
            if lks:
                F.setdefault(s, {}).setdefault(l, {})[t] = lks
        if script in F:
            s = script
        elif "DFLT" in F:
            s = "DFLT"
        elif "latn" in F:
            s = "latn"
        else:
            return [], None
        if lang in F[s]:
            l = lang
        elif "dflt" in F[s]:
            l = "dflt"
        else:
            return [], (s, None)
        lks = F[s][l].get(tag, [])
        seen = set()
        out = []
        for x in sorted(lks, key=lambda x: x["id"]):
            if x["id"] not in seen:
                seen.add(x["id"])
                out.append(x)
        return out, (s, l)

    # -- skipping -----------------------------------------------------------------
    def skip(self, flag, glyph):
        return skips(self.P, self.cls, flag, glyph)

    def nxt(self, buf, i, flag):
        j = i + 1
        while j < len(buf):
            if not self.skip(flag, buf[j]):
                return j
            self._skipped(flag, buf[j])
            j += 1
        return None

    def prv(self, buf, i, flag):
        j = i - 1
        while j >= 0:
            if not self.skip(flag, buf[j]):
                return j
            self._skipped(flag, buf[j])
            j -= 1
        return None

    def _skipped(self, flag, glyph):
        c = self.cls.get(glyph, 0)
        if c == 1:
            self._pending.add("flag:IgnoreBaseGlyphs")
        elif c == 2:
            self._pending.add("flag:IgnoreLigatures")
        elif flag["im"]:
            self._pending.add("flag:IgnoreMarks")
        elif flag["mfs"]:
            self._pending.add("flag:UseMarkFilteringSet")
        else:
            self._pending.add("flag:MarkAttachmentType")

    def match_forward(self, buf, i, sets, flag):
        """positions of sets[0..] starting with the glyph *after* i; None if no match"""
        out = []
        for s in sets:
            i = self.nxt(buf, i, flag)
            if i is None or buf[i] not in s["g"]:
                return None
            out.append(i)
        return out

    def match_backward(self, buf, i, sets, flag):
        for s in reversed(sets):
            i = self.prv(buf, i, flag)
            if i is None or buf[i] not in s["g"]:
                return False
        return True

    # -- driver -----------------------------------------------------------------------
    def shape(self, run, tag, value=1, script="DFLT", lang="dflt"):
        """-> dict(glyphs, pos=[(xa, ya, xo, yo)], events=set, excluded=str|None, nlookups=(gsub, gpos))"""
        self.events = set()
        self._pending = set()
        self.excluded = None
        self.taint = [False] * len(run)
        self.value = value
        buf = list(run)
        gsub, sel1 = self.select("GSUB", script, lang, tag)
        gpos, sel2 = self.select("GPOS", script, lang, tag)
        for L in gsub:
            self.apply_gsub(L, buf)
        pos = [Pos(ADV[g]) for g in buf]
        for L in gpos:
            self.apply_gpos(L, buf, pos)
        # HarfBuzz (default shaper): advances of GDEF marks are zeroed after GPOS; when the font has no GPOS
        # table the mark is also shifted back by its advance
        for g, p in zip(buf, pos):
            if self.cls.get(g, 0) == 3:
                if not self.has_gpos:
                    p.xo -= p.xa
                    p.yo -= p.ya
                p.xa = 0
                p.ya = 0
        for i in range(len(pos)):
            self.propagate(pos, i)
        for sel in (sel1, sel2):
            if sel and sel != ("DFLT", "dflt") and sel[1] is not None:
                self.events.add("langsys:script" if sel[1] == "dflt" else "langsys:language")
        return dict(glyphs=buf, pos=[(p.xa, p.ya, p.xo, p.yo) for p in pos], events=self.events, excluded=self.excluded, lookups=([l["id"] for l in gsub], [l["id"] for l in gpos]))

    def propagate(self, pos, i, depth=0):
        p = pos[i]
        if not p.chain or depth > 64:
            return
        chain, atype = p.chain, p.atype
        p.chain = 0
        j = i + chain
        if not (0 <= j < len(pos)):
            return
        self.propagate(pos, j, depth + 1)
        if atype == "cursive":
            p.yo += pos[j].yo
        else:
            p.xo += pos[j].xo
            p.yo += pos[j].yo
            for k in range(j, i):
                p.xo -= pos[k].xa
                p.yo -= pos[k].ya

    def fired(self, L, kind, top):
        self.events.add(kind)
        self.events.update(self._pending)
        self._pending = set()
        if L["name"]:
            self.events.add("named-lookup")
        if L["flag"]["rtl"]:
            self.events.add("flag:RightToLeft(no-op)")
        if not top:
            self.events.add("nested-lookup")

    # -- GSUB ---------------------------------------------------------------------------
    def apply_gsub(self, L, buf):
        flag = L["flag"]
        if L["type"] == "reverse":
            i = len(buf) - 1
            while i >= 0:
                self._pending = set()
                if not self.skip(flag, buf[i]):
                    self.sub_reverse(L, buf, i)
                i -= 1
            return
        i = 0
        while i < len(buf):
            self._pending = set()
            if not self.skip(flag, buf[i]):
                n = self.sub_at(L, buf, i, True)
                if n is not None:
                    i = n
                    continue
            i += 1

    def sub_at(self, L, buf, i, top):
        """Apply lookup L once at position i. Returns the index to continue from, or None if nothing matched."""
        t = L["type"]
        g = buf[i]
        if t == "single":
            for rule in L["rules"]:
                if g in rule["s"]["g"]:
                    o = rule["o"]["g"]
                    buf[i] = o[rule["s"]["g"].index(g)] if len(o) > 1 or len(rule["s"]["g"]) == 1 else o[0]
                    self.fired(L, "gsub1", top)
                    return i + 1
            return None
        if t == "multiple":
            for rule in L["rules"]:
                if rule["s"] == g:
                    buf[i : i + 1] = list(rule["o"])
                    self.taint[i : i + 1] = [self.taint[i]] * len(rule["o"])
                    self.fired(L, "gsub2", top)
                    return i + len(rule["o"])
            return None
        if t == "alternate":
            for rule in L["rules"]:
                if rule["s"] == g:
                    alts = rule["o"]["g"]
                    if 1 <= self.value <= len(alts):
                        buf[i] = alts[self.value - 1]
                        self.fired(L, "gsub3", top)
                        return i + 1
                    return None
            return None
        if t == "ligature":
            return self.sub_ligature(L, L["rules"], buf, i, top)
        if t == "context":
            return self.sub_context(L, buf, i)
        raise ValueError(t)

    def sub_ligature(self, L, rules, buf, i, top):
        flag = L["flag"]
        cands = []
        for rule in rules:
            comps = rule["s"]
            if buf[i] in comps[0]["g"]:
                cands.append((len(comps), rule))
        # the longest sequence is tried first (feature file specification 5.d)
        cands.sort(key=lambda c: -c[0])
        for n, rule in cands:
            self._pending = set()
            m = self.match_forward(buf, i, rule["s"][1:], flag)
            if m is None:
                continue
            positions = [i] + m
            self.ligate(buf, positions, rule["o"])
            self.fired(L, "gsub4", top)
            return i + 1
        return None

    def ligate(self, buf, positions, lig):
        if len(positions) > 1 and any(self.taint[p] for p in positions):
            # HarfBuzz refuses to join glyphs that belong to different components of an earlier ligature;
            # that bookkeeping is HarfBuzz policy, not part of the rule text: leave the case out
            self.excluded = "input-glyph-was-skipped-inside-an-earlier-ligature"
        first = self.cls.get(buf[positions[0]], 0)
        rest_marks = all(self.cls.get(buf[p], 0) == 3 for p in positions[1:])
        true_lig = not (rest_marks and first in (1, 3))
        if true_lig:
            for k in range(positions[0] + 1, positions[-1]):
                if k not in positions:
                    self.taint[k] = True
        buf[positions[0]] = lig
        for p in reversed(positions[1:]):
            del buf[p]
            del self.taint[p]

    def match_context(self, rule, buf, i, flag):
        inp = rule["inp"]
        if buf[i] not in inp[0]["s"]["g"]:
            return None
        rest = self.match_forward(buf, i, [x["s"] for x in inp[1:]], flag)
        if rest is None:
            return None
        positions = [i] + rest
        if not self.match_backward(buf, i, rule["pre"], flag):
            return None
        if self.match_forward(buf, positions[-1], rule["suf"], flag) is None:
            return None
        return positions

    def sub_context(self, L, buf, i):
        flag = L["flag"]
        for rule in L["rules"]:
            self._pending = set()
            positions = self.match_context(rule, buf, i, flag)
            if positions is None:
                continue
            if len(positions) > 1 and any(self.taint[p] for p in positions):
                self.excluded = "input-glyph-was-skipped-inside-an-earlier-ligature"
            end = positions[-1] + 1
            if rule["ignore"]:
                self.events.add("ignore-sub")
                self.events.update(self._pending)
                return end
            self.fired(L, "gsub6", True)
            inl = rule.get("inline")
            n0 = len(buf)
            if inl:
                if inl["k"] == "single":
                    s = rule["inp"][0]["s"]["g"]
                    o = inl["o"]["g"]
                    g = buf[i]
                    buf[i] = o[s.index(g)] if len(o) > 1 or len(s) == 1 else o[0]
                    self.events.add("gsub6:inline-single")
                elif inl["k"] == "multiple":
                    buf[i : i + 1] = list(inl["o"])
                    self.taint[i : i + 1] = [self.taint[i]] * len(inl["o"])
                    self.events.add("gsub6:inline-multiple")
                elif inl["k"] == "alternate":
                    alts = inl["o"]["g"]
                    if 1 <= self.value <= len(alts):
                        buf[i] = alts[self.value - 1]
                        self.events.add("gsub6:inline-alternate")
                elif inl["k"] == "ligature":
                    self.ligate(buf, positions, inl["o"])
                    self.events.add("gsub6:inline-ligature")
            else:
                for seq, x in enumerate(rule["inp"]):
                    for name in x["lk"]:
                        N = self.by_name[name]
                        self._pending = set()
                        if self.sub_at(N, buf, positions[seq], False) is not None:
                            self.events.add("lookup-reference-in-context")
            end += len(buf) - n0
            return max(end, i + 1)
        return None

    def sub_reverse(self, L, buf, i):
        flag = L["flag"]
        g = buf[i]
        for rule in L["rules"]:
            self._pending = set()
            s = rule["s"]["g"]
            if g not in s:
                continue
            if not self.match_backward(buf, i, rule["pre"], flag):
                continue
            if self.match_forward(buf, i, rule["suf"], flag) is None:
                continue
            o = rule["o"]["g"]
            buf[i] = o[s.index(g)] if len(o) > 1 or len(s) == 1 else o[0]
            self.fired(L, "gsub8", True)
            return True
        return False

    # -- GPOS ---------------------------------------------------------------------------
    def apply_gpos(self, L, buf, pos):
        flag = L["flag"]
        i = 0
        while i < len(buf):
            self._pending = set()
            if not self.skip(flag, buf[i]):
                n = self.pos_at(L, buf, pos, i, True)
                if n is not None:
                    i = n
                    continue
            i += 1

    @staticmethod
    def add_value(p, v):
        p.xo += v[0]
        p.yo += v[1]
        p.xa += v[2]
        # yAdvance applies to vertical text only

    def pos_at(self, L, buf, pos, i, top):
        t = L["type"]
        g = buf[i]
        flag = L["flag"]
        if t == "spos":
            for rule in L["rules"]:
                if g in rule["s"]["g"]:
                    self.add_value(pos[i], rule["v"]["v"])
                    self.fired(L, "gpos1", top)
                    return i + 1
            return None
        if t == "pair":
            return self.pos_pair(L, buf, pos, i, top)
        if t == "cursive":
            return self.pos_cursive(L, buf, pos, i, top)
        if t in ("markbase", "marklig"):
            return self.pos_mark_to_base(L, buf, pos, i, top)
        if t == "markmark":
            return self.pos_mark_to_mark(L, buf, pos, i, top)
        if t == "cpos":
            return self.pos_context(L, buf, pos, i)
        raise ValueError(t)

    def pos_pair(self, L, buf, pos, i, top):
        flag = L["flag"]
        g = buf[i]
        specific = {}
        spec_v2 = False
        classes = []
        cls_v2 = False
        for rule in L["rules"]:
            if rule["cls"]:
                classes.append(rule)
                cls_v2 = cls_v2 or rule["v2"] is not None
            else:
                for a in rule["a"]["g"]:
                    for b in rule["b"]["g"]:
                        specific.setdefault((a, b), rule)  # the first definition of a pair wins
                spec_v2 = spec_v2 or rule["v2"] is not None
        if any(a == g for a, _b in specific):
            j = self.nxt(buf, i, flag)
            if j is None:
                return None
            rule = specific.get((g, buf[j]))
            if rule is not None:
                self.add_value(pos[i], rule["v1"]["v"])
                if rule["v2"] is not None:
                    self.add_value(pos[j], rule["v2"]["v"])
                self.fired(L, "gpos2:enum" if rule["enum"] else "gpos2:specific", top)
                return j + 1 if spec_v2 else j
        if any(g in rule["a"]["g"] for rule in classes):
            # one class matrix: the first glyph's row decides, combinations not written have zero values
            j = self.nxt(buf, i, flag)
            if j is None:
                return None
            for rule in classes:
                if g in rule["a"]["g"] and buf[j] in rule["b"]["g"]:
                    self.add_value(pos[i], rule["v1"]["v"])
                    if rule["v2"] is not None:
                        self.add_value(pos[j], rule["v2"]["v"])
                    self.fired(L, "gpos2:class", top)
                    break
            return j + 1 if cls_v2 else j
        return None

    def pos_cursive(self, L, buf, pos, i, top):
        flag = L["flag"]
        rec = {}
        for rule in L["rules"]:
            for g in rule["s"]["g"]:
                rec[g] = rule
        cur = rec.get(buf[i])
        if cur is None or cur["entry"] is None:
            return None
        j = self.prv(buf, i, flag)
        if j is None:
            return None
        prev = rec.get(buf[j])
        if prev is None or prev["exit"] is None:
            return None
        entry, exit_ = cur["entry"], prev["exit"]
        pos[j].xa = exit_["x"] + pos[j].xo
        d = entry["x"] + pos[i].xo
        pos[i].xa -= d
        pos[i].xo -= d
        # without the RightToLeft flag the current glyph hangs off the previous one
        pos[i].atype = "cursive"
        pos[i].chain = j - i
        pos[i].yo = exit_["y"] - entry["y"]
        if pos[j].chain == -pos[i].chain:
            pos[j].chain = 0
            pos[j].yo = 0
        self.fired(L, "gpos3", top)
        return i + 1

    def _mark_record(self, L, glyph):
        """(mark class name, mark anchor) of glyph in this lookup, or None"""
        for rule in L["rules"]:
            parts = rule["marks"] if "marks" in rule else [m for comp in rule["comps"] for m in comp]
            for _a, mc in parts:
                if glyph in self.markclass[mc]:
                    return mc, self.markclass[mc][glyph]
        return None

    def pos_mark_to_base(self, L, buf, pos, i, top):
        mr = self._mark_record(L, buf[i])
        if mr is None:
            return None
        mc, manchor = mr
        # nearest preceding glyph that is not a mark
        j = i - 1
        while j >= 0 and self.cls.get(buf[j], 0) == 3:
            j -= 1
        if j < 0:
            return None
        for rule in L["rules"]:
            if buf[j] in rule["s"]["g"]:
                if L["type"] == "markbase":
                    parts = rule["marks"]
                else:
                    parts = rule["comps"][-1]  # no ligature in this run was formed by GSUB: last component
                for a, c in parts:
                    if c == mc:
                        self.attach(pos, i, j, a, manchor)
                        self.fired(L, "gpos4" if L["type"] == "markbase" else "gpos5", top)
                        return i + 1
                return None
        return None

    def pos_mark_to_mark(self, L, buf, pos, i, top):
        flag = L["flag"]
        mr = self._mark_record(L, buf[i])
        if mr is None:
            return None
        mc, manchor = mr
        only_marks = dict(flag, ib=False, il=False, im=False)
        j = self.prv(buf, i, only_marks)
        if j is None or self.cls.get(buf[j], 0) != 3:
            return None
        for rule in L["rules"]:
            if buf[j] in rule["s"]["g"]:
                for a, c in rule["marks"]:
                    if c == mc:
                        self.attach(pos, i, j, a, manchor)
                        self.fired(L, "gpos6", top)
                        return i + 1
                return None
        return None

    @staticmethod
    def attach(pos, i, j, base_anchor, mark_anchor):
        pos[i].xo = base_anchor["x"] - mark_anchor["x"]
        pos[i].yo = base_anchor["y"] - mark_anchor["y"]
        pos[i].atype = "mark"
        pos[i].chain = j - i

    def pos_context(self, L, buf, pos, i):
        flag = L["flag"]
        for rule in L["rules"]:
            self._pending = set()
            positions = self.match_context(rule, buf, i, flag)
            if positions is None:
                continue
            end = positions[-1] + 1
            if rule["ignore"]:
                self.events.add("ignore-pos")
                self.events.update(self._pending)
                return end
            self.fired(L, "gpos8", True)
            for seq, x in enumerate(rule["inp"]):
                if x.get("v") is not None:
                    self.add_value(pos[positions[seq]], x["v"]["v"])
                    self.events.add("gpos8:inline-value")
                for name in x["lk"]:
                    N = self.by_name[name]
                    self._pending = set()
                    if self.pos_at(N, buf, pos, positions[seq], False) is not None:
                        self.events.add("lookup-reference-in-context")
            return end
        return None
