"""designspaceLib: a RangeAxisSubsetDescriptor of a variable font that sets only some of userMinimum / userDefault /
userMaximum (each is optional on its own, both in the descriptor's constructor and in the documented <axis-subset>
attributes: "userminimum: optional ... If not mentioned, assume the axis's minimum") is written with just those
attributes, and the reader rejects its own output with DesignSpaceDocumentError "axis-subset element must have
min/max/default values or none at all". Expected: the subset is read back with the same three values."""


def reproduce():
    import math

    from fontTools.designspaceLib import DesignSpaceDocument, DesignSpaceDocumentError, RangeAxisSubsetDescriptor

    doc = DesignSpaceDocument()
    doc.addAxisDescriptor(name="Weight", tag="wght", minimum=100, default=400, maximum=900)
    doc.addVariableFontDescriptor(name="VF", axisSubsets=[RangeAxisSubsetDescriptor(name="Weight", userMinimum=200)])
    data = doc.tostring()
    try:
        doc2 = DesignSpaceDocument.fromstring(data)
    except DesignSpaceDocumentError as e:
        return "RangeAxisSubsetDescriptor(name='Weight', userMinimum=200) is written as <axis-subset name=\"Weight\" userminimum=\"200\"/> and fromstring() raises DesignSpaceDocumentError: %s" % e
    sub = doc2.variableFonts[0].axisSubsets[0]
    got = (getattr(sub, "userMinimum", "?"), getattr(sub, "userDefault", "?"), getattr(sub, "userMaximum", "?"))
    if got != (200, None, math.inf):
        return "axis subset (userMinimum=200, userDefault=None, userMaximum=inf) read back as %r" % (got,)
    return None
