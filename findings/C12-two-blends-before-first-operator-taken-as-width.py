"""programToCommands mis-counts the operands of the first stack-clearing operator of a CFF2 charstring when two (or more)
blend operators precede it: 'lenBlendStack += numBlends + lenStack - 1' counts the operands in front of the previous blend
again, so [1, 2, 1, 'blend', 3, 4, 1, 'blend', 'rmoveto'] (one region; two blended operands = the dx dy of rmoveto) is seen
as 3 operands and the first one is split off as a glyph width: [('', [[1, 2, 1]]), ('rmoveto', [[3, 4, 1]])] instead of
[('rmoveto', [[1, 2, 1], [3, 4, 1]])]. Consequence: the generaliser's own output is rejected,
specializeProgram(generalizeProgram([1, 3, 2, 4, 2, 'blend', 'rmoveto'], g), g) raises ValueError([[3, 4, 1]])."""


def reproduce():
    from fontTools.cffLib.specializer import generalizeProgram, programToCommands, specializeProgram

    def one_region(vsindex=None):
        return 1

    out = []
    program = [1, 2, 1, "blend", 3, 4, 1, "blend", "rmoveto"]
    expected = [("rmoveto", [[1, 2, 1], [3, 4, 1]])]  # two operands, no width (hand-computed)
    got = programToCommands(list(program), one_region)
    got = [(op, list(args)) for op, args in got]
    if got != expected:
        out.append("programToCommands(%r, 1 region) -> %r, expected %r" % (program, got, expected))

    # round trip through the library's own generaliser: dx dy blended with ONE blend operator is split into two
    p2 = [1, 3, 2, 4, 2, "blend", "rmoveto"]
    general = generalizeProgram(list(p2), one_region)
    try:
        special = specializeProgram(list(general), one_region)
        if special != p2:
            out.append("specializeProgram(generalizeProgram(%r)) -> %r" % (p2, special))
    except ValueError as e:
        out.append("specializeProgram(%r) (= generalizeProgram(%r)) raises ValueError(%s)" % (general, p2, e))
    return "; ".join(out) or None
