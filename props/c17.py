"""C17 — renumbering glyphs or rescaling the em changes nothing else."""

import io
import random

from vf import corpus, geom, shapecmp
from vf.runner import Acc, CaseTimeout, fingerprint, subseed, time_limit

ID = "C17"
LEVEL = "exploration"
RULE = (
    "corpus fonts (complete, with cmap and outlines) x seeded permutations of the glyph order keeping glyph 0 first "
    "(full shuffle, reversal, single swap, rotation) through ttLib.reorderGlyphs, and x new units-per-em values "
    "(integer factors x2 x3, non-integer ratios up and down, e.g. 1000<->2048, /7) through ttLib.scaleUpem. HarfBuzz on the "
    "font before vs after, keyed by glyph NAME (in-memory glyph order of the transformed font): outline + advance of every "
    "glyph (default location and 2 seeded variation locations), nominal glyph of every mapped code point, shaping of random "
    "texts and of glyph runs biased to lookup coverages with all features on. Reorder: exact equality. Scale by k: every "
    "number equals old*k within the rounding budget stated in ASSUMPTIONS (exact for integer k); tables without design units "
    "(cmap, name, fvar, avar, STAT, GSUB, gasp, meta, CPAL, fpgm, prep) byte-identical to an unscaled re-save. "
    "non-trivial = permutation moves a glyph referenced by a Coverage/ClassDef or index map, or k != 1 on a font with "
    "GPOS/kern/gvar; distinct by (font, permutation | upem)"
)
ASSUMPTIONS = [
    "scale budget: glyf simple glyphs 0.5 unit, composites 0.5 per nesting level (+1 when a component is transformed); CFF/CFF2: "
    "the scaler rounds every relative charstring operand, so absolute coordinates may drift by 0.5 per preceding operand pair: "
    "budget 0.5 * (3 * segments of the glyph + 2); advances 0.5 (+0.5 per VarStore region at variation locations); shaped "
    "positions 0.5 * (3 + run length); at variation locations +0.5 per tuple variation of the glyph",
    "HarfBuzz is the observer for outlines, advances, cmap and shaping",
    "fonts that reorderGlyphs/scale_upem reject with an exception on the unchanged tree are excluded and counted per exception type",
]


def _eligible(e):
    t = set(e["tables"])
    return {"head", "hhea", "hmtx", "maxp", "cmap"}.issubset(t) and bool(t & {"glyf", "CFF ", "CFF2"}) and e["numGlyphs"] >= 3


def _load(fid):
    from fontTools.ttLib import TTFont

    kind, rest = fid.split(":", 1)
    if kind == "bin":
        data = corpus.file_bytes(fid)
        num = int(rest.split("#")[1]) if "#" in rest else -1
        if data[:4] in (b"wOFF", b"wOF2", b"ttcf"):
            f = TTFont(io.BytesIO(data), fontNumber=num)
            f.flavor = None
            b = io.BytesIO()
            f.save(b)
            data = b.getvalue()
    else:
        data = corpus.sfnt_bytes(fid)
    return data


def _perm(order, how, rnd):
    rest = order[1:]
    if how == "shuffle":
        rnd.shuffle(rest)
    elif how == "reverse":
        rest.reverse()
    elif how == "swap":
        if len(rest) >= 2:
            i, j = rnd.sample(range(len(rest)), 2)
            rest[i], rest[j] = rest[j], rest[i]
    elif how == "rotate":
        k = rnd.randrange(1, len(rest)) if len(rest) > 1 else 0
        rest = rest[k:] + rest[:k]
    return [order[0]] + rest


def _locs(font, rnd, n=2):
    locs = [None]
    if "fvar" in font:
        for _ in range(n):
            locs.append({a.axisTag: round(rnd.uniform(a.minValue, a.maxValue), 1) for a in font["fvar"].axes})
    return locs


def _cubic_glyf(font):
    if "glyf" not in font:
        return False
    g = font["glyf"]
    return font["head"].glyphDataFormat != 0 or any(g[n].numberOfContours > 0 and any(f & 0x80 for f in g[n].flags) for n in font.getGlyphOrder())


def _scaled(v, k):
    if isinstance(v, (list, tuple)):
        return tuple(_scaled(x, k) for x in v)
    return v * k if isinstance(v, (int, float)) and not isinstance(v, bool) else v


def _close(a, b, tol):
    if isinstance(a, (list, tuple)):
        return isinstance(b, (list, tuple)) and len(a) == len(b) and all(_close(x, y, tol) for x, y in zip(a, b))
    if isinstance(a, (int, float)) and isinstance(b, (int, float)):
        return abs(a - b) <= tol
    return a == b


def _by_name_tables(font, order=None):
    """{tag: {key made of glyph NAMES: plain value}} for tables indexed by glyph that the shaping oracle cannot see:
    hdmx, LTSH, vmtx, VORG, kern, COLR v0, sbix, EBLC/EBDT bitmaps, post names (identity), cmap of every subtable."""
    out = {}
    if "hdmx" in font:
        out["hdmx"] = {(ppem, n): w for ppem, d in font["hdmx"].hdmx.items() for n, w in d.items()}
    if "LTSH" in font:
        out["LTSH"] = dict(font["LTSH"].yPels)
    if "vmtx" in font:
        out["vmtx"] = {n: tuple(v) for n, v in font["vmtx"].metrics.items()}
    if "VORG" in font:
        out["VORG"] = dict(font["VORG"].VOriginRecords)
        out["VORG"][".default"] = font["VORG"].defaultVertOriginY
    if "kern" in font:
        d = {}
        for i, t in enumerate(font["kern"].kernTables):
            if hasattr(t, "kernTable"):
                for (l, r), v in t.kernTable.items():
                    d[(i, l, r)] = v
        out["kern"] = d
    if "COLR" in font and getattr(font["COLR"], "version", 0) == 0:
        out["COLR"] = {n: tuple((l.name, l.colorID) for l in (layers or ())) for n, layers in font["COLR"].ColorLayers.items()}
    if "sbix" in font:
        d = {}
        for ppem, strike in font["sbix"].strikes.items():
            for n, g in strike.glyphs.items():
                if g.graphicType is not None:
                    d[(ppem, n)] = (g.originOffsetX, g.originOffsetY, g.graphicType, bytes(g.imageData or b""))
        out["sbix"] = d
    if "EBDT" in font and "EBLC" in font:
        d = {}
        for si, (strike, gd) in enumerate(zip(font["EBLC"].strikes, font["EBDT"].strikeData)):
            fmt = {}
            for ist in strike.indexSubTables:
                for n in ist.names:
                    fmt[n] = (ist.indexFormat, ist.imageFormat, tuple(sorted(vars(ist.metrics).items())) if hasattr(ist, "metrics") and ist.indexFormat in (2, 5) else None)
            for n, g in gd.items():
                met = tuple(sorted(vars(g.metrics).items())) if hasattr(g, "metrics") else None
                comps = tuple((c.name, c.xOffset, c.yOffset) for c in getattr(g, "componentArray", ()))
                d[(si, n)] = (type(g).__name__, met, bytes(getattr(g, "imageData", b"") or b""), comps, fmt.get(n))
        out["EBDT"] = d
    if "cmap" in font:
        d = {}
        for t in font["cmap"].tables:
            key = (t.platformID, t.platEncID, t.language, t.format)
            for cp, n in t.cmap.items():
                d[key + (cp,)] = n
            if t.format == 14:
                for sel, lst in t.uvsDict.items():
                    for cp, n in lst:
                        d[key + (sel, cp)] = n
        out["cmap"] = d
    return out


def run_case(case, acc):
    from fontTools.ttLib import TTFont
    from vf.hbref import HBFont

    fid = case["fid"]
    rnd = random.Random(case["seed"])
    data0 = _load(fid)
    font = TTFont(io.BytesIO(data0), lazy=False)
    order0 = font.getGlyphOrder()
    if len(set(order0)) != len(order0):
        acc.exclude("duplicate-glyph-names")
        return
    if _cubic_glyf(font):
        acc.exclude("experimental-cubic-glyf")
        return
    n_glyphs = len(order0)
    raw_cmap = [t for t in font["cmap"].tables if not hasattr(t, "cmap") or t.__class__.__name__ == "cmap_format_unknown"]
    if raw_cmap:
        # open finding C17-undecoded-cmap-subtable-keeps-glyph-ids (witness in findings/): excluded by construction
        acc.exclude("cmap subtable of a format the library keeps as raw data (8, 10): its glyph IDs cannot follow a reordering")
        if case["mode"] == "reorder":
            return
    oset = set(order0)
    _hbx = HBFont(data0)
    if any(n not in oset for t in font["cmap"].tables if hasattr(t, "cmap") for n in t.cmap.values()) or any((_hbx.nominal(cp) or 0) >= n_glyphs for cp in _hbx.unicodes()):
        acc.exclude("malformed corpus font: cmap maps to glyph IDs beyond numGlyphs")
        return
    if "VARC" in font and case["mode"] == "scale":
        # draft format; fontTools and HarfBuzz already disagree on these composites (see C05), no oracle for scaling them
        acc.exclude("varc-scale-not-covered")
        return
    mode = case["mode"]
    k = 1.0
    try:
        with time_limit(600):
            if mode == "reorder":
                from fontTools.ttLib.reorderGlyphs import reorderGlyphs

                new_order = _perm(list(order0), case["how"], rnd)
                reorderGlyphs(font, new_order)
            else:
                from fontTools.ttLib.scaleUpem import scale_upem

                old = font["head"].unitsPerEm
                new = case["upem"] if case["upem"] > 0 else max(16, int(round(old * -case["upem"] / 1000.0)))
                if new == old:
                    new = old * 2
                k = new / old
                for tag in font.keys():
                    if tag != "GlyphOrder":
                        font[tag]
                scale_upem(font, new)
                new_order = list(order0)
            buf = io.BytesIO()
            font.save(buf)
            data1 = buf.getvalue()
    except CaseTimeout:
        acc.inconclusive += 1
        return
    except (NotImplementedError, ValueError, AssertionError) as e:
        # documented rejections (tables not fully loadable, unsupported structures): not a violation of C17
        acc.exclude("%s-rejected:%s" % (mode, type(e).__name__))
        return
    except Exception as e:
        acc.fail_exc("%s-raises" % mode, e, case)
        return
    hb0, hb1 = HBFont(data0), HBFont(data1)
    if hb1.glyph_count() != len(new_order):
        acc.fail(mode, "glyph-count-changed", "%d vs %d" % (hb1.glyph_count(), len(new_order)), case)
        return
    gid1 = {n: i for i, n in enumerate(new_order)}
    ref = TTFont(io.BytesIO(data0), lazy=False)
    is_cff = "glyf" not in ref
    integer_k = abs(k - round(k)) < 1e-12
    # --- outlines and advances ------------------------------------------------
    names = list(order0)
    if len(names) > case.get("maxglyphs", 400):
        names = sorted(rnd.sample(names, case.get("maxglyphs", 400)), key=order0.index)
    nregions = 0
    for t in ("HVAR", "MVAR"):
        if t in ref:
            try:
                nregions = max(nregions, len(ref[t].table.VarStore.VarRegionList.Region))
            except Exception:
                pass
    moved_ref = False
    unstable_flex1 = _flex1_near_ties(data0, k) if mode == "scale" and "CFF " in ref else {}
    for li, loc in enumerate(_locs(ref, rnd)):
        hb0.set_location(loc)
        hb1.set_location(loc)
        for name in names:
            if name in unstable_flex1 and (not integer_k or unstable_flex1[name]):
                # flex1 takes its last operand as dx or dy depending on whether |sum dx| > |sum dy| of the five deltas before
                # it; here the two sums are closer than the scaler's operand-by-operand rounding can keep apart, so which
                # curve the scaled program draws is not determined by the original (no rounding scheme can preserve a tie)
                acc.exclude("scale:flex1-decision-within-rounding-of-a-tie")
                continue
            g0, g1 = ref.getGlyphID(name), gid1[name]
            tol = 0.0 if loc is None else 1e-3
            adv_tol = tol
            if mode == "scale" and not (integer_k and loc is None):
                adv_tol = 0.5 + (0.5 * nregions if loc is not None else 0) + 1e-6
                if is_cff:
                    nseg = sum(len(c["segs"]) for c in geom.canon(hb0.draw(g0), tol=0.01))
                    tol = 0.5 * (3 * nseg + 2)
                else:
                    depth, transformed = _comp_depth(ref, name)
                    tol = max(0.5 * (1 + depth) + (1.0 if transformed else 0.0), _comp_budget(ref, name))
                    if depth:
                        # a shaper places the outline by the difference between the glyph's xMin and its hmtx side bearing:
                        # the side bearing is scaled and rounded on its own (0.5), the xMin of a composite follows from its
                        # rounded components (the composite's own budget), so the whole outline may shift by their sum
                        tol = 2 * tol + 0.5
                if loc is not None and "gvar" in ref:
                    tol += 0.5 * len(ref["gvar"].variations.get(name, []))
                    # the advance is the difference of two phantom points, each with its own rounded delta per tuple
                    adv_tol += 1.0 * len(ref["gvar"].variations.get(name, []))
                if loc is not None:
                    # HarfBuzz reports the ORIGINAL's interpolated advance rounded to an integer as well: that rounding is
                    # multiplied by k before it is compared
                    adv_tol += 0.5 * k
                tol += 1e-6
            elif mode == "scale" and is_cff:
                # integer factor: exact when the charstring operands are integers; fractional operands are
                # rounded one by one by the scaler, so the drift budget applies
                C0 = geom.canon(hb0.draw(g0), tol=0.01)
                if all(float(v).is_integer() for c in C0 for sg in c["segs"] for p in sg[1:] for v in p):
                    tol = 1e-3
                else:
                    tol = 0.5 * (3 * sum(len(c["segs"]) for c in C0) + 2)
                    adv_tol = 0.5 + 1e-6
            if mode == "scale":
                tol = max(tol, 2e-3 * max(1.0, k))  # float32 transforms of composites inside HarfBuzz
                adv_tol = max(adv_tol, 1e-6)
            d = shapecmp.diff_glyph(hb0, g0, hb1, g1, tol=tol, scale=k, adv_tol=adv_tol, loose=(mode == "scale" and (not integer_k or is_cff)))
            if d:
                acc.fail(mode, "glyph-differs", "%s glyph %r loc %r k=%g tol=%g: %s" % (fid, name, loc, k, tol, d), case)
                break
    hb0.set_location(None)
    hb1.set_location(None)
    # --- character map -----------------------------------------------------------
    for cp in hb0.unicodes():
        a, b = hb0.nominal(cp), hb1.nominal(cp)
        na = order0[a] if a is not None and a < len(order0) else None
        nb = new_order[b] if b is not None and b < len(new_order) else None
        if na != nb:
            acc.fail(mode, "cmap-differs", "U+%04X -> %r before, %r after" % (cp, na, nb), case)
            break
    # --- shaping --------------------------------------------------------------------
    # without GPOS HarfBuzz positions marks with its own fallback heuristics (glyph extents, upem-derived gaps), which
    # are not font data and do not scale linearly: compare offsets only when they come from GPOS
    check_offsets = "GPOS" in ref or mode == "reorder"
    # HarfBuzz splits a legacy 'kern' value v between the two glyphs as (v >> 1, v - (v >> 1)): the halves of k*v are not
    # k times the halves of v (v = -1, k = 2: (-1, 0) vs (-1, -1)), only their sum is; one unit per field covers the split
    # (per kern subtable: HarfBuzz applies them one after the other)
    legacy_kern_tol = (len(getattr(ref["kern"], "kernTables", [])) or 1) + 1e-6 if (mode == "scale" and "kern" in ref) else 0.0
    fsets = shapecmp.feature_sets(hb0, rnd)
    texts = shapecmp.random_texts(hb0.unicodes(), rnd, case.get("ntexts", 12))
    seqs = shapecmp.layout_probe_sequences(ref, rnd, case.get("nseqs", 25))
    fired = False
    for feats in fsets:
        for t in texts:
            ra = shapecmp.shape_text(hb0, order0, t, features=feats)
            rb = shapecmp.shape_text(hb1, new_order, t, features=feats)
            tol = 0.0 if (mode == "reorder" or integer_k) else 0.5 * (3 + len(ra))
            tol = max(tol, legacy_kern_tol)
            if not check_offsets:
                ra = [x[:4] + (0, 0) for x in ra]
                rb = [x[:4] + (0, 0) for x in rb]
            d = shapecmp.diff_shaping(ra, rb, scale=k, tol=tol)
            fired = fired or shapecmp.fired(ra)
            if d:
                acc.fail(mode, "shaping-differs", "%s text %r features %s k=%g: %s" % (fid, t, "all" if feats else "default", k, d), case)
                break
        for s in seqs:
            ra = shapecmp.shape_names(hb0, order0, s, features=feats)
            rb = shapecmp.shape_names(hb1, new_order, s, features=feats)
            tol = 0.0 if (mode == "reorder" or integer_k) else 0.5 * (3 + len(ra))
            tol = max(tol, legacy_kern_tol)
            if not check_offsets:
                ra = [x[:4] + (0, 0) for x in ra]
                rb = [x[:4] + (0, 0) for x in rb]
            d = shapecmp.diff_shaping(ra, rb, scale=k, tol=tol)
            fired = fired or shapecmp.fired(ra) or [x[0] for x in ra] != s
            if d:
                acc.fail(mode, "shaping-differs", "%s glyph run %r features %s k=%g: %s" % (fid, s, "all" if feats else "default", k, d), case)
                break
    # --- vertical layout: advance heights (vmtx) and vertical origins (VORG / vmtx+glyf) through HarfBuzz ---------
    if "vmtx" in ref or "VORG" in ref:
        names = [n for n in order0 if n in new_order]
        if len(names) > 200:
            names = rnd.sample(names, 200)
        for n in names:
            ra = hb0.shape_gids([order0.index(n)], direction="ttb")
            rb = hb1.shape_gids([new_order.index(n)], direction="ttb")
            if len(ra) != 1 or len(rb) != 1:
                continue
            # (glyph, cluster, x_advance, y_advance, x_offset, y_offset): y_advance = -advance height,
            # y_offset = -vertical origin y, x_offset = -advance width / 2 (HarfBuzz halves after scaling: +0.5)
            vtol = 0.0 if mode == "reorder" else 0.5 * k + 0.5 + 1e-6
            if is_cff and mode == "scale":
                vtol += 0.5 * 4  # a vertical origin derived from the glyph's top (no VORG record) follows the outline's budget
            for idx, what in ((3, "advance height"), (5, "vertical origin y"), (4, "x offset (half advance width)")):
                xtol = vtol + (0.5 if idx == 4 else 0.0)
                if abs(ra[0][idx] * k - rb[0][idx]) > xtol:
                    acc.fail(mode, "vertical-metrics-differ", "%s glyph %r k=%g: %s %r x k vs %r (tol %.2f)" % (fid, n, k, what, ra[0][idx], rb[0][idx], xtol), case)
                    break
            else:
                continue
            break
        acc.label("vertical-metrics-compared")
    # --- tables keyed by glyph that HarfBuzz does not read: per glyph NAME content through the object model --------
    g0 = _by_name_tables(ref)
    try:
        g1 = _by_name_tables(TTFont(io.BytesIO(data1), lazy=False), new_order if mode == "reorder" else None)
    except Exception as e:
        acc.fail_exc("%s-output-unreadable" % mode, e, case)
        g1 = None
    if len(set(order0)) == len(order0) and any("." in n and n.rsplit(".", 1)[0] in order0 and n.rsplit(".", 1)[1].isdigit() for n in order0):
        # glyph names the library had to make unique on load (A, A.1, A.2 for a post table that says A three times) are
        # numbered by position, so after a renumbering they name other glyphs: nothing to key a comparison on
        try:
            raw = [hb0.font.get_glyph_name(i) for i in range(len(order0))]
        except Exception:
            raw = list(order0)
        if len(set(raw)) != len(raw):
            acc.exclude("glyph-names-not-unique-in-the-font(by-name-tables-not-compared)")
            g1 = None
    if g1 is not None:
        for tag in sorted(g0):
            if mode == "scale" and tag in ("vmtx", "VORG", "kern"):
                a = {key: _scaled(v, k) for key, v in g0[tag].items()}
                bad = [key for key in a if key not in g1.get(tag, {}) or not _close(a[key], g1[tag][key], 0.5 + 1e-9)]
                if bad or set(a) != set(g1.get(tag, {})):
                    acc.fail(mode, "glyph-keyed-table-not-scaled:%s" % tag.strip(), "%s %s: %r: %r x %g vs %r" % (fid, tag, bad[:1], g0[tag].get(bad[0]) if bad else None, k, g1.get(tag, {}).get(bad[0]) if bad else None), case)
            elif g0[tag] != g1.get(tag):
                ks = [key for key in g0[tag] if g0[tag][key] != (g1.get(tag) or {}).get(key)] or sorted(set(g1.get(tag) or {}) - set(g0[tag]))
                acc.fail(mode, "glyph-keyed-table-differs:%s" % tag.strip(), "%s %s entry %r: %r before, %r after" % (fid, tag, ks[:1], g0[tag].get(ks[0]) if ks else None, (g1.get(tag) or {}).get(ks[0]) if ks else None), case)
            acc.label("glyph-keyed:%s" % tag.strip())
    # --- "changes nothing else" (scale): tables without design units ----------------------
    if mode == "scale":
        f1 = TTFont(io.BytesIO(data1), lazy=True)
        if f1["head"].unitsPerEm != new:
            acc.fail(mode, "upem-not-set", "%r" % f1["head"].unitsPerEm, case)
        r = TTFont(io.BytesIO(data0), lazy=False)
        for tag in r.keys():
            if tag != "GlyphOrder":
                r[tag]
        rb = io.BytesIO()
        r.save(rb)
        r0 = TTFont(io.BytesIO(rb.getvalue()), lazy=True)
        for tag in ("cmap", "name", "fvar", "avar", "STAT", "GSUB", "gasp", "meta", "CPAL", "fpgm", "prep", "cvt "):
            if tag in r0.reader and tag in f1.reader:
                if r0.reader[tag] != f1.reader[tag]:
                    acc.fail(mode, "unitless-table-changed:%s" % tag.strip(), "table %r differs after scaling" % tag, case)
            elif (tag in r0.reader) != (tag in f1.reader):
                acc.fail(mode, "table-set-changed", tag, case)
        if f1.getGlyphOrder() != r0.getGlyphOrder():
            acc.fail(mode, "glyph-order-changed", "", case)
    labels = ["mode:%s" % mode, "cff" if is_cff else "glyf"]
    has_layout = bool({"GPOS", "GSUB", "kern", "GDEF"} & set(ref.keys()))
    if mode == "reorder":
        labels.append("how:%s" % case["how"])
        nontrivial = has_layout and new_order != order0
    else:
        labels.append("k:integer" if integer_k else "k:fractional")
        nontrivial = k != 1.0 and bool({"GPOS", "kern", "gvar"} & set(ref.keys()))
    if fired:
        labels.append("layout-fired")
    acc.case((fid, mode, case.get("how"), case.get("upem"), case["seed"]), nontrivial=nontrivial, labels=labels, sample=dict(case, k=k) if nontrivial else None)


def _comp_depth(font, name, seen=0):
    g = font["glyf"][name]
    if not g.isComposite() or seen > 8:
        return 0, False
    d, tr = 0, False
    for c in g.components:
        cd, ctr = _comp_depth(font, c.glyphName, seen + 1)
        d = max(d, cd + 1)
        tr = tr or ctr or hasattr(c, "transform")
    return d, tr


def _flex1_near_ties(data, k):
    """{glyph name: has fractional flex1 operands} for the glyphs of a CFF font with a flex1 whose |sum dx| and |sum dy| differ
    by no more than the ten roundings of the scaled operands can add up to"""
    from fontTools.ttLib import TTFont

    out = {}
    try:
        f = TTFont(io.BytesIO(data), lazy=False)
        cff = f["CFF "].cff
        cff.desubroutinize()
        cs = cff[cff.fontNames[0]].CharStrings
        for name in f.getGlyphOrder():
            c = cs[name]
            c.decompile()
            nums = []
            for t in c.program:
                if isinstance(t, str):
                    if t == "flex1" and len(nums) >= 11:
                        a = nums[-11:]
                        dx, dy = sum(a[0:10:2]), sum(a[1:10:2])
                        if abs(abs(dx) - abs(dy)) * k <= 5.0:
                            out[name] = out.get(name, False) or any(float(v) != int(v) for v in a)
                    nums = []
                elif not isinstance(t, (bytes, list)):
                    nums.append(t)
        # accent building: a glyph composed of such glyphs draws their outlines
        from fontTools.encodings.StandardEncoding import StandardEncoding

        for name in f.getGlyphOrder():
            p = cs[name].program
            if len(p) >= 5 and p[-1] == "endchar" and all(not isinstance(t, (str, bytes, list)) for t in p[-5:-1]):
                for code in p[-3:-1]:
                    part = StandardEncoding[int(code)] if 0 <= int(code) < 256 else None
                    if part in out:
                        out[name] = out.get(name, False) or out[part]
    except Exception:
        return {}
    return out


def _comp_budget(font, name, seen=0):
    """Rounding budget of a point of a (composite) glyph after scaling: a simple glyph's point is rounded once (0.5); a
    component contributes its own budget multiplied by the largest absolute row sum of its 2x2 transform (the rounding
    error of the base glyph's point goes through the transform) plus 0.5 for its rounded offset (times that norm again
    when the offset itself is scaled: SCALED_COMPONENT_OFFSET)."""
    g = font["glyf"][name]
    if not g.isComposite() or seen > 8:
        return 0.5
    worst = 0.0
    for c in g.components:
        norm = 1.0
        if hasattr(c, "transform"):
            (a, b), (cc, d) = c.transform
            norm = max(abs(a) + abs(cc), abs(b) + abs(d), abs(a) + abs(b), abs(cc) + abs(d), 1.0)
        off = 0.5 * (norm if (c.flags & 0x0800) else 1.0)
        worst = max(worst, _comp_budget(font, c.glyphName, seen + 1) * norm + off)
    return worst


def jobs(tier, seed):
    thorough = tier == "thorough"
    fids = [e["id"] for e in corpus.fonts(_eligible)]
    if not thorough:
        rnd = random.Random(subseed(seed, "pick"))
        # always include layout-rich / variable / CFF2 fonts, then fill by seed
        must = [e["id"] for e in corpus.fonts(_eligible) if e["variable"] or "CFF2" in e["tables"] or e["numGlyphs"] > 200][:18]
        # every generated font (tiny; table shapes the test data lacks: VORG, vmtx, hdmx, LTSH, kern, bitmaps, empty glyphs with gvar deltas)
        gens = [f for f in fids if f.startswith("gen:")]
        rest = [f for f in fids if f not in must and f not in gens]
        fids = must + [g for g in gens if g not in must] + rnd.sample(rest, min(len(rest), 40))
    J = []
    for fid in fids:
        s = subseed(seed, fid)
        hows = ["shuffle", "reverse", "swap", "rotate"]
        scales = [2048, -2000, -3000, 1000, -143, -1536, 750]  # negative: per-mille factor of the old upem
        if not thorough:
            r = random.Random(s)
            hows = ["shuffle"] + r.sample(hows[1:], 1)
            scales = [-2000] + r.sample([2048, -3000, 1000, -143, -1536, 750], 1)
        for i, h in enumerate(hows * (5 if thorough else 1)):
            J.append(dict(name="reorder:%s:%s:%d" % (fid, h, i), fid=fid, mode="reorder", how=h, seed=subseed(s, h, i)))
        for u in scales:
            J.append(dict(name="scale:%s:%s" % (fid, u), fid=fid, mode="scale", upem=u, seed=subseed(s, u)))
    return J


def run_job(job):
    acc = Acc()
    case = {k: v for k, v in job.items() if k != "name"}
    try:
        with time_limit(1200):
            run_case(case, acc)
    except CaseTimeout:
        acc.inconclusive += 1
    return acc


def replay(case):
    acc = Acc()
    run_case(case, acc)
    return acc.failures
