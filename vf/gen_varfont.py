"""Generated small TrueType variable fonts (glyf + gvar [+ avar]) for differential checks.

A spec is plain JSON-able data so that it can be stored in a replay file:
  {"axes": [[tag, min, default, max], ...],
   "avar": {tag: [[from, to], ...]} (normalised, optional),
   "glyphs": [{"name": str, "advance": int, "contours": [[[x, y, on], ...], ...]} |
              {"name": str, "advance": int, "components": [[baseName, dx, dy, [xx, xy, yx, yy] | None, flags], ...]}],
   "variations": {glyphName: [{"region": {tag: [lo, peak, hi]}, "deltas": [[dx, dy] | None, ...]}, ...]}}
The number of deltas is number of points (or components) + 4 phantom points.
"""

from hypothesis import strategies as st


def build(spec):
    """-> bytes of the compiled font (uses fontTools.fontBuilder of the tree under test)."""
    import io

    from fontTools.fontBuilder import FontBuilder
    from fontTools.ttLib.tables._g_l_y_f import Glyph, GlyphComponent, GlyphCoordinates
    from fontTools.ttLib.tables.TupleVariation import TupleVariation
    from fontTools.ttLib.tables import ttProgram

    names = [".notdef"] + [g["name"] for g in spec["glyphs"]]
    fb = FontBuilder(1000, isTTF=True)
    fb.setupGlyphOrder(names)
    fb.setupCharacterMap({0x41 + i: n for i, n in enumerate(names[1:])})
    glyphs = {".notdef": Glyph()}
    adv = {".notdef": (500, 0)}
    for g in spec["glyphs"]:
        gl = Glyph()
        if "components" in g:
            gl.numberOfContours = -1
            gl.components = []
            for base, dx, dy, tr, flags in g["components"]:
                c = GlyphComponent()
                c.glyphName = base
                c.x, c.y = dx, dy
                c.flags = flags
                if tr is not None:
                    c.transform = [[tr[0], tr[1]], [tr[2], tr[3]]]
                gl.components.append(c)
        elif g["contours"]:
            pts, flags, ends = [], [], []
            for contour in g["contours"]:
                for x, y, on in contour:
                    pts.append((x, y))
                    flags.append(1 if on else 0)
                ends.append(len(pts) - 1)
            gl.numberOfContours = len(ends)
            gl.coordinates = GlyphCoordinates(pts)
            gl.flags = bytearray(flags)
            gl.endPtsOfContours = ends
            gl.program = ttProgram.Program()
            gl.program.fromBytecode(b"")
        glyphs[g["name"]] = gl
        adv[g["name"]] = (g["advance"], 0)
    fb.setupGlyf(glyphs)
    # left side bearings = xMin
    glyf = fb.font["glyf"]
    metrics = {}
    for n in names:
        g = glyf[n]
        g.recalcBounds(glyf)
        metrics[n] = (adv[n][0], getattr(g, "xMin", 0) if g.numberOfContours else 0)
    fb.setupHorizontalMetrics(metrics)
    fb.setupHorizontalHeader(ascent=800, descent=-200)
    fb.setupNameTable({"familyName": "Gen", "styleName": "Regular"})
    fb.setupOS2()
    fb.setupPost()
    if spec.get("axes"):
        fb.setupFvar([(t, mn, df, mx, t) for t, mn, df, mx in spec["axes"]], [])
        variations = {}
        for gname, tvs in spec.get("variations", {}).items():
            lst = []
            for tv in tvs:
                region = {t: tuple(v) for t, v in tv["region"].items()}
                deltas = [tuple(d) if d is not None else None for d in tv["deltas"]]
                lst.append(TupleVariation(region, deltas))
            variations[gname] = lst
        fb.setupGvar(variations)
        if spec.get("avar"):
            from fontTools.ttLib import newTable

            avar = newTable("avar")
            avar.segments = {}
            for t, mn, df, mx in spec["axes"]:
                pts = spec["avar"].get(t) or [[-1.0, -1.0], [0.0, 0.0], [1.0, 1.0]]
                avar.segments[t] = {float(a): float(b) for a, b in pts}
            fb.font["avar"] = avar
    buf = io.BytesIO()
    fb.font.save(buf)
    return buf.getvalue()


class _AxisLike:
    """Duck-typed designspace AxisDescriptor for FontBuilder.setupAvar (user-space map)."""

    def __init__(self, tag, mn, df, mx, nmap):
        self.tag = tag
        self.name = tag
        self.minimum, self.default, self.maximum = mn, df, mx
        self.map = []
        if nmap:
            # nmap is given in normalised space; convert to (user, design==user-through-map)
            def denorm(v):
                return df + v * (mx - df) if v >= 0 else df + v * (df - mn)

            self.map = [(denorm(a), denorm(b)) for a, b in nmap]
        self.hidden = False
        self.labelNames = {}


def n_points(g, spec_glyphs):
    if "components" in g:
        return len(g["components"])
    return sum(len(c) for c in g["contours"])


@st.composite
def specs(draw, max_glyphs=5):
    coord = st.integers(-4, 20).map(lambda v: v * 50)
    naxes = draw(st.integers(1, 2))
    axes = []
    for i in range(naxes):
        tag = ["wght", "wdth"][i]
        mn, df, mx = draw(st.sampled_from([(100, 400, 900), (400, 400, 900), (100, 900, 900), (0, 50, 100), (-10, 0, 10)]))
        axes.append([tag, mn, df, mx])
    nsimple = draw(st.integers(1, max_glyphs))
    glyphs = []
    for gi in range(nsimple):
        ncont = draw(st.integers(0, 3))
        contours = []
        for _ in range(ncont):
            n = draw(st.integers(1, 9))
            pts = [[draw(coord), draw(coord), draw(st.booleans())] for _ in range(n)]
            contours.append(pts)
        glyphs.append({"name": "g%d" % gi, "advance": draw(st.integers(0, 24)) * 50, "contours": contours})
    ncomp = draw(st.integers(0, 2))
    for ci in range(ncomp):
        k = draw(st.integers(1, 3))
        comps = []
        for _ in range(k):
            base = draw(st.sampled_from([g["name"] for g in glyphs]))
            tr = draw(st.one_of(st.none(), st.none(), st.sampled_from([[0.5, 0, 0, 0.5], [1, 0, 0, -1], [-1, 0, 0, 1], [0, 1, -1, 0], [1.5, 0.25, 0, 1], [2 ** -14 * 8192, 0, 0, 1.25]])))
            flags = 0x0002  # ARGS_ARE_XY_VALUES
            # ROUND_XY_TO_GRID, (UN)SCALED_COMPONENT_OFFSET. USE_MY_METRICS is not generated: it needs the composite's
            # own hmtx entry and phantom deltas to agree with the component's, corpus fonts cover it
            flags |= draw(st.sampled_from([0, 0x0004, 0x0800, 0x1000]))
            comps.append([base, draw(coord), draw(coord), tr, flags])
        glyphs.append({"name": "c%d" % ci, "advance": draw(st.integers(0, 24)) * 50, "components": comps})
    delta = st.integers(-6, 6).map(lambda v: v * 10)
    variations = {}
    for g in glyphs:
        n = n_points(g, glyphs)
        if n == 0 and "components" not in g:
            if not draw(st.booleans()):
                continue
        ntv = draw(st.integers(0, 3))
        tvs = []
        for _ in range(ntv):
            region = {}
            for tag, mn, df, mx in axes:
                if draw(st.booleans()) or not region:
                    side = draw(st.sampled_from([-1, 1]))
                    if side < 0 and mn == df:
                        side = 1
                    if side > 0 and mx == df:
                        side = -1
                    peak = side * draw(st.sampled_from([1.0, 1.0, 0.5, 0.25]))
                    lo, hi = (0.0, min(1.0, peak * 2) if peak < 1 else 1.0) if peak > 0 else (max(-1.0, peak * 2) if peak > -1 else -1.0, 0.0)
                    if draw(st.booleans()) and abs(peak) == 1.0:
                        lo, hi = (draw(st.sampled_from([0.0, 0.25, 0.5])), 1.0) if peak > 0 else (-1.0, -draw(st.sampled_from([0.0, 0.25, 0.5])))
                    region[tag] = [lo, peak, hi]
            total = n + 4
            mode = draw(st.sampled_from(["all", "sparse", "sparse", "phantom-only"]))
            deltas = []
            for i in range(total):
                if mode == "all":
                    deltas.append([draw(delta), draw(delta)])
                elif mode == "sparse":
                    deltas.append([draw(delta), draw(delta)] if draw(st.integers(0, 2)) == 0 else None)
                else:
                    deltas.append([draw(delta), 0] if i >= n else None)
            if "components" in g and mode == "sparse":
                # composites: IUP does not apply; give explicit deltas
                deltas = [d if d is not None else [0, 0] for d in deltas]
            if all(d is None for d in deltas):
                deltas[-3] = [draw(delta), 0]
            if "components" in g and deltas[n] is not None and draw(st.integers(0, 9)) != 0:
                # composites: the left side-bearing phantom point normally does not move (see known finding
                # C05-composite-left-phantom-delta); keep a moving one in about 10% of the composites
                deltas[n] = [0, 0]
            tvs.append({"region": region, "deltas": deltas})
        if tvs:
            variations[g["name"]] = tvs
    avar = None
    if draw(st.integers(0, 3)) == 0:
        avar = {}
        tag, mn, df, mx = axes[0]
        pts = [[-1.0, -1.0], [0.0, 0.0], [1.0, 1.0]]
        if mx != df:
            pts.insert(2, [0.5, draw(st.sampled_from([0.25, 0.75, 0.6]))])
        if mn != df:
            pts.insert(1, [-0.5, draw(st.sampled_from([-0.25, -0.75]))])
        avar[tag] = pts
    return {"axes": axes, "avar": avar, "glyphs": glyphs, "variations": variations}
