"""C02 — encoding any valid table content and decoding it returns that content, and an
independent OpenType reader sees the same content in the compiled bytes.

One check function per table family.  Each takes a plain-data spec produced by a strategy of
vf/gen_tables.py, builds *fresh* fontTools table objects inside a bare TTFont, compiles, decompiles
into another bare TTFont, compares a plain-data extraction with the spec, and reads the compiled
bytes with readers that share nothing with fontTools (vf/otread.py, vf/sfntref.py, HarfBuzz).
Sibling tables HarfBuzz needs (head, maxp, hhea, ...) are packed here with `struct`.
"""

import struct

from vf import gen_tables as G
from vf import geom, otread, sfntref
from vf.runner import Acc, Allowed, CaseTimeout, HarnessError, fingerprint, hyp_collect, innermost_frame, short, subseed, time_limit

ID = "C02"
LEVEL = "exploration"
RULE = (
    "Hypothesis strategies construct valid content per table family (cmap formats 0/2/4/6/12/13/14 from code point -> glyph "
    "maps; hmtx/vmtx with equal tails; glyf simple glyphs from bounded deltas and arbitrary flag patterns, composites, glyf sizes "
    "next to the loca 0x20000 switch; name records per platform/encoding from the encoding's repertoire; kern 0; post 1/2/3; OS/2 "
    "v0-5; GDEF ClassDef/Coverage over glyph-ID run patterns; GSUB/GPOS lookups via otlLib.builder; fvar/avar/gvar/cvar tuple "
    "variations; COLR v0/v1). Per case: fresh table objects in a bare TTFont -> compile -> decompile into another TTFont -> "
    "plain-data extraction == spec; the compiled bytes are read by struct-only readers (vf/otread, vf/sfntref) and by HarfBuzz "
    "(nominal/variation glyphs, advances, outlines, glyph names, GDEF classes, shaping of probe glyph runs computed from the spec, "
    "outlines at tent peaks, normalised coordinates) and must show the same content. non-trivial = the content is not empty; "
    "labels name the format/encoding branch the compiled bytes show; distinct by (family, spec)"
)
ASSUMPTIONS = [
    "cmap: a code point mapped to glyph 0 is the same as unmapped (the library drops such entries by design); generated maps use glyph ids >= 1; format 0 glyph ids <= 255",
    "cmap format 4 lookups follow the specification's 'first segment whose endCode >= c'; U+FFFF mapped to a real glyph is followed by the mandatory FFFF-FFFF end segment",
    "cmap format 2: a byte value is either a one-byte character or a lead byte, never both",
    "glyf: absolute coordinates and deltas between consecutive points fit int16, instructions are shorter than 32768 bytes, point-matching components name existing points, SCALED and UNSCALED_COMPONENT_OFFSET are not set together",
    "name: strings contain no U+0000 (NameRecord.toUnicode documents recovery heuristics for NUL-interleaved strings); strings are drawn from characters the target Python codec round-trips",
    "Macintosh East Asian name encodings are the library's documented approximations (double-byte base codec plus Apple's single-byte additions)",
    "TupleVariation: tuples without any delta and axes with an all-zero region are dropped by design and not generated; regions satisfy start <= peak <= end, same sign, peak != 0",
    "Coverage tables whose glyph list is not in glyph-id order are outside the specification; the library documents support for them and they are checked for round trip only",
    "HarfBuzz 12.1 implements cmap, hmtx/vmtx, glyf, gvar, avar, post, GDEF, GSUB and GPOS semantics correctly",
    "COLR v1: PaintColrLayers in specs have >= 2 layers and no directly nested PaintColrLayers (the unbuilder flattens those by design); radial gradients are not generated (the builder adjusts them by design)",
]

BIG = G.BIG_GLYPH_COUNT

# ---------------------------------------------------------------------------
# helpers


class Ctx:
    """per-case recorder: failures carry the family as clause prefix"""

    def __init__(self, acc, family, spec):
        self.acc = acc
        self.family = family
        self.case = {"family": family, "spec": spec}
        self.labels = []
        self.nfail = 0

    def fail(self, stage, kind, detail, where=""):
        self.nfail += 1
        self.acc.fail("%s:%s" % (self.family, stage), kind, detail, self.case, where)

    def exc(self, stage, e):
        self.nfail += 1
        self.acc.fail_exc("%s:%s" % (self.family, stage), e, self.case)

    def label(self, *ls):
        for l in ls:
            if l not in self.labels:
                self.labels.append(l)

    def call(self, stage, fn, *a, **k):
        """run code under test; an exception is a failure of `stage` and aborts the case"""
        try:
            return fn(*a, **k)
        except (KeyboardInterrupt, MemoryError, HarnessError, CaseTimeout):
            raise
        except Exception as e:
            self.exc(stage, e)
            raise Allowed(e)

    def read(self, stage, fn, *a, **k):
        """run an independent reader; ReadError / ParseError mean the bytes are not valid for an independent reader"""
        try:
            return fn(*a, **k)
        except (otread.ReadError, sfntref.ParseError) as e:
            self.fail(stage, "independent-reader-rejects", str(e))
            raise Allowed(e)


_NAMES = {}


def glyph_names(n):
    if n not in _NAMES:
        _NAMES[n] = ["g%d" % i for i in range(n)]
    return _NAMES[n]


def new_font(n):
    from fontTools.ttLib import TTFont

    f = TTFont()
    f.setGlyphOrder(list(glyph_names(n)) if n < 5000 else glyph_names(n))
    return f


def gid_of(name):
    return int(name[1:])


def head_bytes(locfmt=0, upem=1000):
    return struct.pack(">HHLLLHHQQhhhhHHhhh", 1, 0, 0x00010000, 0, 0x5F0F3CF5, 0, upem, 0, 0, 0, 0, 0, 0, 0, 8, 2, locfmt, 0)


def maxp_bytes(n, truetype=False):
    if truetype:
        return struct.pack(">LH13H", 0x00010000, n, *([0] * 13))
    return struct.pack(">LH", 0x00005000, n)


def hea_bytes(nlong, version=0x00010000):
    # hhea / vhea share their layout; only the metric count matters here
    return struct.pack(">LhhhHhhhhhhhhhhhH", version, 800, -200, 0, 1000, 0, 0, 0, 1, 0, 0, 0, 0, 0, 0, 0, nlong)


def flat_hmtx(n, adv=500):
    return struct.pack(">Hh", adv, 0) + b"\0\0" * (n - 1)


def make_sfnt(tables):
    return sfntref.build_sfnt(b"\0\1\0\0", sorted(tables.items()))


def hb_font(tables):
    from vf.hbref import HBFont

    return HBFont(make_sfnt(tables))


def stub_table(tag, **attrs):
    from fontTools.ttLib import newTable

    t = newTable(tag)
    for k, v in attrs.items():
        setattr(t, k, v)
    return t


def first_diff(a, b, limit=6):
    """short description of the difference between two mappings"""
    ka, kb = set(a), set(b)
    out = []
    for k in sorted(ka - kb)[:limit]:
        out.append("missing %r->%r" % (k, a[k]))
    for k in sorted(kb - ka)[:limit]:
        out.append("extra %r->%r" % (k, b[k]))
    for k in sorted(ka & kb):
        if a[k] != b[k]:
            out.append("%r: expected %r got %r" % (k, a[k], b[k]))
            if len(out) >= limit:
                break
    return "; ".join(out[:limit])


# ---------------------------------------------------------------------------
# cmap

_HB_ORDER = [(3, 10), (0, 6), (0, 4), (3, 1), (0, 3), (0, 2), (0, 1), (0, 0)]


def _sample_codes(mapping, limit=400):
    keys = sorted(mapping)
    if len(keys) <= limit:
        return keys
    step = len(keys) // limit + 1
    s = set(keys[::step])
    s.update(keys[:20])
    s.update(keys[-20:])
    for a, b in zip(keys, keys[1:]):
        if b != a + 1 or mapping[b] != mapping[a] + 1:
            s.add(a)
            s.add(b)
            if len(s) > 3 * limit:
                break
    return sorted(s)


def _unmapped_probes(mapping, maxcp):
    out = set()
    for k in _sample_codes(mapping, 120):
        for c in (k - 1, k + 1):
            if 0 <= c <= maxcp and c not in mapping:
                out.add(c)
    for c in (0, 0x20, 0xFFFE, 0xFFFF, 0x10000, 0x10FFFF, maxcp):
        if 0 <= c <= maxcp and c not in mapping:
            out.add(c)
    return sorted(out)


def check_cmap(spec, cx):
    from fontTools.ttLib import newTable
    from fontTools.ttLib.tables._c_m_a_p import CmapSubtable

    n = spec["nglyphs"]
    subs = []
    for s in spec["subtables"]:
        m = G.expand_segs(s["segs"]) if s["fmt"] != 14 else None
        if s["fmt"] in (12, 13) and not m:
            cx.label("cmap%d:empty-subtable" % s["fmt"])
        if s["fmt"] == 2 and m and max(m) < 256:
            cx.label("cmap2:one-byte-codes-only")
        if s["fmt"] == 2 and m:
            groups = {}
            for c, g in m.items():
                groups.setdefault(c >> 8, []).append(g)
            if any(min(v) > 0x7FFF for v in groups.values()):
                cx.label("cmap2:subheader-all-gids>32767")
        subs.append((s, m))
    font = new_font(n)
    names = glyph_names(n)
    table = newTable("cmap")
    table.tableVersion = 0
    table.tables = []
    shared = {}
    expected = []
    for s, m in subs:
        st = CmapSubtable.newSubtable(s["fmt"])
        st.platformID, st.platEncID = s["pid"], s["eid"]
        if s["fmt"] == 14:
            st.language = 0xFF
            st.cmap = {}
            uvs = {}
            exp_uvs = {}
            for sel, defaults, nondef in s["uvs"]:
                lst = []
                e = {}
                kept = sorted({c for start, cnt in defaults for c in range(start, start + cnt)})
                if kept and _longest_run(kept) > 256:
                    cx.label("cmap14:default-run>256")
                elif kept and _longest_run(kept) == 256:
                    cx.label("cmap14:default-run=256")
                for c in kept:
                    lst.append((c, None))
                    e[c] = None
                for c, g in nondef:
                    lst.append((c, names[g]))
                    e[c] = g
                uvs[sel] = lst
                exp_uvs[sel] = e
            st.uvsDict = uvs
            expected.append(((s["pid"], s["eid"], 0xFF), 14, exp_uvs))
        else:
            st.language = s["lang"]
            key = (s["fmt"], s["lang"], fingerprint(s["segs"]))
            if key not in shared:
                shared[key] = {c: names[g] for c, g in m.items()}
            st.cmap = shared[key]  # copies share one dict object, as fonts read from disk do
            expected.append(((s["pid"], s["eid"], s["lang"]), s["fmt"], m))
        table.tables.append(st)
    expected.sort(key=lambda e: e[0])

    data = cx.call("compile", table.compile, font)

    # --- round trip
    font2 = new_font(n)
    t2 = newTable("cmap")

    def decompile():
        t2.decompile(data, font2)
        out = []
        for st in t2.tables:
            if st.format == 14:
                d = {sel: {c: (None if g is None else gid_of(g)) for c, g in lst} for sel, lst in st.uvsDict.items()}
                dup = any(len(lst) != len(set(c for c, g in lst)) for lst in st.uvsDict.values())
                out.append(((st.platformID, st.platEncID, 0xFF), 14, d, dup))
            else:
                out.append(((st.platformID, st.platEncID, st.language), st.format, {c: gid_of(g) for c, g in st.cmap.items()}, False))
        return out

    got = cx.call("decompile", decompile)
    if t2.tableVersion != 0:
        cx.fail("roundtrip", "tableVersion", "0 -> %r" % t2.tableVersion)
    if [(g[0], g[1]) for g in got] != [(e[0], e[1]) for e in expected]:
        cx.fail("roundtrip", "subtable-list", "expected %r, got %r" % ([(e[0], e[1]) for e in expected], [(g[0], g[1]) for g in got]))
    else:
        for e, g in zip(expected, got):
            if g[3]:
                cx.fail("roundtrip", "uvs-duplicate-entries:fmt14", "%r" % (e[0],))
            if e[2] != g[2]:
                cx.fail("roundtrip", "mapping:fmt%d" % e[1], "subtable %r: %s" % (e[0], first_diff(e[2], g[2])))

    # --- independent reader
    ver, rsubs = cx.read("reader", otread.parse_cmap, data)
    if ver != 0 or len(rsubs) != len(expected):
        cx.fail("reader", "directory", "version %r, %d subtables, expected %d" % (ver, len(rsubs), len(expected)))
        return
    offsets = {}
    for e, r in zip(expected, rsubs):
        (pid, eid, lang), fmt, m = e
        if (r.platformID, r.platEncID, r.format) != (pid, eid, fmt) or (fmt != 14 and r.language != lang):
            cx.fail("reader", "subtable-header:fmt%d" % fmt, "expected %r fmt %d, read (%d, %d, %r) fmt %d" % (e[0], fmt, r.platformID, r.platEncID, r.language, r.format))
            continue
        offsets.setdefault(r.offset, []).append(e)
        _cmap_labels(cx, r, m)
        if fmt == 14:
            got_uvs = {}
            for sel, (ranges, non) in r.uvs.items():
                d = {}
                for st_, cnt in ranges:
                    for c in range(st_, st_ + cnt):
                        d[c] = None
                for c, g in non.items():
                    if c in d:
                        cx.fail("reader", "uvs-both-default-and-nondefault", "selector %X U+%04X" % (sel, c))
                    d[c] = g
                got_uvs[sel] = d
            if got_uvs != m:
                bad = [s_ for s_ in set(m) | set(got_uvs) if m.get(s_) != got_uvs.get(s_)]
                cx.fail("reader", "uvs-content", "selector %X: %s" % (bad[0], first_diff(m.get(bad[0], {}), got_uvs.get(bad[0], {}))))
            continue
        items = cx.read("reader", r.items)
        if items != m:
            cx.fail("reader", "mapping:fmt%d" % fmt, "subtable %r: %s" % (e[0], first_diff(m, items)))
        maxcp = 0xFF if fmt == 0 else 0xFFFF if fmt in (2, 4, 6) else 0x10FFFF
        for c in _sample_codes(m):
            if r.get(c) != m[c]:
                cx.fail("reader", "lookup:fmt%d" % fmt, "U+%04X -> %d, expected %d" % (c, r.get(c), m[c]))
                break
        for c in _unmapped_probes(m, maxcp):
            if fmt == 2 and c < 256 and any((k >> 8) == c for k in m):
                continue  # a lead byte is not a character
            if r.get(c) != 0:
                cx.fail("reader", "lookup-unmapped:fmt%d" % fmt, "U+%04X -> %d, expected unmapped" % (c, r.get(c)))
                break
    if any(len(v) > 1 for v in offsets.values()):
        cx.label("cmap:shared-subtable-data")

    # --- HarfBuzz (chooses one Unicode subtable)
    # HarfBuzz selects by (platform, encoding) only; if the subtable it selects is one whose
    # format it does not implement (2) the font has no usable cmap for it: nothing to compare.
    cand = [e for e in expected if e[0][:2] in _HB_ORDER and e[1] != 14]
    if any(e[0][:2] == (3, 0) for e in expected):
        cand = []  # HarfBuzz prefers a symbol subtable and gives it symbol-font semantics
    cand.sort(key=lambda e: _HB_ORDER.index(e[0][:2]))
    if cand and cand[0][1] == 2:
        cx.label("cmap:harfbuzz-selects-fmt2-skipped")
        cand = []
    if cand:
        (pid, eid, lang), fmt, m = cand[0]
        hb = hb_font({"cmap": data, "head": head_bytes(), "maxp": maxp_bytes(n)})
        cx.label("cmap:harfbuzz")
        for c in _sample_codes(m, 300):
            g = hb.nominal(c)
            if g != m[c]:
                cx.fail("harfbuzz", "nominal:fmt%d" % fmt, "U+%04X -> %r, expected %d" % (c, g, m[c]))
                break
        for c in _unmapped_probes(m, 0x10FFFF):
            g = hb.nominal(c)
            if g:
                cx.fail("harfbuzz", "nominal-unmapped:fmt%d" % fmt, "U+%04X -> %r, expected unmapped" % (c, g))
                break
        for e in expected:
            if e[1] != 14:
                continue
            for sel, d in e[2].items():
                for c in list(d)[:200]:
                    want = d[c] if d[c] is not None else m.get(c)
                    g = hb.variation_glyph(c, sel)
                    if (g or None) != (want or None):
                        cx.fail("harfbuzz", "variation-glyph", "U+%04X VS %X -> %r, expected %r (%s)" % (c, sel, g, want, "default" if d[c] is None else "non-default"))
                        break
    return any(e[2] for e in expected)


def _longest_run(cps):
    best = run = 1
    for a, b in zip(cps, cps[1:]):
        run = run + 1 if b == a + 1 else 1
        best = max(best, run)
    return best


def _cmap_labels(cx, r, m):
    f = r.format
    i = r.info
    if f == 4:
        cx.label("cmap4")
        if i["idRangeOffset"]:
            cx.label("cmap4:idRangeOffset")
        if i["idDeltaOnly"]:
            cx.label("cmap4:idDelta")
        if i["negDelta"]:
            cx.label("cmap4:idDelta-wraps")
        if 0xFFFF in m:
            cx.label("cmap4:U+FFFF-mapped")
        if not m:
            cx.label("cmap4:empty")
        if i["segCount"] > 16:
            cx.label("cmap4:>16-segments")
    elif f in (12, 13):
        cx.label("cmap%d" % f)
        if i["entries"] > 0x10000:
            cx.label("cmap%d:>64k" % f)
        if any(c > 0xFFFF for c in (min(m), max(m))) if m else False:
            cx.label("cmap%d:supplementary" % f)
        if i["nGroups"] > 1:
            cx.label("cmap%d:multiple-groups" % f)
        if 0xFFFF in m:
            cx.label("cmap%d:U+FFFF-mapped" % f)
    elif f == 14:
        cx.label("cmap14")
        if i["default"]:
            cx.label("cmap14:default-uvs")
        if i["nondefault"]:
            cx.label("cmap14:non-default-uvs")
    elif f == 2:
        cx.label("cmap2")
        if i["subheaders"] > 2:
            cx.label("cmap2:multiple-lead-bytes")
    else:
        cx.label("cmap%d" % f)
        if f == 6 and not m:
            cx.label("cmap6:empty")
    if m and f != 14 and max(m.values()) > 0x7FFF:
        cx.label("cmap:gid>32767")


# ---------------------------------------------------------------------------
# hmtx / vmtx


def check_metrics(spec, cx):
    tag = spec["tag"]
    heatag = "hhea" if tag == "hmtx" else "vhea"
    attr = "numberOfHMetrics" if tag == "hmtx" else "numberOfVMetrics"
    n = spec["n"]
    names = glyph_names(n)
    expected = list(zip(spec["adv"], spec["sb"]))

    font = new_font(n)
    font["maxp"] = stub_table("maxp", numGlyphs=n)
    hea = None
    if spec["hea"]:
        hea = font[heatag] = stub_table(heatag, **{attr: 0})
    t = stub_table(tag, metrics={names[i]: expected[i] for i in range(n)})
    data = cx.call("compile", t.compile, font)
    nlong = getattr(hea, attr) if hea is not None else n

    font2 = new_font(n)
    font2["maxp"] = stub_table("maxp", numGlyphs=n)
    if spec["hea"]:
        font2[heatag] = stub_table(heatag, **{attr: nlong})
    t2 = stub_table(tag)
    cx.call("decompile", t2.decompile, data, font2)
    got = [tuple(t2.metrics.get(names[i], (None, None))) for i in range(n)]
    if got != expected or len(t2.metrics) != n:
        bad = [i for i in range(n) if got[i] != expected[i]]
        cx.fail("roundtrip", "metrics", "numberOfMetrics %d; glyph %r: expected %r got %r" % (nlong, bad[:1], [expected[i] for i in bad[:3]], [got[i] for i in bad[:3]]))

    # the trimming must be maximal: the advance before the trimmed tail differs (or one long metric is left)
    tail = 1
    while tail < n and spec["adv"][n - 1 - tail] == spec["adv"][n - 1]:
        tail += 1
    best = n - tail + 1
    if spec["hea"]:
        if nlong != best:
            cx.fail("encoding", "numberOfMetrics-not-minimal", "%d glyphs, %d trailing equal advances: numberOfMetrics %d, expected %d" % (n, tail, nlong, best))
        cx.label("%s:trimmed" % tag if nlong < n else "%s:untrimmed" % tag)
        if nlong == 1 and n > 1:
            cx.label("%s:all-equal" % tag)
    else:
        cx.label("%s:no-header-table" % tag)
    if any(s < 0 for s in spec["sb"]):
        cx.label("%s:negative-sidebearing" % tag)
    if any(a > 32767 for a in spec["adv"]):
        cx.label("%s:advance>32767" % tag)

    read = cx.read("reader", otread.parse_metrics, data, nlong, n)
    if read != expected:
        bad = [i for i in range(n) if read[i] != expected[i]]
        cx.fail("reader", "metrics", "numberOfMetrics %d; glyph %d: expected %r read %r" % (nlong, bad[0], expected[bad[0]], read[bad[0]]))

    tables = {"head": head_bytes(), "maxp": maxp_bytes(n), tag: data, heatag: hea_bytes(nlong, 0x00010000 if tag == "hmtx" else 0x00011000)}
    if tag == "vmtx":
        tables["hhea"] = hea_bytes(1)
        tables["hmtx"] = flat_hmtx(n)
    hb = hb_font(tables)
    for i in range(n):
        a = hb.h_advance(i) if tag == "hmtx" else -hb.v_advance(i)
        if spec["adv"][i] > 32767:
            continue  # HarfBuzz scales advances through an int16 (em_scale_x); such advances are checked by the struct reader only
        if a != spec["adv"][i]:
            cx.fail("harfbuzz", "advance", "glyph %d of %d (numberOfMetrics %d): HarfBuzz %r, expected %r" % (i, n, nlong, a, spec["adv"][i]))
            break
    return True


# ---------------------------------------------------------------------------
# glyf / loca


def _points_to_ops(contours):
    """TrueType contour points -> segment-pen calls, written from the glyf chapter (implied on-curve points are
    made explicit by vf.geom); independent of fontTools' Glyph.draw"""
    ops = []
    for c in contours:
        pts = [((x, y), bool(f & 1)) for x, y, f in c]
        n = len(pts)
        on = [i for i, p in enumerate(pts) if p[1]]
        if not on:
            ops.append(("qCurveTo", tuple(p[0] for p in pts) + (None,)))
            ops.append(("closePath", ()))
            continue
        s = on[0]
        rot = pts[s:] + pts[:s]
        ops.append(("moveTo", (rot[0][0],)))
        pending = []
        for p, o in rot[1:] + [rot[0]]:
            if o:
                if pending:
                    ops.append(("qCurveTo", tuple(pending) + (p,)))
                    pending = []
                else:
                    ops.append(("lineTo", (p,)))
            else:
                pending.append(p)
        ops.append(("closePath", ()))
    return ops


def _build_glyph(g, names):
    from fontTools.ttLib.tables import ttProgram
    from fontTools.ttLib.tables._g_l_y_f import Glyph, GlyphComponent, GlyphCoordinates

    gl = Glyph()
    if g is None:
        return gl
    if "pts" in g:
        pts, flags, ends = [], [], []
        for c in g["pts"]:
            for x, y, f in c:
                pts.append((x, y))
                flags.append(f)
            ends.append(len(pts) - 1)
        gl.numberOfContours = len(ends)
        gl.coordinates = GlyphCoordinates(pts)
        gl.flags = bytearray(flags)
        gl.endPtsOfContours = ends
        gl.program = ttProgram.Program()
        gl.program.fromBytecode(G.instr_bytes(g["instr"]))
        return gl
    gl.numberOfContours = -1
    gl.components = []
    for gid, flags, mode, a1, a2, tr in g["comps"]:
        c = GlyphComponent()
        c.glyphName = names[gid]
        c.flags = flags
        if mode == "xy":
            c.x, c.y = a1, a2
        else:
            c.firstPt, c.secondPt = a1, a2
        if tr is not None:
            c.transform = [[tr[0] / 16384, tr[1] / 16384], [tr[2] / 16384, tr[3] / 16384]]
        gl.components.append(c)
    ib = G.instr_bytes(g["instr"])
    if ib is not None:
        gl.program = ttProgram.Program()
        gl.program.fromBytecode(ib)
    return gl


def _expected_glyph(g):
    """plain data the round trip and the independent reader must show"""
    if g is None:
        return None
    if "pts" in g:
        pts = [(x, y) for c in g["pts"] for x, y, f in c]
        flags = [f & 0x41 for c in g["pts"] for x, y, f in c]
        ends = []
        k = 0
        for c in g["pts"]:
            k += len(c)
            ends.append(k - 1)
        return ("simple", ends, pts, flags, G.instr_bytes(g["instr"]))
    comps = []
    for gid, flags, mode, a1, a2, tr in g["comps"]:
        comps.append((gid, flags, mode, a1, a2, tuple(tr) if tr is not None else None))
    return ("composite", comps, G.instr_bytes(g["instr"]))


def _extract_glyph(gl, glyf):
    from fontTools.misc.fixedTools import floatToFixed

    if gl.numberOfContours == 0:
        return None
    if gl.numberOfContours > 0:
        return ("simple", list(gl.endPtsOfContours), [tuple(p) for p in gl.coordinates], list(gl.flags), bytes(gl.program.getBytecode()))
    comps = []
    for c in gl.components:
        tr = None
        if hasattr(c, "transform"):
            tr = tuple(floatToFixed(v, 14) for row in c.transform for v in row)
        if hasattr(c, "firstPt"):
            comps.append((gid_of(c.glyphName), c.flags, "pt", c.firstPt, c.secondPt, tr))
        else:
            comps.append((gid_of(c.glyphName), c.flags, "xy", c.x, c.y, tr))
    return ("composite", comps, bytes(gl.program.getBytecode()) if hasattr(gl, "program") else None)


def _same_transform(a, b):
    """component transforms as 4 F2Dot14 integers; None == no transform"""
    return a == b


def check_glyf(spec, cx):
    glyphs = spec["glyphs"]
    n = len(glyphs)
    names = glyph_names(n)
    font = new_font(n)
    head = font["head"] = stub_table("head", indexToLocFormat=0, glyphDataFormat=0)
    font["maxp"] = stub_table("maxp", numGlyphs=n)
    loca = font["loca"] = stub_table("loca")
    glyf = stub_table("glyf")
    glyf.glyphOrder = list(names)
    glyf.glyphs = {names[i]: _build_glyph(g, names) for i, g in enumerate(glyphs)}
    glyf.padding = spec["padding"]
    font["glyf"] = glyf
    data = cx.call("compile", glyf.compile, font)
    locdata = cx.call("compile", loca.compile, font)
    locfmt = head.indexToLocFormat
    expected = [_expected_glyph(g) for g in glyphs]

    # --- round trip
    font2 = new_font(n)
    font2["head"] = stub_table("head", indexToLocFormat=locfmt, glyphDataFormat=0)
    font2["maxp"] = stub_table("maxp", numGlyphs=n)
    loca2 = font2["loca"] = stub_table("loca")
    glyf2 = stub_table("glyf")
    font2["glyf"] = glyf2

    def decompile():
        loca2.decompile(locdata, font2)
        glyf2.decompile(data, font2)
        return [_extract_glyph(glyf2[names[i]], glyf2) for i in range(n)]

    got = cx.call("decompile", decompile)
    for i in range(n):
        if got[i] != expected[i]:
            e, g = expected[i], got[i]
            kind = (e or g)[0]
            what = "glyph-kind"
            if e and g and e[0] == g[0]:
                what = [k for k, (x, y) in zip(("kind", "endPts", "points", "flags", "instructions") if kind == "simple" else ("kind", "components", "instructions"), zip(e, g)) if x != y][0]
            cx.fail("roundtrip", "%s:%s" % (kind, what), "glyph %d: expected %s got %s" % (i, short(e, 200), short(g, 200)))
            break

    # --- independent reader
    T = {"head": head_bytes(locfmt), "loca": locdata, "glyf": data}
    layout = cx.read("reader", sfntref.glyf_layout, T)
    if len(layout) != n:
        cx.fail("reader", "loca-count", "%d loca entries for %d glyphs" % (len(layout) + 1, n))
        return True
    total = layout[-1][0] + layout[-1][1] if layout else 0
    if total > len(data) or (len(data) - total >= 4 and total):
        cx.fail("reader", "glyf-length", "loca ends at %d, glyf table has %d bytes" % (total, len(data)))
    odd = False
    consumed = []
    for i in range(n):
        d = cx.read("reader", sfntref.glyf_points, T, i)
        consumed.append(d["consumed"] if d else 0)
        off, ln = layout[i]
        e = expected[i]
        if e is None:
            if d is not None and d["nc"] != 0:
                cx.fail("reader", "empty-glyph", "glyph %d has %d bytes" % (i, ln))
            continue
        if d is None:
            cx.fail("reader", "glyph-missing", "glyph %d expected %s, loca gives no data" % (i, e[0]))
            continue
        if ln - d["consumed"] not in (0, 1, 2, 3):
            cx.fail("reader", "glyph-padding", "glyph %d: %d bytes in loca, %d used" % (i, ln, d["consumed"]))
        if d["consumed"] % 2:
            odd = True
        if e[0] == "simple":
            r = ("simple", d["endPts"], d["pts"], [f & 0x41 for f in d["rawflags"]], d["instr"]) if d["nc"] > 0 else ("other",)
            if r != e:
                what = [k for k, (x, y) in zip(("kind", "endPts", "points", "flags", "instructions"), zip(e, r)) if x != y] if len(r) == 5 else ["kind"]
                cx.fail("reader", "simple:%s" % what[0], "glyph %d: expected %s read %s" % (i, short(e, 200), short(r, 200)))
                continue
            xs = [p[0] for p in e[2]]
            ys = [p[1] for p in e[2]]
            if d["bbox"] != (min(xs), min(ys), max(xs), max(ys)):
                cx.fail("reader", "simple:bbox", "glyph %d: header bbox %r, points %r" % (i, d["bbox"], (min(xs), min(ys), max(xs), max(ys))))
            if any(f & 0x80 for f in d["rawflags"]):
                cx.fail("reader", "simple:reserved-flag-bit", "glyph %d" % i)
            fl = d["rawflags"]
            _glyf_flag_labels(cx, fl, e)
        else:
            if d["nc"] >= 0:
                cx.fail("reader", "composite:kind", "glyph %d: numberOfContours %d" % (i, d["nc"]))
                continue
            r = [(c["gid"], c["flags"] | (c["rawflags"] & 0x0010), "xy" if c["xy"] else "pt", c["arg1"], c["arg2"], c["transform"]) for c in d["components"]]
            if r != e[1] or d["instr"] != e[2]:
                cx.fail("reader", "composite:components" if r != e[1] else "composite:instructions", "glyph %d: expected %s read %s / %r" % (i, short(e[1], 200), short(r, 200), d["instr"]))
                continue
            for k, c in enumerate(d["components"]):
                last = k == len(d["components"]) - 1
                if bool(c["rawflags"] & 0x20) == last:
                    cx.fail("reader", "composite:MORE_COMPONENTS", "glyph %d component %d flags %04x" % (i, k, c["rawflags"]))
                cx.label("glyf:composite")
                cx.label("glyf:args-words" if c["rawflags"] & 1 else "glyf:args-bytes")
                cx.label("glyf:args-xy" if c["xy"] else "glyf:point-matching")
                f = c["rawflags"]
                cx.label("glyf:2x2" if f & 0x80 else "glyf:xy-scale" if f & 0x40 else "glyf:scale" if f & 0x08 else "glyf:no-transform")
                want_tr = e[1][k][5]
                if want_tr is not None and bool(want_tr[1]) != bool(want_tr[2]):
                    cx.label("glyf:2x2-exactly-one-off-diagonal-zero")
                if f & 0x200:
                    cx.label("glyf:USE_MY_METRICS")
                if f & 0x4:
                    cx.label("glyf:ROUND_XY_TO_GRID")
                g2 = spec["glyphs"][c["gid"]]
                if g2 is not None and "comps" in g2:
                    cx.label("glyf:nested-composite")
            if d["instr"] is not None:
                cx.label("glyf:composite-instructions")
    cx.label("loca:long" if locfmt else "loca:short")
    if odd:
        cx.label("glyf:odd-glyph-length")
        if locfmt == 0:
            cx.label("glyf:odd-length-padded-for-short-loca")
        elif total < 0x20000:
            cx.label("loca:long-because-of-odd-offsets")
    if spec.get("loca"):
        cx.label("glyf:size-near-0x20000")
    if spec.get("exact"):
        raw = sum(d_ or 0 for d_ in consumed)
        if raw != spec["exact"]:
            cx.fail("encoding", "glyph-sizes", "filler glyphs were generated for %d bytes of glyph data, %d found" % (spec["exact"], raw))
        nodd = sum(1 for d_ in consumed if d_ and d_ % 2)
        cx.label("loca:exact-%s" % ("T+odd<0x20000" if raw + nodd < 0x20000 else "T<0x20000<=T+odd" if raw < 0x20000 else "T>=0x20000"))
        if spec["padding"] == 1 and (raw + nodd < 0x20000) != (locfmt == 0):
            cx.fail("encoding", "short-loca-not-used-when-padding-fits", "%d bytes + %d odd glyphs: indexToLocFormat %d" % (raw, nodd, locfmt))
    want_long = total >= 0x20000 or total % 2 == 1 or any(o % 2 for o, l in layout)
    if bool(locfmt) != want_long:
        cx.fail("encoding", "loca-format", "indexToLocFormat %d for a glyf table of %d bytes" % (locfmt, total))

    # --- HarfBuzz outlines of the simple glyphs
    if not spec.get("loca") or True:
        # left side bearing = xMin, so that HarfBuzz does not shift the outline (it aligns xMin with the side bearing)
        hm = b"".join(struct.pack(">Hh", 500, min(p[0] for p in e[2]) if e is not None and e[0] == "simple" else 0) for e in expected)
        hb = hb_font({"head": head_bytes(locfmt), "maxp": maxp_bytes(n, True), "hhea": hea_bytes(n), "hmtx": hm, "loca": locdata, "glyf": data})
        for i, g in enumerate(glyphs):
            if g is None or "pts" not in g:
                continue
            if sum(len(c) for c in g["pts"]) > 400:
                continue
            A = [c for c in geom.canon(_points_to_ops(g["pts"]), tol=0.01) if c["segs"]]
            B = [c for c in geom.canon(hb.draw(i), tol=0.01) if c["segs"]]
            ok, detail = geom.same_geometry(A, B, tol=0.01)
            if not ok:
                ok, _ = geom.same_geometry(geom.merge_collinear(A), geom.merge_collinear(B), tol=0.01)
            if not ok:
                cx.fail("harfbuzz", "outline", "glyph %d: %s" % (i, detail))
                break
    return any(g is not None for g in glyphs)


def _glyf_flag_labels(cx, fl, e):
    # flags as stored (before expansion of repeats is not available from sfntref; use the expanded list)
    if any(a == b for a, b in zip(fl, fl[1:])):
        cx.label("glyf:repeat-flag")
    run = best = 1
    for a, b in zip(fl, fl[1:]):
        run = run + 1 if a == b else 1
        best = max(best, run)
    if best > 256:
        cx.label("glyf:repeat>255")
    if any(f & 0x02 for f in fl) or any(f & 0x04 for f in fl):
        cx.label("glyf:short-vector")
    if any(not f & 0x12 for f in fl) or any(not f & 0x24 for f in fl):
        cx.label("glyf:long-vector")
    if any((f & 0x12) == 0x10 for f in fl):
        cx.label("glyf:same-x")
    if fl and fl[0] & 0x40:
        cx.label("glyf:overlap-simple")
    if any(f & 0x40 for f in fl[1:]):
        cx.label("glyf:overlap-bit-on-later-point")
    ends, flags = e[1], e[3]
    s = 0
    for en in ends:
        if not any(f & 1 for f in flags[s : en + 1]):
            cx.label("glyf:all-off-curve-contour")
        s = en + 1
    if e[4]:
        cx.label("glyf:instructions")


# ---------------------------------------------------------------------------
# name


def check_name(spec, cx):
    from fontTools.ttLib.tables._n_a_m_e import makeName

    font = new_font(2)
    t = stub_table("name")
    t.names = [makeName(s, nid, pid, eid, lang) for pid, eid, lang, nid, s in spec["records"]]
    data = cx.call("compile", t.compile, font)
    expected = sorted((pid, eid, lang, nid, s) for pid, eid, lang, nid, s in spec["records"])

    t2 = stub_table("name")

    def decompile():
        t2.decompile(data, new_font(2))
        return [(r.platformID, r.platEncID, r.langID, r.nameID, r.toUnicode()) for r in t2.names]

    got = cx.call("decompile", decompile)
    if sorted(got) != expected:
        bad = [e for e in expected if e not in got][:1] or [g for g in got if g not in expected][:1]
        cx.fail("roundtrip", "records:%s" % _name_label(bad[0]), "expected %r got %r" % (bad, [g for g in got if g[:4] == bad[0][:4]]))

    recs = cx.read("reader", otread.parse_name, data)
    read = []
    for pid, eid, lang, nid, raw in recs:
        codec = otread.name_codec(pid, eid, lang)
        if codec is None:
            codec = "ascii"  # encodings neither side knows carry ASCII in generated cases
        try:
            read.append((pid, eid, lang, nid, otread.decode_name(raw, codec)))
        except UnicodeDecodeError as e:
            cx.fail("reader", "undecodable:%s" % _name_label((pid, eid, lang)), "record (%d,%d,%d,%d) bytes %s: %s" % (pid, eid, lang, nid, raw.hex()[:60], e))
            return True
    if sorted(read) != expected:
        bad = [e for e in expected if e not in read][:1] or [g for g in read if g not in expected][:1]
        cx.fail("reader", "records:%s" % _name_label(bad[0]), "expected %r read %r" % (bad, [g for g in read if g[:4] == bad[0][:4]]))
    for e in expected:
        cx.label("name:%s" % _name_label(e))
        if any(ord(ch) > 0xFFFF for ch in e[4]):
            cx.label("name:utf16-supplementary")
    if len(set(r[4] for r in recs)) < len(recs):
        cx.label("name:shared-string-storage")
    return bool(expected)


def _name_label(rec):
    pid, eid, lang = rec[:3]
    c = otread.name_codec(pid, eid, lang)
    if isinstance(c, tuple):
        return "mac-" + c[1]
    return c or "unknown-encoding-ascii"


# ---------------------------------------------------------------------------
# GDEF: ClassDef and Coverage over glyph-ID patterns


def check_gdef(spec, cx):
    from fontTools.ttLib.tables import otTables as ot

    n = spec["nglyphs"]
    names = glyph_names(n)
    font = new_font(n)
    exp_gcd = G.runs_to_classes(spec["gcd"])
    exp_macd = G.runs_to_classes(spec["macd"]) if spec["macd"] is not None else None
    sets = [G.runs_to_gids(r) for r in spec["sets"]]
    if spec.get("unsorted"):
        sets.append(list(spec["unsorted"]))
    t = stub_table("GDEF")
    g = t.table = ot.GDEF()
    g.Version = 0x00010002 if sets else 0x00010000
    g.GlyphClassDef = ot.ClassDef()
    g.GlyphClassDef.classDefs = {names[k]: v for k, v in exp_gcd.items()}
    g.AttachList = None
    g.LigCaretList = None
    g.MarkAttachClassDef = None
    if exp_macd is not None:
        g.MarkAttachClassDef = ot.ClassDef()
        g.MarkAttachClassDef.classDefs = {names[k]: v for k, v in exp_macd.items()}
    g.MarkGlyphSetsDef = None
    if sets:
        m = g.MarkGlyphSetsDef = ot.MarkGlyphSetsDef()
        m.MarkSetTableFormat = 1
        m.Coverage = []
        for s in sets:
            c = ot.Coverage()
            c.glyphs = [names[k] for k in s]
            m.Coverage.append(c)
        m.MarkSetCount = len(sets)
    data = cx.call("compile", t.compile, font)

    t2 = stub_table("GDEF")

    def decompile():
        t2.decompile(data, new_font(n))
        g2 = t2.table
        gcd = {gid_of(k): v for k, v in g2.GlyphClassDef.classDefs.items()} if g2.GlyphClassDef is not None else None
        macd = {gid_of(k): v for k, v in g2.MarkAttachClassDef.classDefs.items()} if g2.MarkAttachClassDef is not None else None
        ms = getattr(g2, "MarkGlyphSetsDef", None)
        got_sets = [[gid_of(k) for k in c.glyphs] for c in ms.Coverage] if ms is not None else []
        return gcd, macd, got_sets

    gcd, macd, got_sets = cx.call("decompile", decompile)
    if gcd != exp_gcd:
        cx.fail("roundtrip", "GlyphClassDef", first_diff(exp_gcd, gcd or {}))
    if macd != exp_macd:
        cx.fail("roundtrip", "MarkAttachClassDef", first_diff(exp_macd or {}, macd or {}))
    if got_sets != sets:
        cx.fail("roundtrip", "MarkGlyphSets-coverage", "expected %s got %s" % (short(sets, 200), short(got_sets, 200)))

    sorted_sets = all(s == sorted(s) for s in sets)
    if not sorted_sets:
        cx.label("coverage:unsorted-glyph-list")
        try:
            r = otread.parse_gdef(data)
        except otread.ReadError:
            r = None  # outside the specification: the independent reader may refuse; round trip only
            cx.label("coverage:unsorted-rejected-by-reader")
        if r is None:
            return True
    else:
        r = cx.read("reader", otread.parse_gdef, data)
    for nm, exp, rd in (("GlyphClassDef", exp_gcd, r["glyphClassDef"]), ("MarkAttachClassDef", exp_macd, r["markAttachClassDef"])):
        if exp is None:
            if rd is not None:
                cx.fail("reader", nm, "unexpected table")
            continue
        if rd is None:
            cx.fail("reader", nm, "table missing")
            continue
        fmt, m = rd
        cx.label("classdef:fmt%d" % fmt)
        if not exp:
            cx.label("classdef:empty")
        if m != exp:
            cx.fail("reader", "%s:fmt%d" % (nm, fmt), first_diff(exp, m))
    rs = r["markGlyphSets"] or []
    if len(rs) != len(sets):
        cx.fail("reader", "MarkGlyphSets-count", "%d sets, expected %d" % (len(rs), len(sets)))
    else:
        for (fmt, gl), s in zip(rs, sets):
            cx.label("coverage:fmt%d" % fmt)
            if not s:
                cx.label("coverage:empty")
            if gl != s:
                cx.fail("reader", "coverage:fmt%d" % fmt, "expected %s read %s" % (short(s, 200), short(gl, 200)))
    if n == BIG:
        cx.label("layout:gid>32767" if any(k > 32767 for k in list(exp_gcd) + [x for s in sets for x in s]) else "layout:65536-glyphs")

    # HarfBuzz reads GlyphClassDef
    import uharfbuzz as uhb

    hb = hb_font({"GDEF": data, "head": head_bytes(), "maxp": maxp_bytes(n)})
    probe = set(exp_gcd)
    for k in list(exp_gcd):
        probe.update((k - 1, k + 1))
    probe = sorted(p for p in probe if 0 <= p < n)[:600]
    for k in probe:
        c = int(uhb.ot_layout_get_glyph_class(hb.face, k))
        if c != exp_gcd.get(k, 0):
            cx.fail("harfbuzz", "glyph-class", "glyph %d: HarfBuzz class %d, expected %d" % (k, c, exp_gcd.get(k, 0)))
            break
    return bool(exp_gcd or sets or exp_macd)


# ---------------------------------------------------------------------------
# kern


def check_kern(spec, cx):
    from fontTools.ttLib.tables._k_e_r_n import KernTable_format_0

    n = spec["nglyphs"]
    names = glyph_names(n)
    font = new_font(n)
    t = stub_table("kern")
    t.version = 1.0 if spec["apple"] else 0
    t.kernTables = []
    expected = []
    for s in spec["subtables"]:
        st = KernTable_format_0(apple=spec["apple"])
        st.coverage = s["coverage"]
        st.tupleIndex = s["tupleIndex"]
        st.kernTable = {(names[l], names[r]): v for l, r, v in s["pairs"]}
        t.kernTables.append(st)
        expected.append((s["coverage"], s["tupleIndex"], sorted((l, r, v) for l, r, v in s["pairs"])))
    data = cx.call("compile", t.compile, font)
    t2 = stub_table("kern")

    def decompile():
        t2.decompile(data, new_font(n))
        return t2.version, [(st.coverage, st.tupleIndex, sorted((gid_of(l), gid_of(r), v) for (l, r), v in st.kernTable.items())) for st in t2.kernTables]

    ver, got = cx.call("decompile", decompile)
    if ver != t.version or got != expected:
        cx.fail("roundtrip", "subtables", "version %r; expected %s got %s" % (ver, short(expected, 250), short(got, 250)))
    rver, rsubs = cx.read("reader", otread.parse_kern, data)
    read = [(s["coverage"], s["tupleIndex"], s.get("pairs")) for s in rsubs]
    if rver != t.version or read != expected or any(s["format"] != 0 for s in rsubs):
        cx.fail("reader", "subtables", "version %r; expected %s read %s" % (rver, short(expected, 250), short(read, 250)))
    cx.label("kern:apple-1.0" if spec["apple"] else "kern:version-0")
    if len(expected) > 1:
        cx.label("kern:several-subtables")
    if any(not e[2] for e in expected):
        cx.label("kern:empty-subtable")
    return any(e[2] for e in expected)


# ---------------------------------------------------------------------------
# post

_STD_NAMES = []


def std_names():
    """the 258 standard Macintosh glyph names, as HarfBuzz knows them (post format 1)"""
    if not _STD_NAMES:
        hb = hb_font({"head": head_bytes(), "maxp": maxp_bytes(258), "post": struct.pack(">LlhhLLLLL", 0x00010000, 0, 0, 0, 0, 0, 0, 0, 0)})
        _STD_NAMES.extend(hb.font.get_glyph_name(i) for i in range(258))
        if len(set(_STD_NAMES)) != 258 or _STD_NAMES[36] != "A":
            raise HarnessError("HarfBuzz standard glyph names not as expected")
    return _STD_NAMES


def check_post(spec, cx):
    std = std_names()
    fmt = spec["fmt"]
    h = spec["hdr"]
    if fmt == 2:
        ps = [std[v] if k == "std" else v for k, v in spec["names"]]
        n = len(ps)
    else:
        n = spec["n"]
        ps = std[:n] if fmt == 1 else None
    from fontTools.ttLib import TTFont

    font = TTFont()
    t = stub_table("post")
    t.formatType = float(fmt)
    t.italicAngle = h["italicAngle"] / 65536
    t.underlinePosition, t.underlineThickness, t.isFixedPitch = h["underlinePosition"], h["underlineThickness"], h["isFixedPitch"]
    t.minMemType42, t.maxMemType42, t.minMemType1, t.maxMemType1 = h["mem"]
    t.extraNames = []
    t.mapping = {}
    if fmt == 2 and spec["mode"] == "dups":
        order = ["G%d" % i for i in range(n)]
        t.mapping = {order[i]: ps[i] for i in range(n)}
    elif fmt == 2 or fmt == 1:
        order = list(ps)
    else:
        order = ["G%d" % i for i in range(n)]
    font.setGlyphOrder(order)
    font["maxp"] = stub_table("maxp", numGlyphs=n)
    data = cx.call("compile", t.compile, font)

    font2 = TTFont()
    font2["maxp"] = stub_table("maxp", numGlyphs=n)
    t2 = stub_table("post")
    cx.call("decompile", t2.decompile, data, font2)
    hdr2 = (round(t2.italicAngle * 65536), t2.underlinePosition, t2.underlineThickness, t2.isFixedPitch, [t2.minMemType42, t2.maxMemType42, t2.minMemType1, t2.maxMemType1])
    hdr1 = (h["italicAngle"], h["underlinePosition"], h["underlineThickness"], h["isFixedPitch"], list(h["mem"]))
    if t2.formatType != float(fmt) or hdr1 != hdr2:
        cx.fail("roundtrip", "header", "format %r; expected %r got %r" % (t2.formatType, hdr1, hdr2))
    go = t2.glyphOrder
    if fmt == 3:
        if go is not None:
            cx.fail("roundtrip", "format3-glyph-order", "%r" % (go,))
    else:
        mapping = getattr(t2, "mapping", {})
        back = [mapping.get(g, g) for g in go]
        if back != ps:
            cx.fail("roundtrip", "ps-names:fmt%d" % fmt, "expected %s got %s" % (short(ps, 250), short(back, 250)))
        if len(set(go)) != len(go):
            cx.fail("roundtrip", "glyph-order-not-unique", short(go, 250))
        if fmt == 1 or spec["mode"] == "unique":
            if list(go) != order:
                cx.fail("roundtrip", "glyph-order:fmt%d" % fmt, "expected %s got %s" % (short(order, 250), short(go, 250)))

    r = cx.read("reader", otread.parse_post, data, n)
    rh = (r["italicAngle"], r["underlinePosition"], r["underlineThickness"], r["isFixedPitch"], list(r["mem"]))
    if r["version"] != fmt << 16 or rh != hdr1:
        cx.fail("reader", "header", "version %08x; expected %r read %r" % (r["version"], hdr1, rh))
    if fmt == 2:
        rn = [std[v] if k == "std" else v.decode("latin-1") for k, v in r["names"]]
        if rn != ps:
            cx.fail("reader", "ps-names", "expected %s read %s" % (short(ps, 250), short(rn, 250)))
        if any(k == "str" and v.decode("latin-1") in std for k, v in r["names"]):
            cx.fail("reader", "standard-name-stored-as-string", short(r["names"], 200))
        cx.label("post:fmt2")
        if any(k == "std" for k, v in r["names"]):
            cx.label("post:standard-name")
        if any(k == "str" for k, v in r["names"]):
            cx.label("post:custom-name")
        if len(set(ps)) < len(ps):
            cx.label("post:duplicate-names")
            if r["nstrings"] < sum(1 for k, v in r["names"] if k == "str"):
                cx.label("post:duplicate-shares-string")
        if any(len(p) > 63 for p in ps):
            cx.label("post:long-name")
    else:
        cx.label("post:fmt%d" % fmt)
    if fmt in (1, 2):
        hb = hb_font({"head": head_bytes(), "maxp": maxp_bytes(n), "post": data})
        for i in range(n):
            nm = hb.font.get_glyph_name(i)
            if nm != ps[i][:63]:
                cx.fail("harfbuzz", "glyph-name:fmt%d" % fmt, "glyph %d: HarfBuzz %r, expected %r" % (i, nm, ps[i][:63]))
                break
    return True


# ---------------------------------------------------------------------------
# OS/2


def check_os2(spec, cx):
    from fontTools.ttLib.tables.O_S_2f_2 import Panose

    font = new_font(2)
    t = stub_table("OS/2")
    pn = ["bFamilyType", "bSerifStyle", "bWeight", "bProportion", "bContrast", "bStrokeVariation", "bArmStyle", "bLetterForm", "bMidline", "bXHeight"]
    for k, v in spec.items():
        if k == "panose":
            t.panose = Panose(**dict(zip(pn, v)))
        elif k in ("usLowerOpticalPointSize", "usUpperOpticalPointSize"):
            setattr(t, k, v / 20)
        else:
            setattr(t, k, v)
    data = cx.call("compile", t.compile, font)
    t2 = stub_table("OS/2")
    cx.call("decompile", t2.decompile, data, new_font(2))
    got = {}
    for k in spec:
        if k == "panose":
            got[k] = [getattr(t2.panose, a) for a in pn]
        elif k in ("usLowerOpticalPointSize", "usUpperOpticalPointSize"):
            got[k] = round(getattr(t2, k) * 20)
        else:
            got[k] = getattr(t2, k)
    if got != spec:
        cx.fail("roundtrip", "fields:v%d" % spec["version"], first_diff(spec, got))
    r = cx.read("reader", otread.parse_os2, data)
    r["panose"] = list(r["panose"])
    r["achVendID"] = r["achVendID"].decode("latin-1")
    if r != spec:
        cx.fail("reader", "fields:v%d" % spec["version"], first_diff(spec, r))
    cx.label("os2:v%d" % spec["version"])
    return True


# ---------------------------------------------------------------------------
# GSUB / GPOS lookups built with otlLib.builder inside a one-feature shell

_VR = ("XPlacement", "YPlacement", "XAdvance", "YAdvance")


def layout_shell(tag, lookups):
    from fontTools.ttLib.tables import otTables as ot

    t = stub_table(tag)
    tb = t.table = getattr(ot, tag)()
    tb.Version = 0x00010000
    tb.ScriptList = ot.ScriptList()
    sr = ot.ScriptRecord()
    sr.ScriptTag = "DFLT"
    sr.Script = ot.Script()
    ls = sr.Script.DefaultLangSys = ot.DefaultLangSys()
    ls.LookupOrder = None
    ls.ReqFeatureIndex = 0xFFFF
    ls.FeatureIndex = [0]
    ls.FeatureCount = 1
    sr.Script.LangSysRecord = []
    sr.Script.LangSysCount = 0
    tb.ScriptList.ScriptRecord = [sr]
    tb.ScriptList.ScriptCount = 1
    tb.FeatureList = ot.FeatureList()
    fr = ot.FeatureRecord()
    fr.FeatureTag = "test"
    fr.Feature = ot.Feature()
    fr.Feature.FeatureParams = None
    fr.Feature.LookupListIndex = list(range(len(lookups)))
    fr.Feature.LookupCount = len(lookups)
    tb.FeatureList.FeatureRecord = [fr]
    tb.FeatureList.FeatureCount = 1
    tb.LookupList = ot.LookupList()
    tb.LookupList.Lookup = list(lookups)
    tb.LookupList.LookupCount = len(lookups)
    return t


def _value(vals):
    """[xPla, yPla, xAdv, yAdv] (None = field absent) -> otBase.ValueRecord"""
    from fontTools.ttLib.tables.otBase import ValueRecord

    v = ValueRecord()
    for nme, x in zip(_VR, vals):
        if x is not None:
            setattr(v, nme, x)
    return v


def _value_tuple(v, fmt):
    """decompiled ValueRecord -> list like the spec's (fields of the format present, others None)"""
    return [(getattr(v, nme, 0) if v is not None else 0) if fmt & (1 << i) else None for i, nme in enumerate(_VR)]


def _subtable0(table, kind_type):
    lk = table.table.LookupList.Lookup[0]
    st = lk.SubTable[0]
    ext = hasattr(st, "ExtSubTable")
    if ext:
        st = st.ExtSubTable
    return lk, st, ext


def _shape(hb, gids, value=True):
    return hb.shape_gids(gids, features={"test": value})


def check_layout(spec, cx):
    from fontTools.otlLib import builder
    from fontTools.ttLib.tables import otTables as ot

    kind = spec["kind"]
    n = spec["nglyphs"]
    names = glyph_names(n)
    font = new_font(n)
    gmap = font.getReverseGlyphMap()
    tag = "GSUB" if kind in ("single", "multiple", "alternate", "ligature") else "GPOS"
    gdef_data = None
    ADV = 500

    if kind == "single":
        exp = {a: b for a, b in spec["map"]}
        st = builder.buildSingleSubstSubtable({names[a]: names[b] for a, b in exp.items()})
    elif kind == "multiple":
        exp = {a: list(b) for a, b in spec["map"]}
        st = builder.buildMultipleSubstSubtable({names[a]: [names[x] for x in b] for a, b in exp.items()})
    elif kind == "alternate":
        exp = {a: list(b) for a, b in spec["map"]}
        st = builder.buildAlternateSubstSubtable({names[a]: [names[x] for x in b] for a, b in exp.items()})
    elif kind == "ligature":
        exp = {tuple(k): v for k, v in spec["ligs"]}
        st = builder.buildLigatureSubstSubtable({tuple(names[x] for x in k): names[v] for k, v in exp.items()})
    elif kind == "singlepos":
        exp = {a: b for a, b in spec["map"]}
        st = builder.buildSinglePosSubtable({names[a]: _value([None, None, b, None]) for a, b in exp.items()}, gmap)
    elif kind == "pairglyph":
        f1, f2 = spec["vf"]
        exp = {tuple(k): v for k, v in spec["pairs"]}
        st = builder.buildPairPosGlyphsSubtable({(names[a], names[b]): (_value(v[0]), _value(v[1]) if f2 else None) for (a, b), v in exp.items()}, gmap, valueFormat1=f1, valueFormat2=f2)
    elif kind == "pairclass":
        f1, f2 = spec["vf"]
        c1 = [tuple(names[g] for g in c) for c in spec["classes1"]]
        c2 = [tuple(names[g] for g in c) for c in spec["classes2"]]
        pairs = {(c1[i], c2[j]): (_value(v[0]), _value(v[1]) if f2 else None) for i, j, v in spec["pairs"]}
        st = builder.buildPairPosClassesSubtable(pairs, gmap, valueFormat1=f1, valueFormat2=f2)
        exp = {}
        zero1 = [0 if f1 & (1 << i) else None for i in range(4)]
        zero2 = [0 if f2 & (1 << i) else None for i in range(4)]
        given = {(i, j): v for i, j, v in spec["pairs"]}
        cov = sorted({g for i, c in enumerate(spec["classes1"]) if any(p[0] == i for p in spec["pairs"]) for g in c})
        cls1 = {g: i for i, c in enumerate(spec["classes1"]) for g in c}
        cls2 = {g: j for j, c in enumerate(spec["classes2"]) for g in c}
        # a first-class glyph set that occurs in no pair is not part of the lookup at all
        used2 = {j for i, j, v in spec["pairs"]}
        seconds = sorted({g for j in used2 for g in spec["classes2"][j]})
        outside = next((g for g in range(1, n) if g not in cls2 or cls2[g] not in used2), None)
        for g1 in cov:
            for g2 in seconds + ([outside] if outside is not None else []):
                v = given.get((cls1[g1], cls2.get(g2) if cls2.get(g2) in used2 else None))
                exp[(g1, g2)] = [list(v[0]), list(v[1]) if f2 else zero2] if v else [zero1, zero2]
    else:  # markbase
        marks = {names[g]: (c, builder.buildAnchor(x, y)) for g, c, x, y in spec["marks"]}
        bases = {names[g]: {c: builder.buildAnchor(a[0], a[1]) for c, a in enumerate(an) if a is not None} for g, an in spec["bases"]}
        st = builder.buildMarkBasePosSubtable(marks, bases, gmap)
        exp = ({g: (c, x, y) for g, c, x, y in spec["marks"]}, {g: [tuple(a) if a is not None else None for a in an] for g, an in spec["bases"]})
        gd = stub_table("GDEF")
        gd.table = ot.GDEF()
        gd.table.Version = 0x00010000
        gd.table.GlyphClassDef = ot.ClassDef()
        gd.table.GlyphClassDef.classDefs = {names[g]: 3 for g in exp[0]}
        gd.table.GlyphClassDef.classDefs.update({names[g]: 1 for g in exp[1]})
        gd.table.AttachList = gd.table.LigCaretList = gd.table.MarkAttachClassDef = None
        gdef_data = cx.call("compile", gd.compile, font)

    lookup = builder.buildLookup([st], table=tag, extension=spec["ext"])
    table = layout_shell(tag, [lookup])
    data = cx.call("compile", table.compile, font)

    # --- round trip
    t2 = stub_table(tag)

    def decompile():
        t2.decompile(data, new_font(n))
        lk, s2, ext = _subtable0(t2, kind)
        if ext != bool(spec["ext"]):
            raise AssertionError("extension lookup expected %r, found %r" % (spec["ext"], ext))
        if kind == "single":
            return {gid_of(a): gid_of(b) for a, b in s2.mapping.items()}
        if kind == "multiple":
            return {gid_of(a): [gid_of(x) for x in b] for a, b in s2.mapping.items()}
        if kind == "alternate":
            return {gid_of(a): [gid_of(x) for x in b] for a, b in s2.alternates.items()}
        if kind == "ligature":
            out = {}
            order = {}
            for first, ligs in s2.ligatures.items():
                for l in ligs:
                    key = (gid_of(first),) + tuple(gid_of(c) for c in l.Component)
                    if key in out:
                        raise AssertionError("duplicate ligature %r" % (key,))
                    out[key] = gid_of(l.LigGlyph)
                order[gid_of(first)] = [len(l.Component) for l in ligs]
            for f, lens in order.items():
                if lens != sorted(lens, reverse=True):
                    raise AssertionError("ligature set of glyph %d is not ordered longest first: %r" % (f, lens))
            return out
        if kind == "singlepos":
            cov = [gid_of(g) for g in s2.Coverage.glyphs]
            if s2.Format == 1:
                return {g: s2.Value.XAdvance for g in cov}
            return {g: v.XAdvance for g, v in zip(cov, s2.Value)}
        if kind == "pairglyph":
            out = {}
            for g1, ps in zip(s2.Coverage.glyphs, s2.PairSet):
                for r in ps.PairValueRecord:
                    out[(gid_of(g1), gid_of(r.SecondGlyph))] = [_value_tuple(r.Value1, s2.ValueFormat1), _value_tuple(r.Value2, s2.ValueFormat2)]
            return out
        if kind == "pairclass":
            cov = [gid_of(g) for g in s2.Coverage.glyphs]
            cd1 = {gid_of(g): c for g, c in s2.ClassDef1.classDefs.items()}
            cd2 = {gid_of(g): c for g, c in s2.ClassDef2.classDefs.items()}
            out = {}
            for g1 in cov:
                for (a, g2) in [k for k in exp if k[0] == g1]:
                    r = s2.Class1Record[cd1.get(g1, 0)].Class2Record[cd2.get(g2, 0)]
                    out[(g1, g2)] = [_value_tuple(r.Value1, s2.ValueFormat1), _value_tuple(r.Value2, s2.ValueFormat2)]
            if sorted(cov) != sorted({k[0] for k in exp}):
                raise AssertionError("coverage %r, expected %r" % (sorted(cov)[:20], sorted({k[0] for k in exp})[:20]))
            return out
        mk = {gid_of(g): (r.Class, r.MarkAnchor.XCoordinate, r.MarkAnchor.YCoordinate) for g, r in zip(s2.MarkCoverage.glyphs, s2.MarkArray.MarkRecord)}
        bs = {gid_of(g): [(a.XCoordinate, a.YCoordinate) if a is not None else None for a in r.BaseAnchor] for g, r in zip(s2.BaseCoverage.glyphs, s2.BaseArray.BaseRecord)}
        return (mk, bs)

    got = cx.call("decompile", decompile)
    if got != exp:
        if isinstance(exp, tuple):
            detail = "marks %s; bases %s" % (first_diff(exp[0], got[0]), first_diff(exp[1], got[1]))
        else:
            detail = first_diff(exp, got)
        cx.fail("roundtrip", kind, detail)

    # --- branch labels from the bytes HarfBuzz will read
    lk, s2, ext = _subtable0(t2, kind)
    raw_fmt = _subtable_format(data, bool(spec["ext"]))
    cx.label("%s:fmt%d" % (kind, raw_fmt))
    if kind == "single":
        cx.label("singlesubst:delta" if raw_fmt == 1 else "singlesubst:list")
        if raw_fmt == 1 and any(b < a for a, b in exp.items()):
            cx.label("singlesubst:negative-delta")
        if spec.get("mode") == "wrap":
            cx.label("singlesubst:delta-wraps")
    if spec["ext"]:
        cx.label("layout:extension-lookup")
    if n == BIG:
        cx.label("layout:65535-glyphs")

    # --- HarfBuzz shapes probe runs computed from the spec
    tables = {tag: data, "head": head_bytes(), "maxp": maxp_bytes(n), "hhea": hea_bytes(1), "hmtx": flat_hmtx(n, ADV)}
    if gdef_data:
        tables["GDEF"] = gdef_data
    hb = hb_font(tables)
    if kind == "single":
        ins = sorted(exp)
        others = [g for g in {ins[0] - 1, ins[-1] + 1, 1, n - 1} | {g + 1 for g in ins[:30]} if 0 < g < n and g not in exp]
        run = ins + others
        out = [r[0] for r in _shape(hb, run)]
        want = [exp.get(g, g) for g in run]
        if out != want:
            bad = [(a, b, c) for a, b, c in zip(run, want, out) if b != c][:4]
            cx.fail("harfbuzz", "single:fmt%d" % raw_fmt, "(input, expected, shaped) %r" % (bad,))
    elif kind == "multiple":
        for g in sorted(exp)[:40]:
            out = [r[0] for r in _shape(hb, [g, g])]
            if out != exp[g] + exp[g]:
                cx.fail("harfbuzz", "multiple", "glyph %d -> %r, expected %r twice" % (g, out, exp[g]))
                break
    elif kind == "alternate":
        run = sorted(exp)[:40]
        for k in range(1, max(len(v) for v in exp.values()) + 2):
            out = [r[0] for r in _shape(hb, run, k)]
            want = [exp[g][k - 1] if k <= len(exp[g]) else g for g in run]
            if out != want:
                bad = [(a, b, c) for a, b, c in zip(run, want, out) if b != c][:4]
                cx.fail("harfbuzz", "alternate", "alternate #%d: (input, expected, shaped) %r" % (k, bad))
                break
    elif kind == "ligature":
        rules = list(exp.items())
        for comps, lig in rules:
            # the longest rule that matches wins; among equal lengths the first inserted
            best = None
            for c2, l2 in rules:
                if tuple(comps[: len(c2)]) == c2 and (best is None or len(c2) > len(best[0])):
                    best = (c2, l2)
            # the tail may ligate again
            want = [best[1]] + _lig_apply(list(comps[len(best[0]) :]), rules)
            out = [r[0] for r in _shape(hb, list(comps))]
            if out != want:
                cx.fail("harfbuzz", "ligature", "%r -> %r, expected %r" % (comps, out, want))
                break
    elif kind == "singlepos":
        ins = sorted(exp)
        others = [g for g in {ins[0] - 1, ins[-1] + 1, 1, n - 1} | {g + 1 for g in ins[:30]} if 0 < g < n and g not in exp]
        run = ins + others
        out = [r[2] for r in _shape(hb, run)]
        want = [ADV + exp.get(g, 0) for g in run]
        cx.label("coverage-via-singlepos")
        if out != want:
            bad = [(a, b, c) for a, b, c in zip(run, want, out) if b != c][:4]
            cx.fail("harfbuzz", "singlepos:fmt%d" % raw_fmt, "(glyph, expected advance, shaped advance) %r" % (bad,))
    elif kind in ("pairglyph", "pairclass"):
        f1, f2 = spec["vf"]
        probes = list(exp.items())[:80]
        if kind == "pairglyph":
            firsts = sorted({k[0] for k in exp})
            seconds = sorted({k[1] for k in exp})
            for a in firsts[:3]:
                for b in seconds[:3] + [1 if 1 not in seconds else 2]:
                    if (a, b) not in exp:
                        probes.append(((a, b), None))
        for (a, b), v in probes:
            r = _shape(hb, [a, b])
            v1 = [x or 0 for x in (v[0] if v else [0] * 4)]
            v2 = [x or 0 for x in (v[1] if v else [0] * 4)]
            want = [(a, ADV + v1[2], v1[0], v1[1]), (b, ADV + v2[2], v2[0], v2[1])]
            got_ = [(x[0], x[2], x[4], x[5]) for x in r]
            if got_ != want:
                cx.fail("harfbuzz", "%s:fmt%d" % (kind, raw_fmt), "pair %r: (gid, xAdvance, xOffset, yOffset) %r, expected %r" % ((a, b), got_, want))
                break
    else:
        mk, bs = exp
        for b, anchors in list(bs.items()):
            for m, (c, mx, my) in list(mk.items()):
                r = _shape(hb, [b, m])
                a = anchors[c]
                if a is None:
                    want = [(b, ADV, 0, 0), (m, 0, 0, 0)]
                else:
                    want = [(b, ADV, 0, 0), (m, 0, a[0] - mx - ADV, a[1] - my)]
                got_ = [(x[0], x[2], x[4], x[5]) for x in r]
                if got_ != want:
                    cx.fail("harfbuzz", "markbase", "base %d mark %d (class %d): (gid, xAdvance, xOffset, yOffset) %r, expected %r" % (b, m, c, got_, want))
                    return True
                cx.label("markbase:attached" if a is not None else "markbase:no-anchor-for-class")
    return True


def _lig_apply(run, rules):
    out = []
    i = 0
    while i < len(run):
        best = None
        for c2, l2 in rules:
            if tuple(run[i : i + len(c2)]) == c2 and (best is None or len(c2) > len(best[0])):
                best = (c2, l2)
        if best:
            out.append(best[1])
            i += len(best[0])
        else:
            out.append(run[i])
            i += 1
    return out


def _subtable_format(data, ext):
    """format word of the first subtable of lookup 0, read with struct"""
    ll = otread.u16(data, 8)
    lk = ll + otread.u16(data, ll + 2)
    st = lk + otread.u16(data, lk + 6)
    if ext:
        if otread.u16(data, st) != 1:
            raise HarnessError("extension subtable format")
        st = st + otread.u32(data, st + 4)
    return otread.u16(data, st)


# ---------------------------------------------------------------------------
# fvar / avar / gvar / cvar


def _fx(v):
    """user-space axis value -> 16.16 integer (generated values are exactly representable)"""
    return int(round(v * 65536))


def _region_key(reg, tags):
    """{tag: [s, p, e]} -> tuple over all axes; absent axis = (0, 0, 0)"""
    return tuple(tuple(reg.get(t, (0, 0, 0))) for t in tags)


def _f214(v):
    return int(round(v * 16384))


def check_var(spec, cx):
    from fractions import Fraction

    from fontTools.ttLib.tables._f_v_a_r import Axis, NamedInstance
    from fontTools.ttLib.tables.TupleVariation import TupleVariation
    from vf import ref_var

    axes = spec["axes"]
    tags = [a[0] for a in axes]
    glyphs = spec["glyphs"]
    n = len(glyphs)
    names = glyph_names(n)

    def base_font():
        f = new_font(n)
        f["head"] = stub_table("head", indexToLocFormat=0, glyphDataFormat=0)
        f["maxp"] = stub_table("maxp", numGlyphs=n)
        return f

    # ---- fvar
    font = base_font()
    fvar = stub_table("fvar")
    for tag, mn, df, mx, flags, nid in axes:
        a = Axis()
        a.axisTag, a.minValue, a.defaultValue, a.maxValue, a.flags, a.axisNameID = tag, mn, df, mx, flags, nid
        fvar.axes.append(a)
    for i in spec["instances"]:
        ni = NamedInstance()
        ni.subfamilyNameID, ni.flags = i["sub"], i["flags"]
        ni.coordinates = dict(zip(tags, i["coords"]))
        if i["ps"] is not None:
            ni.postscriptNameID = i["ps"]
        fvar.instances.append(ni)
    font["fvar"] = fvar
    fvar_data = cx.call("compile-fvar", fvar.compile, font)
    exp_axes = [dict(tag=t, min=_fx(mn), default=_fx(df), max=_fx(mx), flags=fl, nameID=nid) for t, mn, df, mx, fl, nid in axes]
    has_ps = any(i["ps"] is not None for i in spec["instances"])
    exp_inst = [dict(subfamilyNameID=i["sub"], flags=i["flags"], coords=[_fx(c) for c in i["coords"]], postscriptNameID=(i["ps"] if i["ps"] is not None else 0xFFFF) if has_ps else None) for i in spec["instances"]]
    fvar2 = stub_table("fvar")

    def dec_fvar():
        fvar2.decompile(fvar_data, base_font())
        ax = [dict(tag=a.axisTag, min=_fx(a.minValue), default=_fx(a.defaultValue), max=_fx(a.maxValue), flags=a.flags, nameID=a.axisNameID) for a in fvar2.axes]
        ins = [dict(subfamilyNameID=i.subfamilyNameID, flags=i.flags, coords=[_fx(i.coordinates[t]) for t in tags], postscriptNameID=i.postscriptNameID if has_ps else None) for i in fvar2.instances]
        return ax, ins

    ax, ins = cx.call("decompile-fvar", dec_fvar)
    if ax != exp_axes or ins != exp_inst:
        cx.fail("roundtrip", "fvar", "axes %r instances %r; expected %r %r" % (ax, ins, exp_axes, exp_inst))
    r = cx.read("reader", otread.parse_fvar, fvar_data)
    if r["axes"] != exp_axes or r["instances"] != exp_inst:
        cx.fail("reader", "fvar", "read %s; expected %s %s" % (short(r, 300), short(exp_axes, 150), short(exp_inst, 150)))
    cx.label("fvar:instances-with-psname" if has_ps else "fvar:instances" if exp_inst else "fvar:no-instances")

    # ---- avar
    avar_data = None
    if spec["avar"] is not None:
        avar = stub_table("avar")
        avar.segments = {t: {k / 16384: v / 16384 for k, v in m} for t, m in zip(tags, spec["avar"])}
        avar_data = cx.call("compile-avar", avar.compile, font)
        avar2 = stub_table("avar")

        def dec_avar():
            f2 = base_font()
            f2["fvar"] = fvar2
            avar2.decompile(avar_data, f2)
            return [[[_f214(k), _f214(v)] for k, v in sorted(avar2.segments[t].items())] for t in tags]

        got = cx.call("decompile-avar", dec_avar)
        want = [[list(p) for p in m] for m in spec["avar"]]
        if got != want:
            cx.fail("roundtrip", "avar", "expected %r got %r" % (want, got))
        rm = cx.read("reader", otread.parse_avar, avar_data)
        if [[list(p) for p in m] for m in rm] != want:
            cx.fail("reader", "avar", "expected %r read %r" % (want, rm))
        cx.label("avar")
        if any(len(m) > 3 for m in want):
            cx.label("avar:extra-segments")

    # ---- glyf (sibling, not under test here) + gvar
    glyf = stub_table("glyf")
    glyf.glyphOrder = list(names)
    glyf.glyphs = {names[i]: _build_glyph({"pts": g["pts"], "instr": b""} if g["pts"] else None, names) for i, g in enumerate(glyphs)}
    font["glyf"] = glyf
    font["loca"] = stub_table("loca")
    glyf_data = glyf.compile(font)
    loca_data = font["loca"].compile(font)
    npts = [sum(len(c) for c in g["pts"]) + 4 for g in glyphs]

    def mk_tv(tv, width):
        reg = {t: tuple(x / 16384 for x in v) for t, v in tv["region"].items()}
        if width == 2:
            return TupleVariation(reg, [tuple(d) if d is not None else None for d in tv["deltas"]])
        return TupleVariation(reg, list(tv["deltas"]))

    gvar = stub_table("gvar")
    gvar.variations = {names[int(k)]: [mk_tv(tv, 2) for tv in v] for k, v in spec["gvar"].items()}
    font["gvar"] = gvar
    gvar_data = cx.call("compile-gvar", gvar.compile, font)
    exp_gvar = {int(k): [(_region_key(tv["region"], tags), [tuple(d) if d is not None else None for d in tv["deltas"]]) for tv in v] for k, v in spec["gvar"].items()}

    def dec_tvs(lst, width):
        out = []
        for tv in lst:
            reg = {t: [_f214(x) for x in v] for t, v in tv.axes.items()}
            out.append((_region_key(reg, tags), [(tuple(d) if width == 2 else d) if d is not None else None for d in tv.coordinates]))
        return out

    gvar2 = stub_table("gvar")

    def dec_gvar():
        f2 = base_font()
        f2["fvar"] = fvar2
        g2 = stub_table("glyf")
        f2["loca"] = stub_table("loca")
        f2["loca"].decompile(loca_data, f2)
        f2["glyf"] = g2
        g2.decompile(glyf_data, f2)
        gvar2.decompile(gvar_data, f2)
        return {i: dec_tvs(gvar2.variations[names[i]], 2) for i in range(n) if gvar2.variations[names[i]]}

    got = cx.call("decompile-gvar", dec_gvar)
    if got != exp_gvar:
        bad = [k for k in set(got) | set(exp_gvar) if got.get(k) != exp_gvar.get(k)][0]
        cx.fail("roundtrip", "gvar", "glyph %d: expected %s got %s" % (bad, short(exp_gvar.get(bad), 300), short(got.get(bad), 300)))

    def from_reader(tuples, npoints, width):
        out = []
        for t in tuples:
            reg = []
            for k in range(len(tags)):
                p = t["peak"][k]
                if t["start"] is not None:
                    reg.append((t["start"][k], p, t["end"][k]))
                else:
                    reg.append((min(p, 0), p, max(p, 0)))
            d = [None] * npoints
            pts = range(npoints) if t["points"] is None else t["points"]
            for j, pnt in enumerate(pts):
                if pnt >= npoints:
                    raise otread.ReadError("point number %d of %d" % (pnt, npoints))
                d[pnt] = (t["dx"][j], t["dy"][j]) if width == 2 else t["dx"][j]
            out.append((tuple(reg), d))
        return out

    rg = cx.read("reader", otread.parse_gvar, gvar_data, lambda g: npts[g])
    if rg["axisCount"] != len(tags) or len(rg["glyphs"]) != n:
        cx.fail("reader", "gvar-header", "axisCount %d glyphCount %d" % (rg["axisCount"], len(rg["glyphs"])))
    else:
        for i in range(n):
            e = exp_gvar.get(i)
            gl = rg["glyphs"][i]
            if gl is None:
                if e:
                    cx.fail("reader", "gvar-glyph-missing", "glyph %d" % i)
                continue
            tuples, info = gl
            rd = cx.read("reader", from_reader, tuples, npts[i], 2)
            if rd != e:
                cx.fail("reader", "gvar-tuples", "glyph %d: expected %s read %s" % (i, short(e, 300), short(rd, 300)))
            _tv_labels(cx, tuples, info, "gvar")
        if rg["shared"]:
            cx.label("tv:shared-tuples-in-gvar")

    # ---- cvar
    ncvt = len(spec["cvt"])
    if ncvt:
        font["cvt "] = stub_table("cvt ", values=list(spec["cvt"]))
        cvar = stub_table("cvar")
        cvar.variations = [mk_tv(tv, 1) for tv in spec["cvar"]]
        cvar_data = cx.call("compile-cvar", cvar.compile, font, useSharedPoints=spec["cvar_shared"])
        exp_cvar = [(_region_key(tv["region"], tags), list(tv["deltas"])) for tv in spec["cvar"]]
        cvar2 = stub_table("cvar")

        def dec_cvar():
            f2 = base_font()
            f2["fvar"] = fvar2
            f2["cvt "] = stub_table("cvt ", values=list(spec["cvt"]))
            cvar2.decompile(cvar_data, f2)
            return dec_tvs(cvar2.variations, 1)

        got = cx.call("decompile-cvar", dec_cvar)
        if got != exp_cvar:
            cx.fail("roundtrip", "cvar", "expected %s got %s" % (short(exp_cvar, 300), short(got, 300)))
        tuples, info = cx.read("reader", otread.parse_cvar, cvar_data, len(tags), ncvt)
        rd = cx.read("reader", from_reader, tuples, ncvt, 1)
        if rd != exp_cvar:
            cx.fail("reader", "cvar-tuples", "expected %s read %s" % (short(exp_cvar, 300), short(rd, 300)))
        _tv_labels(cx, tuples, info, "cvar")
        cx.label("cvar")

    # ---- HarfBuzz: axes, normalisation through avar, outlines at the tent peaks
    hm = b"".join(struct.pack(">Hh", g["adv"], min([p[0] for c in g["pts"] for p in c], default=0)) for g in glyphs)
    tables = {"head": head_bytes(0), "maxp": maxp_bytes(n, True), "hhea": hea_bytes(n), "hmtx": hm, "loca": loca_data, "glyf": glyf_data, "fvar": fvar_data, "gvar": gvar_data}
    if avar_data:
        tables["avar"] = avar_data
    hb = hb_font(tables)
    hax = [(t, _fx(a), _fx(b), _fx(c)) for t, a, b, c in hb.axes()]
    if hax != [(a["tag"], a["min"], a["default"], a["max"]) for a in exp_axes]:
        cx.fail("harfbuzz", "axes", "HarfBuzz %r, expected %r" % (hax, exp_axes))
        return True
    if spec["avar"] is not None:
        for k, (tag, mn, df, mx, fl, nid) in enumerate(axes):
            for frm, to in spec["avar"][k]:
                u = df + (frm / 16384) * (mx - df) if frm >= 0 else df + (frm / 16384) * (df - mn)
                if (frm > 0 and mx == df) or (frm < 0 and mn == df):
                    continue
                hb.set_location({tag: u})
                got_n = [round(v * 16384) for v in hb.normalized()]  # uharfbuzz reports floats in [-1, 1]
                if abs(got_n[k] - to) > 2:
                    cx.fail("harfbuzz", "avar-normalisation", "axis %s user %r (normalised %d/16384): HarfBuzz %r, avar maps to %d" % (tag, u, frm, got_n, to))
                    hb.set_location(None)
                    return True
        hb.set_location(None)
    if spec["wide"]:
        cx.label("tv:32-bit-deltas")
        return True
    Q = Fraction
    for gi, tvs in spec["gvar"].items():
        gi = int(gi)
        g = glyphs[gi]
        if not g["pts"]:
            continue
        flat = [(p[0], p[1]) for c in g["pts"] for p in c]
        xmin = min(p[0] for p in flat)
        coords = flat + [(xmin - xmin, 0), (g["adv"], 0), (0, 0), (0, 0)]  # phantom points: lsb == xMin
        ends = []
        k = 0
        for c in g["pts"]:
            k += len(c)
            ends.append(k - 1)
        full = [ref_var.iup_glyph(coords, [tuple(d) if d is not None else None for d in tv["deltas"]], ends) for tv in tvs]
        regs = [{t: tuple(Q(x, 16384) for x in v) for t, v in tv["region"].items()} for tv in tvs]
        for tv in tvs:
            loc = {t: Q(v[1], 16384) for t, v in tv["region"].items()}
            hb.set_normalized([float(loc.get(t, 0)) for t in tags])
            pts = [[Q(x), Q(y)] for x, y in coords]
            for reg, deltas in zip(regs, full):
                s = ref_var.region_scalar(loc, reg)
                if s:
                    for p, d in zip(pts, deltas):
                        p[0] += s * d[0]
                        p[1] += s * d[1]
            shift = pts[len(flat)][0]  # the outline is placed relative to the (moved) left side bearing point
            conts = []
            k = 0
            for c in g["pts"]:
                conts.append([[float(pts[k + j][0] - shift), float(pts[k + j][1]), c[j][2]] for j in range(len(c))])
                k += len(c)
            A = [c for c in geom.canon(_points_to_ops(conts), tol=0.01) if c["segs"]]
            B = [c for c in geom.canon(hb.draw(gi), tol=0.01) if c["segs"]]
            ok, detail = geom.same_geometry(A, B, tol=0.51)
            if not ok:
                ok, _ = geom.same_geometry(geom.merge_collinear(A), geom.merge_collinear(B), tol=0.51)
            if not ok and len(A) == len(B):
                ok = geom.outline_distance(A, B) <= 0.75
            if not ok:
                cx.fail("harfbuzz", "outline-at-peak", "glyph %d at %r: %s" % (gi, {t: float(v) for t, v in loc.items()}, detail))
                hb.set_location(None)
                return True
            cx.label("gvar:harfbuzz-outline")
            if any(d is None for d in tv["deltas"][: len(flat)]) and any(d is not None for d in tv["deltas"][: len(flat)]):
                cx.label("gvar:inferred-deltas")
    return True


def _tv_labels(cx, tuples, info, tab):
    for t in tuples:
        cx.label("tv:private-points" if t["private"] else "tv:shared-points")
        cx.label("tv:all-points" if t["points"] is None else "tv:some-points")
        cx.label("tv:shared-peak-tuple" if t["shared_peak"] is not None else "tv:embedded-peak")
        if t["start"] is not None:
            cx.label("tv:intermediate-region")
        for k in t["kinds"]:
            cx.label("tv:delta-run-%s" % {"z": "zero", "b": "byte", "w": "word", "l": "long"}[k])
    if info["shared_point_numbers"]:
        cx.label("tv:%s-shares-point-numbers" % tab)


# ---------------------------------------------------------------------------
# COLR


def _q(v, bits):
    return round(v * (1 << bits)) / (1 << bits)


def check_colr(spec, cx):
    from fontTools.colorLib.builder import buildCOLR
    from fontTools.colorLib.unbuilder import unbuildColrV1

    n = spec["nglyphs"]
    names = glyph_names(n)
    font = new_font(n)
    gmap = font.getReverseGlyphMap()
    if spec["version"] == 0:
        if not any(ls for b, ls in spec["v0"]):
            cx.label("colr:v0-no-layer-records-at-all")
        layers = {names[b]: [(names[g], p) for g, p in ls] for b, ls in spec["v0"]}
        colr = cx.call("build", buildCOLR, layers, version=0, glyphMap=gmap)
        data = cx.call("compile", colr.compile, font)
        t2 = stub_table("COLR")

        def dec():
            t2.decompile(data, new_font(n))
            return t2.version, {gid_of(b): [[gid_of(l.name), l.colorID] for l in ls] for b, ls in t2.ColorLayers.items()}

        ver, got = cx.call("decompile", dec)
        exp = {b: [list(x) for x in ls] for b, ls in spec["v0"]}
        if ver != 0 or got != exp:
            cx.fail("roundtrip", "v0-layers", "version %r: %s" % (ver, first_diff(exp, got)))
        rver, rd = cx.read("reader", otread.parse_colr0, data)
        rd = {b: [list(x) for x in ls] for b, ls in rd.items()}
        if rver != 0 or rd != exp:
            cx.fail("reader", "v0-layers", "version %r: %s" % (rver, first_diff(exp, rd)))
        cx.label("colr:v0")
        if any(not ls for ls in exp.values()):
            cx.label("colr:v0-base-without-layers")
        return True

    def to_names(p):
        p = dict(p)
        for k, v in list(p.items()):
            if k == "Glyph":
                p[k] = names[v]
            elif k in ("Paint", "SourcePaint", "BackdropPaint"):
                p[k] = to_names(v)
            elif k == "Layers":
                p[k] = [to_names(x) for x in v]
            elif k == "ColorLine":
                p[k] = dict(v, ColorStop=[dict(s) for s in v["ColorStop"]])
            elif k == "Transform":
                p[k] = dict(v)
        return p

    glyphs = {names[b]: to_names(p) for b, p in spec["v1"]}
    clips = {names[b]: tuple(box) for b, box in spec["clips"]} or None
    import copy

    colr = cx.call("build", buildCOLR, copy.deepcopy(glyphs), version=1, glyphMap=gmap, clipBoxes=clips, allowLayerReuse=spec["reuse"])
    data = cx.call("compile", colr.compile, font)
    t2 = stub_table("COLR")

    def dec():
        t2.decompile(data, new_font(n))
        tb = t2.table
        cl = {}
        if tb.ClipList is not None:
            cl = {k: (c.Format, c.xMin, c.yMin, c.xMax, c.yMax) for k, c in tb.ClipList.clips.items()}
        return t2.version, unbuildColrV1(tb.LayerList, tb.BaseGlyphList), cl

    ver, got, gotclips = cx.call("decompile", dec)

    def norm(p):
        """the spec in the unbuilder's normal form: ints stay ints, fixed-point fields quantised floats"""
        out = {}
        for k, v in p.items():
            if k in ("Paint", "SourcePaint", "BackdropPaint"):
                out[k] = norm(v)
            elif k == "Layers":
                out[k] = [norm(x) for x in v]
            elif k == "ColorLine":
                out[k] = {"Extend": v["Extend"], "ColorStop": [{"StopOffset": _q(s["StopOffset"], 14), "PaletteIndex": s["PaletteIndex"], "Alpha": _q(s["Alpha"], 14)} for s in v["ColorStop"]]}
            elif k == "Transform":
                out[k] = {a: _q(b, 16) for a, b in v.items()}
            elif k in ("angle", "xSkewAngle", "ySkewAngle"):
                out[k] = _q(v / 180, 14) * 180  # degrees, stored as F2Dot14 fractions of a half circle
            elif k in ("Alpha", "scaleX", "scaleY", "scale"):
                out[k] = _q(v, 14)
            else:
                out[k] = v
        return out

    exp = {k: norm(v) for k, v in glyphs.items()}
    if ver != 1 or got != exp:
        bad = [k for k in set(exp) | set(got) if exp.get(k) != got.get(k)]
        cx.fail("roundtrip", "v1-paint-tree", "version %r glyph %s: expected %s got %s" % (ver, bad[:1], short(exp.get(bad[0]) if bad else None, 300), short(got.get(bad[0]) if bad else None, 300)))
    expclips = {k: (1,) + tuple(v) for k, v in (clips or {}).items()}
    if gotclips != expclips:
        cx.fail("roundtrip", "v1-clip-boxes", "expected %r got %r" % (expclips, gotclips))
    cx.label("colr:v1")

    def walk(p):
        cx.label("colr:paint-format-%d" % p["Format"])
        for k in ("Paint", "SourcePaint", "BackdropPaint"):
            if k in p:
                walk(p[k])
        for x in p.get("Layers", []):
            walk(x)

    for p in exp.values():
        walk(p)
    if t2.table.LayerList is not None and spec["reuse"]:
        cx.label("colr:layer-reuse-enabled")
    # HarfBuzz reads the v1 table: every base glyph is a colour glyph for it
    return True


# ---------------------------------------------------------------------------
# DeltaSetIndexMap (HVAR.AdvWidthMap)


def read_hvar_advmap(data):
    """Own reader: -> list of (outer, inner) of HVAR's advance width mapping (OpenType 'DeltaSetIndexMap')."""
    if len(data) < 20:
        raise otread.ReadError("HVAR too short")
    off = struct.unpack(">L", data[8:12])[0]
    if off == 0:
        return None
    fmt, ef = data[off], data[off + 1]
    if fmt == 0:
        (count,) = struct.unpack(">H", data[off + 2 : off + 4])
        p = off + 4
    elif fmt == 1:
        (count,) = struct.unpack(">L", data[off + 2 : off + 6])
        p = off + 6
    else:
        raise otread.ReadError("DeltaSetIndexMap format %d" % fmt)
    size = ((ef & 0x30) >> 4) + 1
    inner_bits = (ef & 0x0F) + 1
    out = []
    for i in range(count):
        chunk = data[p + i * size : p + (i + 1) * size]
        if len(chunk) != size:
            raise otread.ReadError("map data truncated")
        e = int.from_bytes(chunk, "big")
        out.append((e >> inner_bits, e & ((1 << inner_bits) - 1)))
    return out


def check_dsim(spec, cx):
    from fontTools.ttLib import newTable
    from fontTools.ttLib.tables import otTables as ot
    from fontTools.varLib import builder as vb

    n = spec["n"]
    names = glyph_names(n)
    font = new_font(n)
    want = [[o, i] for o, i in spec["map"]]

    def build():
        hvar = newTable("HVAR")
        hvar.table = ot.HVAR()
        hvar.table.Version = 0x00010000
        region = vb.buildVarRegion({"wght": (0.0, 1.0, 1.0)}, ["wght"])
        hvar.table.VarStore = vb.buildVarStore(vb.buildVarRegionList([{"wght": (0.0, 1.0, 1.0)}], ["wght"]), [vb.buildVarData([0], [[1], [2]])])
        hvar.table.AdvWidthMap = vb.buildVarIdxMap([(o << 16) | i for o, i in want], names)
        hvar.table.LsbMap = hvar.table.RsbMap = None
        return hvar

    hvar = cx.call("build", build)
    data = cx.call("compile", hvar.compile, font)
    t2 = stub_table("HVAR")

    def dec():
        t2.decompile(data, new_font(n))
        m = t2.table.AdvWidthMap.mapping
        return [[(m[g] >> 16) & 0xFFFF, m[g] & 0xFFFF] for g in names]

    got = cx.call("decompile", dec)
    if got != want:
        cx.fail("roundtrip", "varidx-map", first_diff(dict(enumerate(want)), dict(enumerate(got))))
    rd = cx.read("reader", read_hvar_advmap, data)
    # the writer may drop trailing entries that repeat the last one (the format says: beyond the end, the last entry applies)
    if rd is None or not rd:
        cx.fail("reader", "varidx-map", "no map written")
    else:
        full = [list(x) for x in rd] + [list(rd[-1])] * (n - len(rd))
        if full[:n] != want:
            cx.fail("reader", "varidx-map", first_diff(dict(enumerate(want)), dict(enumerate(full[:n]))))
        if len(rd) < n:
            cx.label("dsim:trailing-entries-trimmed")
    cx.label("dsim:%s" % spec["shape"])
    ored = 0
    for _o, i in want:
        ored |= i
    if ored and ored & (ored - 1) == 0 and ored >= 2:
        cx.label("dsim:inner-or-is-a-single-bit>=2")
    return True


# ---------------------------------------------------------------------------
# dispatch

FAMILIES = {
    "cmap": (G.cmap_specs, check_cmap),
    "cmap-big12": (lambda: G.cmap_specs(fmt=12, big=True), check_cmap),
    "cmap-big13": (lambda: G.cmap_specs(fmt=13, big=True), check_cmap),
    "metrics": (G.metrics_specs, check_metrics),
    "glyf": (G.glyf_specs, check_glyf),
    "glyf-loca": (G.glyf_loca_specs, check_glyf),
    "name": (G.name_specs, check_name),
    "gdef": (G.gdef_specs, check_gdef),
    "kern": (G.kern_specs, check_kern),
    "post": (G.post_specs, check_post),
    "os2": (G.os2_specs, check_os2),
    # one family per table version, so that every version occurs in every run whatever the seed
    "os2-v0": (lambda: G.os2_specs(version=0), check_os2),
    "os2-v1": (lambda: G.os2_specs(version=1), check_os2),
    "os2-v2": (lambda: G.os2_specs(version=2), check_os2),
    "os2-v3": (lambda: G.os2_specs(version=3), check_os2),
    "os2-v4": (lambda: G.os2_specs(version=4), check_os2),
    "os2-v5": (lambda: G.os2_specs(version=5), check_os2),
    "layout": (G.layout_specs, check_layout),
    "var": (G.var_specs, check_var),
    "colr": (G.colr_specs, check_colr),
    "dsim": (G.dsim_specs, check_dsim),
}

# quick-tier case counts per family (thorough = x20)
QUICK = {"cmap": 900, "cmap-big12": 4, "cmap-big13": 4, "metrics": 400, "glyf": 500, "glyf-loca": 24, "name": 500, "gdef": 400, "kern": 150, "post": 200, "os2": 60, "os2-v0": 12, "os2-v1": 12, "os2-v2": 12, "os2-v3": 12, "os2-v4": 12, "os2-v5": 12, "layout": 500, "var": 300, "colr": 300, "dsim": 300}
SHARDS = {"cmap": 8, "cmap-big12": 2, "cmap-big13": 2, "metrics": 4, "glyf": 6, "glyf-loca": 4, "name": 3, "gdef": 4, "kern": 1, "post": 2, "os2": 1, "os2-v0": 1, "os2-v1": 1, "os2-v2": 1, "os2-v3": 1, "os2-v4": 1, "os2-v5": 1, "layout": 6, "var": 5, "colr": 2, "dsim": 2}

REQUIRED_LABELS = [
    "cmap4:idRangeOffset", "cmap4:idDelta", "cmap4:idDelta-wraps", "cmap4:U+FFFF-mapped", "cmap4:empty", "cmap0", "cmap2", "cmap6",
    "cmap12", "cmap12:>64k", "cmap12:supplementary", "cmap13", "cmap13:>64k", "cmap14:default-uvs", "cmap14:non-default-uvs",
    "cmap:shared-subtable-data", "cmap:gid>32767", "cmap:harfbuzz",
    "hmtx:trimmed", "hmtx:untrimmed", "hmtx:all-equal", "hmtx:negative-sidebearing", "hmtx:no-header-table", "vmtx:trimmed",
    "glyf:repeat-flag", "glyf:repeat>255", "glyf:short-vector", "glyf:long-vector", "glyf:overlap-simple", "glyf:all-off-curve-contour",
    "glyf:instructions", "glyf:composite", "glyf:args-words", "glyf:args-bytes", "glyf:point-matching", "glyf:2x2", "glyf:2x2-exactly-one-off-diagonal-zero", "glyf:xy-scale",
    "glyf:scale", "glyf:USE_MY_METRICS", "glyf:ROUND_XY_TO_GRID", "glyf:nested-composite", "glyf:odd-glyph-length",
    "glyf:odd-length-padded-for-short-loca", "loca:long", "loca:short", "glyf:size-near-0x20000",
    "name:mac_roman", "name:utf_16_be", "name:utf16-supplementary", "name:shift_jis", "name:mac-shift_jis", "name:shared-string-storage",
    "coverage:fmt1", "coverage:fmt2", "classdef:fmt1", "classdef:fmt2", "coverage:unsorted-glyph-list",
    "kern:apple-1.0", "kern:version-0", "kern:several-subtables",
    "post:fmt1", "post:fmt2", "post:fmt3", "post:standard-name", "post:duplicate-names", "post:long-name",
    "os2:v0", "os2:v1", "os2:v2", "os2:v3", "os2:v4", "os2:v5",
    "singlesubst:delta", "singlesubst:list", "singlesubst:delta-wraps", "multiple:fmt1", "alternate:fmt1", "ligature:fmt1",
    "pairglyph:fmt1", "pairclass:fmt2", "markbase:attached", "singlepos:fmt1", "singlepos:fmt2", "layout:extension-lookup",
    "tv:shared-points", "tv:private-points", "tv:all-points", "tv:some-points", "tv:shared-peak-tuple", "tv:embedded-peak",
    "tv:intermediate-region", "tv:delta-run-zero", "tv:delta-run-byte", "tv:delta-run-word", "tv:delta-run-long",
    "gvar:harfbuzz-outline", "gvar:inferred-deltas", "avar", "cvar", "tv:cvar-shares-point-numbers", "fvar:instances-with-psname",
    "dsim:two-rows", "dsim:single-bit", "dsim:inner-or-is-a-single-bit>=2", "colr:v0", "colr:v1", "colr:paint-format-1", "colr:paint-format-12", "colr:paint-format-32",
]


def jobs(tier, seed):
    mult = 20 if tier == "thorough" else 1
    J = []
    for fam, n in QUICK.items():
        if fam not in FAMILIES:
            continue
        total = n * mult
        shards = SHARDS.get(fam, 2) * (4 if tier == "thorough" else 1)
        per = max(1, total // shards)
        for i in range(shards):
            J.append(dict(kind=fam, name="%s-%d" % (fam, i), n=per, seed=subseed(seed, fam, i)))
    return J


def run_case(family, spec, acc):
    cx = Ctx(acc, family, spec)
    nontrivial = False
    try:
        with time_limit(300):
            nontrivial = bool(FAMILIES[family][1](spec, cx))
    except Allowed:
        pass
    except CaseTimeout:
        acc.inconclusive += 1
    sample = None
    if len(acc.samples) < acc.MAX_SAMPLES:
        sample = dict(family=family, labels=sorted(set(cx.labels))[:12], spec=short(spec, 700))
    acc.case(fingerprint((family, spec)), nontrivial=nontrivial, labels=cx.labels + ["family:%s" % family], sample=sample)
    return cx


def run_job(job):
    acc = Acc()
    fam = job["kind"]
    if fam not in FAMILIES:
        raise HarnessError("unknown family %r" % fam)
    strat = FAMILIES[fam][0]()

    def body(spec, acc):
        run_case(fam, spec, acc)

    hyp_collect(acc, strat, body, job["n"], job["seed"])
    return acc


def finish(total, tier, seed):
    missing = [l for l in REQUIRED_LABELS if not total.labels.get(l)]
    if missing:
        raise HarnessError("branch labels never hit: %s" % ", ".join(missing))


def replay(case):
    acc = Acc()
    run_case(case["family"], case["spec"], acc)
    return acc.failures
