"""C03 — TTX XML is a lossless representation of a font."""

import io
import os
import random
import re

from vf import corpus
from vf.runner import Acc, CaseTimeout, HarnessError, scratch_dir, subseed, time_limit

ID = "C03"
LEVEL = "exploration"
RULE = (
    "every corpus font (binary and complete TTX) x dump options {splitTables, splitGlyphs, disassembleInstructions, "
    "bitmapGlyphDataFormat in raw/row/bitwise/extfile, newlinestr in LF/CRLF/CR, tables= / skipTables= selections} "
    "(default options plus seeded option tuples; a sample additionally through the ttx command-line main, in-process): "
    "A = save() of the fully decompiled original object model, B = save() of TTFont().importXML(dump) (for tables=/"
    "skipTables= dumps the dump is merged into a copy of the original, as ttx -m does); every table read back from A and B "
    "must be byte-identical, free-text tables (name, CFF/CFF2 strings, ...) being allowed to differ only by XML whitespace "
    "normalisation of their decoded content. non-trivial = the dump contains at least one table with a structured (non-hex) "
    "representation and uses a non-default option, or is the default dump of a font with >= 8 tables; distinct by (font, options)"
)
ASSUMPTIONS = [
    "the TTX fragment used for the whitespace-normalised comparison is produced by the library itself; it is only consulted when the table bytes differ",
    "fonts whose tables do not all decompile on the unchanged corpus file are excluded (counted)",
]

_WS = re.compile(rb"\s+")


def _read_tables(data):
    from fontTools.ttLib import TTFont

    f = TTFont(io.BytesIO(data), lazy=True)
    return {t: f.reader[t] for t in f.reader.keys()}


def _decompile_all(font):
    for tag in font.keys():
        if tag == "GlyphOrder":
            continue
        t = font[tag]
        if hasattr(t, "ensureDecompiled"):
            t.ensureDecompiled(recurse=True)


def _load_original(fid):
    from fontTools.ttLib import TTFont

    kind, rest = fid.split(":", 1)
    num = -1
    if kind == "bin":
        data = corpus.file_bytes(fid)
        if "#" in rest:
            num = int(rest.split("#")[1])
    else:
        data = corpus.sfnt_bytes(fid)
    f = TTFont(io.BytesIO(data), lazy=False, fontNumber=num, recalcBBoxes=False, recalcTimestamp=False)
    return f


def _norm_xml(font, tag):
    from props.c01 import table_xml

    if not hasattr(font, "bitmapGlyphDataFormat"):
        font.bitmapGlyphDataFormat = "raw"  # set by saveXML() only; the bitmap tables read it in toXML
    x = table_xml(font, tag)
    return _WS.sub(b" ", x)


def run_case(case, acc):
    from fontTools.ttLib import TTFont

    fid = case["fid"]
    opts = dict(case["opts"])
    try:
        fa = _load_original(fid)
        _decompile_all(fa)
    except CaseTimeout:
        raise
    except Exception as e:
        acc.exclude("original-does-not-decompile:%s" % type(e).__name__)
        return
    flavor = fa.flavor
    bufA = io.BytesIO()
    try:
        fa.save(bufA)
    except CaseTimeout:
        raise
    except Exception as e:
        acc.exclude("original-does-not-save:%s" % type(e).__name__)
        return
    A = bufA.getvalue()
    tablesA = _read_tables(A)
    # dump from a fresh load so that the save above cannot influence the dump
    fd = _load_original(fid)
    newline = opts.pop("newlinestr", "\n")
    via_cli = opts.pop("cli", False)
    sel = opts.get("tables") or None
    skip = opts.get("skipTables") or None
    with scratch_dir("c03") as d:
        path = os.path.join(d, "dump.ttx")
        try:
            with time_limit(900):
                if via_cli:
                    src = os.path.join(d, "in.otf" if "CFF " in fd else "in.ttf")
                    with open(src, "wb") as fh:
                        fh.write(A if flavor is None else _plain(A))
                    from fontTools import ttx

                    args = ["-q", "-o", path, "--newline", {"\n": "LF", "\r\n": "CRLF", "\r": "CR"}[newline]]
                    if opts.get("splitTables"):
                        args.append("-s")
                    if opts.get("splitGlyphs"):
                        args.append("-g")
                    if not opts.get("disassembleInstructions", True):
                        args.append("-i")
                    if opts.get("bitmapGlyphDataFormat"):
                        args += ["-z", opts["bitmapGlyphDataFormat"]]
                    for t in sel or []:
                        args += ["-t", t]
                    for t in skip or []:
                        args += ["-x", t]
                    ttx.main(args + [src])
                else:
                    fd.saveXML(path, newlinestr=newline, **opts)
        except CaseTimeout:
            acc.inconclusive += 1
            return
        except SystemExit as e:
            acc.fail("dump-raises", "SystemExit", "ttx main exited with %r" % (e.code,), case)
            return
        except Exception as e:
            acc.fail_exc("dump-raises", e, case)
            return
        # import
        try:
            with time_limit(900):
                if sel or skip:
                    fb = TTFont(io.BytesIO(A), lazy=False, recalcBBoxes=False, recalcTimestamp=False)
                else:
                    fb = TTFont(recalcBBoxes=False, recalcTimestamp=False)
                if via_cli:
                    out = os.path.join(d, "out.bin")
                    from fontTools import ttx

                    cargs = ["-q", "-o", out, "--no-recalc-timestamp", "-b"]
                    if sel or skip:
                        cargs += ["-m", src]
                    ttx.main(cargs + [path])
                    with open(out, "rb") as fh:
                        B = fh.read()
                else:
                    fb.importXML(path)
                    fb.flavor = flavor
                    bufB = io.BytesIO()
                    fb.save(bufB)
                    B = bufB.getvalue()
        except CaseTimeout:
            acc.inconclusive += 1
            return
        except SystemExit as e:
            acc.fail("import-raises", "SystemExit", "ttx main exited with %r" % (e.code,), case)
            return
        except Exception as e:
            acc.fail_exc("import-raises", e, case)
            return
    tablesB = _read_tables(B)
    if via_cli and flavor is not None:
        tablesA = _read_tables(_plain(A))
    if set(tablesA) != set(tablesB):
        acc.fail("tables", "table-set-differs", "missing %s extra %s" % (sorted(set(tablesA) - set(tablesB)), sorted(set(tablesB) - set(tablesA))), case)
    diff = []
    fA = fB = None
    for tag in sorted(set(tablesA) & set(tablesB)):
        a, b = tablesA[tag], tablesB[tag]
        if tag == "head":
            a = a[:8] + b"\0\0\0\0" + a[12:]
            b = b[:8] + b"\0\0\0\0" + b[12:]
        if a == b:
            continue
        # free text: equal after XML whitespace normalisation of the decoded content?
        try:
            if fA is None:
                fA = TTFont(io.BytesIO(A), lazy=False)
                fB = TTFont(io.BytesIO(B), lazy=False)
            xa, xb = _norm_xml(fA, tag), _norm_xml(fB, tag)
        except CaseTimeout:
            raise
        except Exception as e:
            acc.fail_exc("compare-raises", e, dict(case, table=tag))
            continue
        if xa == xb and tag in ("name", "CFF ", "CFF2", "meta", "SVG ", "TSI0", "TSI1", "TSI3", "TSI5", "TSIV", "Sill", "Feat", "ltag"):
            acc.label("equal-after-whitespace-normalisation:%s" % tag.strip())
            continue
        diff.append(tag)
        kind = "table-differs:%s" % tag.strip()
        if tag == "head" and len(a) == len(b) == 54 and a[:20] == b[:20] and a[36:] == b[36:]:
            # only created/modified differ: is it the documented-by-test clamping of dates before 1970?
            import struct

            ca, ma = struct.unpack(">qq", a[20:36])
            cb, mb = struct.unpack(">qq", b[20:36])
            E = 2082844800  # 1970-01-01 in seconds since 1904
            if all((x == y) or (x < E and y == E) for x, y in ((ca, cb), (ma, mb))):
                kind = "table-differs:head:timestamp-before-1970-clamped"
        acc.fail("bytes", kind, "table %r: %d vs %d bytes, first difference at byte %d%s" % (tag, len(a), len(b), _firstdiff(a, b), "" if xa != xb else " (decoded content equal)"), case)
    nondefault = bool(opts) or newline != "\n" or via_cli
    structured = len(tablesA) >= 8
    labels = ["newline:%r" % newline, "cli" if via_cli else "api"] + ["opt:%s=%s" % (k, v if not isinstance(v, list) else "sel") for k, v in sorted(opts.items())]
    acc.case(case, nontrivial=(nondefault and structured) or structured, labels=labels, sample=case if nondefault else None)


def _plain(data):
    from fontTools.ttLib import TTFont

    f = TTFont(io.BytesIO(data), lazy=True, recalcBBoxes=False, recalcTimestamp=False)
    f.flavor = None
    b = io.BytesIO()
    f.save(b, reorderTables=None)
    return b.getvalue()


def _firstdiff(a, b):
    for i, (x, y) in enumerate(zip(a, b)):
        if x != y:
            return i
    return min(len(a), len(b))


def option_tuple(rnd, tables):
    o = {}
    if rnd.random() < 0.35:
        o["splitTables"] = True
    if rnd.random() < 0.25:
        o["splitGlyphs"] = True
    if rnd.random() < 0.4:
        o["disassembleInstructions"] = False
    if rnd.random() < 0.5:
        o["bitmapGlyphDataFormat"] = rnd.choice(["raw", "row", "bitwise", "extfile"])
    o["newlinestr"] = rnd.choice(["\n", "\r\n", "\r", "\n"])
    r = rnd.random()
    if r < 0.2 and len(tables) > 2:
        o["tables"] = sorted(rnd.sample(tables, rnd.randrange(1, min(6, len(tables)))))
    elif r < 0.4 and len(tables) > 2:
        o["skipTables"] = sorted(rnd.sample(tables, rnd.randrange(1, min(4, len(tables)))))
    # derived tables whose dump is empty by design (their content is produced when the master table is
    # compiled) are only meaningful together with the master: loca<-glyf, Gloc<-Glat, and the bitmap locators
    # (their dump names the glyphs; the data locations are produced when the bitmap data table is compiled)
    for derived, master in (("loca", "glyf"), ("Gloc", "Glat"), ("EBLC", "EBDT"), ("CBLC", "CBDT"), ("bloc", "bdat")):
        if "tables" in o and derived in o["tables"] and master not in o["tables"] and master in tables:
            o["tables"] = sorted(o["tables"] + [master])
        if "skipTables" in o and master in o["skipTables"] and derived not in o["skipTables"] and derived in tables:
            o["skipTables"] = sorted(o["skipTables"] + [derived])
    if rnd.random() < 0.15:
        o["cli"] = True
    return o


def jobs(tier, seed):
    J = []
    for fid in corpus.ids():
        J.append(dict(kind="font", name=fid, fid=fid, seed=subseed(seed, fid), n=(24 if tier == "thorough" else 1)))
        if fid.startswith("gen:") and corpus.gen_spec(fid).get("weird_names") and "glyf" in corpus.entry(fid)["tables"]:
            # glyph names that collide as file names: always also dumped one file per glyph
            J.append(dict(kind="font", name=fid + ":splitGlyphs", fid=fid, seed=subseed(seed, fid, "split"), n=1, force={"splitGlyphs": True}))
    return J


def run_job(job):
    acc = Acc()
    rnd = random.Random(job["seed"])
    e = corpus.entry(job["fid"])
    cases = [dict(fid=job["fid"], opts={})]
    for _ in range(job["n"]):
        cases.append(dict(fid=job["fid"], opts=option_tuple(rnd, e["tables"])))
    if job.get("force"):
        cases = [dict(fid=job["fid"], opts=dict(job["force"]))] + [dict(c, opts=dict({k: v for k, v in c["opts"].items() if k not in ("tables", "skipTables", "cli")}, **job["force"])) for c in cases[1:]]
    # bitmap fonts: make sure every bitmap format is used
    if {"CBDT", "EBDT", "sbix"} & set(e["tables"]):
        for fmt in ("raw", "row", "bitwise", "extfile"):
            cases.append(dict(fid=job["fid"], opts={"bitmapGlyphDataFormat": fmt, "newlinestr": rnd.choice(["\n", "\r\n"])}))
    for c in cases:
        try:
            with time_limit(1800):
                run_case(c, acc)
        except CaseTimeout:
            acc.inconclusive += 1
    return acc


def replay(case):
    acc = Acc()
    run_case(case, acc)
    return acc.failures
