"""Common machinery: bootstrap of the repo import, accumulation of case records,
failure bucketing, known findings, replay files, evidence, exit codes.

A property module (props/cNN.py) provides
    ID, LEVEL, RULE, ASSUMPTIONS
    jobs(tier, seed)     -> list of JSON-able job dicts
    run_job(job)         -> Acc                (executed in a worker process)
    replay(case)         -> list of failure dicts (clause, kind, where, detail)
Every random choice inside a job comes from Hypothesis strategies seeded with a
value derived from VERIF_SEED, or from random.Random(derived seed) used only
to choose which slice of an enumeration a tier takes.
"""

import collections
import contextlib
import hashlib
import json
import multiprocessing
import os
import shutil
import sys
import time
import traceback

VERIF = os.path.dirname(os.path.dirname(os.path.abspath(__file__)))
REPO = os.environ.get("VERIF_REPO", "/repo")
REPO_LIB = os.path.join(REPO, "Lib")
TESTS = os.path.join(REPO, "Tests")
NPROC = int(os.environ.get("VERIF_NPROC", "16"))
# where evidence/ and replays/ are written: /verif, except for runs against a mutated scratch tree
# (tools/mut.py, tools/seedcheck.py set VERIF_OUT so that committed evidence is never overwritten by them)
OUT = os.environ.get("VERIF_OUT", VERIF)


class HarnessError(Exception):
    pass


def bootstrap():
    """Import fontTools from the repo's working tree, never from site-packages."""
    if REPO_LIB not in sys.path:
        sys.path.insert(0, REPO_LIB)
    import fontTools

    here = os.path.realpath(os.path.dirname(fontTools.__file__))
    if not here.startswith(os.path.realpath(REPO_LIB)):
        raise HarnessError("fontTools imported from %s, not from %s" % (here, REPO_LIB))
    import logging

    logging.disable(logging.CRITICAL)
    _pin_hypothesis()
    return fontTools


def _pin_hypothesis():
    """Hypothesis >= 6.131 harvests literal constants from every *local* module found in sys.modules
    (fontTools under /repo/Lib and our own modules count as local) and mixes them into generation.
    Which fontTools modules are loaded depends on which jobs a pool worker happened to run before,
    so generation was not a function of VERIF_SEED alone (observed: C02 label counts differing between
    two runs of the same seed). The pool of local constants is therefore pinned to the empty one;
    boundary values are put into the strategies explicitly."""
    try:
        from hypothesis.internal.conjecture import providers as _p
    except Exception:  # pragma: no cover
        return
    if getattr(_p, "_vf_pinned", False):
        return
    try:
        empty = _p.Constants()
        _p._get_local_constants = lambda: empty
        _p._vf_pinned = True
    except Exception:  # pragma: no cover - older/newer hypothesis without this feature
        pass


# ---------------------------------------------------------------------------
# JSON helpers (bytes, tuples, fractions survive a replay file)


def to_jsonable(o):
    from fractions import Fraction

    if isinstance(o, (bytes, bytearray)):
        return {"$b": bytes(o).hex()}
    if isinstance(o, Fraction):
        return {"$q": [o.numerator, o.denominator]}
    if isinstance(o, dict):
        if all(isinstance(k, str) for k in o):
            return {k: to_jsonable(v) for k, v in o.items()}
        return {"$d": [[to_jsonable(k), to_jsonable(v)] for k, v in o.items()]}
    if isinstance(o, (list, tuple)):
        return [to_jsonable(v) for v in o]
    if isinstance(o, (set, frozenset)):
        return {"$s": sorted((to_jsonable(v) for v in o), key=repr)}
    if isinstance(o, float):
        if o != o or o in (float("inf"), float("-inf")):
            return {"$f": repr(o)}
        return o
    if isinstance(o, (str, int, bool)) or o is None:
        return o
    return {"$r": repr(o)}


def from_jsonable(o):
    from fractions import Fraction

    if isinstance(o, dict):
        if set(o) == {"$b"}:
            return bytes.fromhex(o["$b"])
        if set(o) == {"$q"}:
            return Fraction(o["$q"][0], o["$q"][1])
        if set(o) == {"$d"}:
            return {_hashable(from_jsonable(k)): from_jsonable(v) for k, v in o["$d"]}
        if set(o) == {"$s"}:
            return set(_hashable(from_jsonable(v)) for v in o["$s"])
        if set(o) == {"$f"}:
            return float(o["$f"])
        return {k: from_jsonable(v) for k, v in o.items()}
    if isinstance(o, list):
        return [from_jsonable(v) for v in o]
    return o


def _hashable(v):
    if isinstance(v, list):
        return tuple(_hashable(x) for x in v)
    return v


def fingerprint(obj):
    s = json.dumps(to_jsonable(obj), sort_keys=True, default=repr)
    return hashlib.sha1(s.encode("utf-8", "surrogatepass")).hexdigest()[:14]


def subseed(seed, *parts):
    h = hashlib.sha256(repr((seed,) + parts).encode()).digest()
    return int.from_bytes(h[:6], "big")


def short(o, n=300):
    s = o if isinstance(o, str) else repr(o)
    return s if len(s) <= n else s[: n - 20] + "...(%d chars)" % len(s)


# ---------------------------------------------------------------------------
# Failure location: innermost fontTools frame of a traceback


def innermost_frame(exc):
    where = ""
    tb = exc.__traceback__
    lib = os.path.realpath(REPO_LIB)
    for fs in traceback.extract_tb(tb):
        fn = os.path.realpath(fs.filename)
        if fn.startswith(lib):
            where = "%s:%s" % (os.path.relpath(fn, lib), fs.name)
    return where


class Acc:
    """Accumulator returned by a job: counts, labels, samples, failures."""

    MAX_SAMPLES = 4
    MAX_FAILS_PER_BUCKET = 3

    def __init__(self):
        self.evals = 0
        self.nontrivial = set()  # fingerprints
        self.nontrivial_bulk = 0  # distinct-by-construction (enumerations)
        self.labels = collections.Counter()
        self.samples = []
        self.failures = []
        self._bucket_counts = collections.Counter()
        self.excluded = collections.Counter()
        self.inconclusive = 0
        self.extra = {}

    # -- recording -----------------------------------------------------
    def case(self, fp_src=None, nontrivial=False, labels=(), sample=None):
        self.evals += 1
        if nontrivial:
            self.nontrivial.add(fp_src if isinstance(fp_src, str) and len(fp_src) == 14 else fingerprint(fp_src))
        for l in labels:
            self.labels[l] += 1
        if sample is not None and len(self.samples) < self.MAX_SAMPLES:
            self.samples.append(to_jsonable(sample))

    def bulk(self, evals, nontrivial=0, label=None, sample=None):
        self.evals += evals
        self.nontrivial_bulk += nontrivial
        if label:
            self.labels[label] += evals
        if sample is not None and len(self.samples) < self.MAX_SAMPLES:
            self.samples.append(to_jsonable(sample))

    def label(self, l, n=1):
        self.labels[l] += n

    def exclude(self, why, n=1):
        self.excluded[why] += n

    def fail(self, clause, kind, detail, case, where=""):
        key = "%s|%s|%s" % (clause, kind, where)
        self._bucket_counts[key] += 1
        if self._bucket_counts[key] <= self.MAX_FAILS_PER_BUCKET:
            self.failures.append(
                dict(clause=clause, kind=kind, where=where, detail=short(detail, 600), case=to_jsonable(case))
            )

    def fail_exc(self, clause, exc, case, extra=""):
        self.fail(clause, type(exc).__name__, "%s%s" % (short(str(exc), 300), extra), case, innermost_frame(exc))

    @contextlib.contextmanager
    def guard(self, clause, case, allowed=()):
        """Exceptions raised by the code under test inside the block become
        failures of `clause` (unless of an allowed type, which are re-raised as
        Allowed so the caller can skip the rest of the case)."""
        try:
            yield
        except Allowed:
            raise
        except allowed as e:
            raise Allowed(e)
        except (KeyboardInterrupt, MemoryError, HarnessError):
            raise
        except Exception as e:
            self.fail_exc(clause, e, case)
            raise Allowed(e)

    # -- merge -----------------------------------------------------------
    def merge(self, other):
        self.evals += other.evals
        self.nontrivial |= other.nontrivial
        self.nontrivial_bulk += other.nontrivial_bulk
        self.labels.update(other.labels)
        for s in other.samples:
            if len(self.samples) < 8:
                self.samples.append(s)
        for k, v in other._bucket_counts.items():
            self._bucket_counts[k] += v
        self.failures.extend(other.failures)
        self.excluded.update(other.excluded)
        self.inconclusive += other.inconclusive
        for k, v in other.extra.items():
            if isinstance(v, (int, float)) and isinstance(self.extra.get(k, 0), (int, float)):
                self.extra[k] = self.extra.get(k, 0) + v
            elif isinstance(v, dict):
                d = self.extra.setdefault(k, {})
                for kk, vv in v.items():
                    if isinstance(vv, (int, float)) and isinstance(d.get(kk, 0), (int, float)):
                        d[kk] = d.get(kk, 0) + vv
                    else:
                        d[kk] = vv
            else:
                self.extra[k] = v


class Allowed(Exception):
    """Raised by Acc.guard after an exception has been recorded or allowed."""


class CaseTimeout(BaseException):
    """Raised inside a worker by time_limit(); BaseException so that code under
    test with blanket `except Exception` handlers cannot swallow it."""


@contextlib.contextmanager
def time_limit(seconds):
    """Per-case wall-clock cap (worker processes only; uses SIGALRM)."""
    import signal

    def handler(signum, frame):
        raise CaseTimeout("no result within %ss" % seconds)

    old = signal.signal(signal.SIGALRM, handler)
    signal.setitimer(signal.ITIMER_REAL, seconds)
    try:
        yield
    finally:
        signal.setitimer(signal.ITIMER_REAL, 0)
        signal.signal(signal.SIGALRM, old)


# ---------------------------------------------------------------------------
# Hypothesis driving: collect failures without stopping, then shrink per bucket


def hyp_settings(n, phases=None):
    import hypothesis
    from hypothesis import HealthCheck, Phase, settings

    return settings(
        max_examples=n,
        database=None,
        deadline=None,
        derandomize=False,
        report_multiple_bugs=False,
        phases=phases or [Phase.generate],
        suppress_health_check=[HealthCheck.too_slow, HealthCheck.data_too_large, HealthCheck.large_base_example],
        verbosity=hypothesis.Verbosity.quiet,
    )


def hyp_collect(acc, strategy, body, n, seed):
    """Run body(case, acc) on n generated cases; body records failures on acc
    and never raises for a property failure."""
    import hypothesis
    from hypothesis import given

    @hypothesis.seed(seed)
    @hyp_settings(n)
    @given(strategy)
    def t(case):
        try:
            body(case, acc)
        except Allowed:
            pass

    try:
        t()
    except hypothesis.errors.FailedHealthCheck as e:
        raise HarnessError("generator health check failed: %s" % e)


def hyp_shrink(strategy, body, want_key, n, seed, budget_s=60):
    """Re-run the same seeded search raising only on failures of bucket want_key
    and let Hypothesis shrink; returns the smallest failing case seen, or None."""
    import hypothesis
    from hypothesis import Phase, given

    state = {"last": None, "t0": time.time()}

    @hypothesis.seed(seed)
    @hyp_settings(n, phases=[Phase.generate, Phase.shrink])
    @given(strategy)
    def t(case):
        if time.time() - state["t0"] > budget_s:
            return
        a = Acc()
        try:
            body(case, a)
        except Allowed:
            pass
        for f in a.failures:
            if "%s|%s|%s" % (f["clause"], f["kind"], f["where"]) == want_key:
                state["last"] = f
                raise AssertionError(want_key)

    try:
        t()
    except BaseException:
        pass
    return state["last"]


# ---------------------------------------------------------------------------
# scratch directories


@contextlib.contextmanager
def scratch_dir(tag="s"):
    base = os.path.join(VERIF, ".scratch")
    os.makedirs(base, exist_ok=True)
    import tempfile

    d = tempfile.mkdtemp(prefix="%s-%d-" % (tag, os.getpid()), dir=base)
    try:
        yield d
    finally:
        shutil.rmtree(d, ignore_errors=True)


# ---------------------------------------------------------------------------
# known findings


def load_known():
    p = os.path.join(VERIF, "known_findings.json")
    if not os.path.exists(p):
        return []
    with open(p) as f:
        data = json.load(f)
    return [e for e in data.get("open", [])]


def match_known(prop_id, f, known):
    for e in known:
        if e.get("property") != prop_id:
            continue
        m = e.get("match")
        if not m:
            continue  # witness-only entries (defects excluded by construction) never suppress a generated failure
        ok = True
        for k in ("clause", "kind", "where"):
            if k in m and m[k] != f.get(k):
                ok = False
        if ok and "detail_contains" in m and m["detail_contains"] not in f.get("detail", ""):
            ok = False
        if ok and "case_contains" in m:
            cs = json.dumps(f.get("case"), sort_keys=True)
            if isinstance(m["case_contains"], list):
                if not any(x in cs for x in m["case_contains"]):
                    ok = False
            elif m["case_contains"] not in cs:
                ok = False
        if ok:
            return e
    return None


def run_witnesses(prop_id):
    """Open known findings that carry a witness (findings/<id>.py with reproduce() -> None | str): the defect is
    excluded from generation by construction, the witness shows on every run that it is still there.
    -> (list of (entry, observed) that reproduce, list of ids that no longer do)"""
    import importlib.util

    hits, gone = [], []
    with open(os.path.join(VERIF, "known_findings.json")) as fh:
        fixed = [dict(e, _fixed=True) for e in json.load(fh).get("fixed_witnesses", [])]
    for e in load_known() + fixed:
        if e.get("property") != prop_id or not e.get("witness"):
            continue
        path = os.path.join(VERIF, e["witness"])
        try:
            spec = importlib.util.spec_from_file_location("finding_" + e["id"].replace("-", "_"), path)
            mod = importlib.util.module_from_spec(spec)
            spec.loader.exec_module(mod)
            with time_limit(120):
                res = mod.reproduce()
        except CaseTimeout:
            res = "witness timed out"
        except Exception as ex:  # the witness itself must never break the check
            if not e.get("_fixed"):
                gone.append("%s (witness raised %s: %s)" % (e["id"], type(ex).__name__, short(str(ex), 120)))
            continue
        if res:
            hits.append((e, str(res)))
        elif not e.get("_fixed"):
            gone.append(e["id"])
    return hits, gone


# ---------------------------------------------------------------------------
# generated corpus fonts named in a case travel with the replay file


def _gen_specs_of(case):
    import re

    from . import corpus

    out = {}
    for fid in sorted(set(re.findall(r"gen:\d+:\d+", json.dumps(case)))):
        try:
            out[fid] = to_jsonable(corpus.gen_spec(fid))
        except Exception:
            pass
    return out


def _register_gen_specs(rec):
    gs = rec.get("gen_specs") or {}
    if gs:
        from . import corpus

        for fid, spec in gs.items():
            corpus.register_generated(fid, from_jsonable(spec))


# ---------------------------------------------------------------------------
# driver


def _replay_job(mod, job):
    """Replay tier: a saved failing case (a former violation, a seeded change's witness or a known
    finding) re-run through mod.replay; its failures are bucketed like any other."""
    acc = Acc()
    try:
        with open(job["path"]) as fh:
            rec = json.load(fh)
        _register_gen_specs(rec)
        with time_limit(180):
            fails = mod.replay(from_jsonable(rec["case"]))
    except CaseTimeout:
        acc.inconclusive += 1
        acc.label("replay-tier:timeout")
        return acc
    except HarnessError:
        raise
    except Exception as e:  # a stale replay file must never break the check
        acc.label("replay-tier:not-replayable:%s" % type(e).__name__)
        return acc
    acc.evals += 1
    acc.label("replay-tier:cases")
    for f in fails or []:
        acc.fail(f.get("clause", "replay"), f.get("kind", "?"), f.get("detail", ""), rec["case"], f.get("where", ""))
    return acc


def _worker(args):
    modname, job = args
    try:
        bootstrap()
        import importlib

        mod = importlib.import_module(modname)
        t0 = time.time()
        if job.get("kind") == "__replay__":
            return ("ok", job, _replay_job(mod, job))
        acc = mod.run_job(job)
        acc.extra.setdefault("job_wall", {})[job.get("name", job.get("kind", "job"))] = round(time.time() - t0, 2)
        return ("ok", job, acc)
    except HarnessError as e:
        return ("harness", job, "%s" % e)
    except BaseException as e:  # anything else escaping a job is a harness bug
        return ("harness", job, "".join(traceback.format_exception(type(e), e, e.__traceback__))[-3000:])


def run(mod, tier, seed, nproc=None):
    t0 = time.time()
    bootstrap()
    jobs = mod.jobs(tier, seed)
    # replay tier: committed replay files of this property run first (seconds)
    rdir0 = os.path.join(VERIF, "replays", mod.ID)
    if os.path.isdir(rdir0) and not getattr(mod, "NO_REPLAY_TIER", False):
        rp = sorted(f for f in os.listdir(rdir0) if f.endswith(".json"))[: getattr(mod, "REPLAY_TIER_MAX", 40)]
        jobs = [dict(kind="__replay__", name="replay:" + f, path=os.path.join(rdir0, f)) for f in rp] + jobs
    total = Acc()
    harness_errors = []
    nproc = nproc or NPROC
    if nproc > 1 and len(jobs) > 1:
        ctx = multiprocessing.get_context("fork")
        with ctx.Pool(min(nproc, len(jobs)), maxtasksperchild=getattr(mod, "MAXTASKS", None)) as pool:
            it = pool.imap_unordered(_worker, [(mod.__name__, j) for j in jobs], chunksize=1)
            budget = getattr(mod, "WALL_BUDGET", {}).get(tier, 1500 if tier == "quick" else 4 * 3600)
            done = 0
            while done < len(jobs):
                left = budget - (time.time() - t0)
                try:
                    status, job, payload = it.next(timeout=max(1.0, left))
                except multiprocessing.TimeoutError:
                    harness_errors.append(({"name": "watchdog"}, "wall budget of %ds exhausted with %d/%d jobs done (inconclusive, not a violation)" % (budget, done, len(jobs))))
                    pool.terminate()
                    break
                except StopIteration:
                    break
                done += 1
                if status == "ok":
                    total.merge(payload)
                else:
                    harness_errors.append((job, payload))
    else:
        for j in jobs:
            status, job, payload = _worker((mod.__name__, j))
            if status == "ok":
                total.merge(payload)
            else:
                harness_errors.append((job, payload))

    if hasattr(mod, "finish"):
        try:
            mod.finish(total, tier, seed)
        except HarnessError as e:
            harness_errors.append(({"name": "finish"}, str(e)))

    # bucket failures
    known = load_known()
    buckets = collections.OrderedDict()
    for f in total.failures:
        key = "%s|%s|%s" % (f["clause"], f["kind"], f["where"])
        buckets.setdefault(key, []).append(f)
    violations = 0
    known_hits = collections.OrderedDict()
    out_lines = []
    rdir = os.path.join(OUT, "replays", mod.ID)
    for key, fs in buckets.items():
        unknown = []
        for f in fs:
            e = match_known(mod.ID, f, known)
            if e is not None:
                known_hits.setdefault(e["id"], [e, 0])[1] += 1
                kp = os.path.join(rdir, "known-%s.json" % e["id"])
                if not os.path.exists(kp):
                    os.makedirs(rdir, exist_ok=True)
                    with open(kp, "w") as fh:
                        json.dump(dict(property=mod.ID, bucket=key, seed=seed, tier=tier, known_finding=e["id"], gen_specs=_gen_specs_of(f["case"]), **f), fh, indent=1, sort_keys=True)
            else:
                unknown.append(f)
        if not unknown:
            continue
        f = min(unknown, key=lambda f: len(json.dumps(f["case"])))
        if hasattr(mod, "shrink"):
            try:
                g = mod.shrink(f, key, tier, seed)
                if g is not None:
                    f = g
            except Exception:
                pass
        os.makedirs(rdir, exist_ok=True)
        path = os.path.join(rdir, "%s.json" % hashlib.sha1(key.encode()).hexdigest()[:12])
        with open(path, "w") as fh:
            json.dump(
                dict(property=mod.ID, bucket=key, seed=seed, tier=tier, count=total._bucket_counts.get(key, len(fs)), gen_specs=_gen_specs_of(f["case"]), **f),
                fh,
                indent=1,
                sort_keys=True,
            )
        violations += 1
        out_lines.append("VIOLATION property=%s replay=%s" % (mod.ID, os.path.relpath(path, VERIF) if OUT == VERIF else path))
        out_lines.append("  bucket=%s n=%d detail=%s" % (key, total._bucket_counts.get(key, len(fs)), short(f["detail"], 300)))
    for kid, (e, n) in known_hits.items():
        print("KNOWN-FINDING: property=%s %s (%s; %d case(s) this run)" % (mod.ID, e["what"], kid, n))
    w_hits, w_gone = run_witnesses(mod.ID)
    for e, observed in list(w_hits):
        if e.get("_fixed"):
            # a repaired defect is back
            w_hits.remove((e, observed))
            violations += 1
            print("VIOLATION property=%s replay=%s" % (mod.ID, e["witness"]))
            print("  bucket=regression-of-fixed-finding|%s| detail=%s (repaired by %s)" % (e["id"], short(observed, 300), e.get("commit")))
    for e, observed in w_hits:
        known_hits.setdefault(e["id"], [e, 0])[1] += 1
        print("KNOWN-FINDING: property=%s %s (%s; witness %s: %s)" % (mod.ID, e["what"], e["id"], e["witness"], short(observed, 200)))
    for g in w_gone:
        print("NOTE: known finding %s no longer reproduces" % g)

    nontriv = len(total.nontrivial) + total.nontrivial_bulk
    if not total.samples:  # a module that recorded no sample: show at least which jobs ran
        total.samples = [to_jsonable(dict(job=j)) for j in jobs[:3]]
    cov = dict(
        evaluations=total.evals,
        distinct_nontrivial=nontriv,
        rule=mod.RULE,
        samples=total.samples[:8],
        labels=dict(sorted(total.labels.items())),
        excluded_by_construction=dict(total.excluded),
        inconclusive=total.inconclusive,
        jobs=len(jobs),
        known_findings_hit={k: v[1] for k, v in known_hits.items()},
        harness_errors=len(harness_errors),
    )
    for k, v in total.extra.items():
        if k != "job_wall":
            cov[k] = v
    if "job_wall" in total.extra:
        jw = total.extra["job_wall"]
        cov["slowest_jobs"] = dict(sorted(jw.items(), key=lambda kv: -kv[1])[:5])
    ev = dict(
        property_id=mod.ID,
        tier=tier,
        seed=seed,
        level=mod.LEVEL,
        coverage=cov,
        assumptions=list(getattr(mod, "ASSUMPTIONS", [])),
        wall_s=round(time.time() - t0, 2),
        violations=violations,
    )
    os.makedirs(os.path.join(OUT, "evidence"), exist_ok=True)
    with open(os.path.join(OUT, "evidence", "%s.json" % mod.ID), "w") as fh:
        json.dump(ev, fh, indent=1, sort_keys=True)
        fh.write("\n")

    for l in out_lines:
        print(l)
    print(
        "%s tier=%s seed=%d evaluations=%d distinct_nontrivial=%d violations=%d known=%d harness_errors=%d wall=%.1fs"
        % (mod.ID, tier, seed, total.evals, nontriv, violations, len(known_hits), len(harness_errors), time.time() - t0)
    )
    if violations:
        return 1
    if harness_errors:
        for job, msg in harness_errors[:5]:
            print("HARNESS-ERROR job=%s\n%s" % (short(job, 200), msg), file=sys.stderr)
        return 2
    if total.evals == 0 or nontriv < 2:
        print("HARNESS-ERROR vacuous run (evaluations=%d nontrivial=%d)" % (total.evals, nontriv), file=sys.stderr)
        return 2
    return 0


def replay(mod, path):
    bootstrap()
    if path.endswith(".py"):
        # a witness of a known / repaired finding
        import importlib.util

        spec = importlib.util.spec_from_file_location("witness", path)
        w = importlib.util.module_from_spec(spec)
        spec.loader.exec_module(w)
        res = w.reproduce()
        if res:
            is_open = any(os.path.abspath(os.path.join(VERIF, e.get("witness", ""))) == os.path.abspath(path) for e in load_known())
            if is_open:
                print("KNOWN-FINDING: property=%s %s" % (mod.ID, short(res, 400)))
                return 0
            print("  detail=%s" % short(res, 400))
            print("VIOLATION property=%s replay=%s" % (mod.ID, path))
            return 1
        print("%s witness %s: does not reproduce" % (mod.ID, path))
        return 0
    with open(path) as fh:
        rec = json.load(fh)
    _register_gen_specs(rec)
    case = from_jsonable(rec["case"])
    fails = mod.replay(case)
    known = load_known()
    bad = 0
    for f in fails:
        e = match_known(mod.ID, f, known)
        if e is not None:
            print("KNOWN-FINDING: property=%s %s (%s)" % (mod.ID, e["what"], e["id"]))
            continue
        bad += 1
        print("  clause=%s kind=%s where=%s detail=%s" % (f["clause"], f["kind"], f["where"], short(f["detail"], 400)))
    if bad:
        print("VIOLATION property=%s replay=%s" % (mod.ID, path))
        return 1
    print("%s replay %s: no violation" % (mod.ID, path))
    return 0
