"""Independent struct-only readers for the OpenType tables property C02 needs.

Written from the OpenType specification chapters (cmap, hmtx/vmtx, name, kern, post,
OS/2, GDEF / common layout tables, fvar, avar, gvar, cvar, "Tuple variation store",
COLR v0).  Only `struct` and Python's built-in text codecs are used; nothing is
shared with fontTools.  Container and glyf decoding live in vf/sfntref.py.

Every parser raises ReadError when the bytes are not what the specification allows
(unsorted arrays that a binary search relies on, lengths that disagree, ...), so "an
independent reader sees the same content" includes "an independent reader can read it".
"""

import struct


class ReadError(ValueError):
    pass


def _need(d, o, n, what):
    if o < 0 or o + n > len(d):
        raise ReadError("%s: need %d bytes at %d, have %d" % (what, n, o, len(d)))


def u8(d, o, what="u8"):
    _need(d, o, 1, what)
    return d[o]


def u16(d, o, what="u16"):
    _need(d, o, 2, what)
    return (d[o] << 8) | d[o + 1]


def s16(d, o, what="s16"):
    v = u16(d, o, what)
    return v - 65536 if v > 32767 else v


def u24(d, o, what="u24"):
    _need(d, o, 3, what)
    return (d[o] << 16) | (d[o + 1] << 8) | d[o + 2]


def u32(d, o, what="u32"):
    _need(d, o, 4, what)
    return (d[o] << 24) | (d[o + 1] << 16) | (d[o + 2] << 8) | d[o + 3]


def s32(d, o, what="s32"):
    v = u32(d, o, what)
    return v - (1 << 32) if v >> 31 else v


def u16s(d, o, n, what="u16 array"):
    _need(d, o, 2 * n, what)
    return list(struct.unpack_from(">%dH" % n, d, o))


def search_fields(n, item):
    """(searchRange, entrySelector, rangeShift) for n items of `item` bytes (cmap 4, kern 0)."""
    if n <= 0:
        return 0, 0, 0
    e = 0
    while (1 << (e + 1)) <= n:
        e += 1
    sr = (1 << e) * item
    return sr, e, n * item - sr


# ---------------------------------------------------------------------------
# cmap


class CmapSub:
    def __init__(self):
        self.platformID = self.platEncID = self.offset = None
        self.format = self.length = self.language = None
        self.info = {}  # format specific facts used for branch labels
        self._lookup = None
        self._items = None
        self.uvs = None  # format 14: {selector: (default ranges [(start, count)], {unicode: gid})}

    def get(self, cp):
        """glyph index for a character code (0 = missing glyph)"""
        return self._lookup(cp)

    def items(self):
        """complete {code: gid} of the codes mapped to a non-zero glyph"""
        return self._items()


def parse_cmap(data):
    """-> (version, [CmapSub]) in directory order"""
    version = u16(data, 0, "cmap version")
    n = u16(data, 2, "cmap numTables")
    subs = []
    prev = None
    seen = {}
    for i in range(n):
        p = 4 + 8 * i
        pid, eid, off = u16(data, p), u16(data, p + 2), u32(data, p + 4)
        sub = seen.get(off)
        sub = _parse_cmap_sub(data, off)
        sub.platformID, sub.platEncID, sub.offset = pid, eid, off
        key = (pid, eid, sub.language if sub.format != 14 else 0)
        if prev is not None and key <= prev:
            raise ReadError("cmap encoding records not sorted by (platformID, encodingID, language): %r after %r" % (key, prev))
        prev = key
        subs.append(sub)
    return version, subs


def _parse_cmap_sub(data, off):
    fmt = u16(data, off)
    sub = CmapSub()
    sub.format = fmt
    if fmt == 0:
        length, lang = u16(data, off + 2), u16(data, off + 4)
        if length != 262:
            raise ReadError("cmap format 0 length %d" % length)
        _need(data, off, 262, "cmap format 0")
        arr = data[off + 6 : off + 262]
        sub.length, sub.language = length, lang
        sub._lookup = lambda cp: arr[cp] if 0 <= cp < 256 else 0
        sub._items = lambda: {c: g for c, g in enumerate(arr) if g}
    elif fmt == 2:
        _cmap2(data, off, sub)
    elif fmt == 4:
        _cmap4(data, off, sub)
    elif fmt == 6:
        length, lang, first, count = u16(data, off + 2), u16(data, off + 4), u16(data, off + 6), u16(data, off + 8)
        if length != 10 + 2 * count:
            raise ReadError("cmap format 6 length %d for %d entries" % (length, count))
        arr = u16s(data, off + 10, count, "cmap format 6 glyphIdArray")
        sub.length, sub.language = length, lang
        sub.info = dict(first=first, count=count)
        sub._lookup = lambda cp: arr[cp - first] if first <= cp < first + count else 0
        sub._items = lambda: {first + i: g for i, g in enumerate(arr) if g}
    elif fmt in (12, 13):
        _cmap12(data, off, sub)
    elif fmt == 14:
        _cmap14(data, off, sub)
    else:
        raise ReadError("cmap subtable format %d" % fmt)
    return sub


def _cmap2(data, off, sub):
    length, lang = u16(data, off + 2), u16(data, off + 4)
    _need(data, off, length, "cmap format 2")
    d = data[off : off + length]
    keys = u16s(d, 6, 256, "subHeaderKeys")
    if any(k % 8 for k in keys):
        raise ReadError("cmap format 2 subHeaderKey not a multiple of 8")
    nsub = max(keys) // 8 + 1
    heads = []
    for i in range(nsub):
        p = 518 + 8 * i
        first, count, delta, roff = u16(d, p), u16(d, p + 2), s16(d, p + 4), u16(d, p + 6)
        # idRangeOffset is counted from its own position
        heads.append((first, count, delta, p + 6 + roff))
    sub.length, sub.language = length, lang
    sub.info = dict(subheaders=nsub)

    def entry(h, low):
        first, count, delta, base = h
        if not first <= low < first + count:
            return 0
        g = u16(d, base + 2 * (low - first), "cmap format 2 glyphIndexArray")
        return (g + delta) & 0xFFFF if g else 0

    def lookup(cp):
        if 0 <= cp < 256:
            # a one-byte code is valid only when its byte selects subheader 0
            return entry(heads[0], cp) if keys[cp] == 0 else 0
        if cp > 0xFFFF:
            return 0
        hi, lo = cp >> 8, cp & 0xFF
        k = keys[hi] // 8
        if k == 0:
            return 0  # hi is a one-byte character, not a lead byte
        return entry(heads[k], lo)

    def items():
        out = {}
        for hi in range(256):
            k = keys[hi] // 8
            if k == 0:
                g = entry(heads[0], hi)
                if g:
                    out[hi] = g
            else:
                first, count = heads[k][0], heads[k][1]
                for lo in range(first, min(256, first + count)):
                    g = entry(heads[k], lo)
                    if g:
                        out[(hi << 8) | lo] = g
        return out

    sub._lookup, sub._items = lookup, items


def _cmap4(data, off, sub):
    length, lang, segX2, sr, es, rs = (u16(data, off + 2 * i) for i in range(1, 7))
    if segX2 % 2 or segX2 == 0:
        raise ReadError("cmap format 4 segCountX2 %d" % segX2)
    n = segX2 // 2
    want = search_fields(n, 2)
    if (sr, es, rs) != want:
        raise ReadError("cmap format 4 searchRange/entrySelector/rangeShift %r, segCount %d requires %r" % ((sr, es, rs), n, want))
    _need(data, off, length, "cmap format 4")
    d = data[off : off + length]
    if length < 16 + 8 * n or (length - 16 - 8 * n) % 2:
        raise ReadError("cmap format 4 length %d with %d segments" % (length, n))
    end = u16s(d, 14, n)
    if u16(d, 14 + 2 * n) != 0:
        raise ReadError("cmap format 4 reservedPad not zero")
    start = u16s(d, 16 + 2 * n, n)
    delta = u16s(d, 16 + 4 * n, n)
    roff_pos = 16 + 6 * n
    roff = u16s(d, roff_pos, n)
    if end[-1] != 0xFFFF or start[-1] != 0xFFFF:
        raise ReadError("cmap format 4 last segment is %04X-%04X, must be FFFF-FFFF" % (start[-1], end[-1]))
    for i in range(n):
        if start[i] > end[i]:
            raise ReadError("cmap format 4 segment %d start %04X > end %04X" % (i, start[i], end[i]))
        if i and end[i] < end[i - 1]:
            raise ReadError("cmap format 4 endCode not ascending at segment %d" % i)
        if i and i < n - 1 and start[i] <= end[i - 1]:
            raise ReadError("cmap format 4 segments %d and %d overlap" % (i - 1, i))
    sub.length, sub.language = length, lang
    sub.info = dict(
        segCount=n,
        idRangeOffset=any(roff[:-1]),
        idDeltaOnly=any(not r for r in roff[:-1]),
        negDelta=any(x >= 0x8000 for x, r in zip(delta[:-1], roff[:-1]) if not r),
        glyphIdArray=(length - 16 - 8 * n) // 2,
    )

    def seg_value(i, cp):
        if roff[i] == 0:
            return (cp + delta[i]) & 0xFFFF
        p = roff_pos + 2 * i + roff[i] + 2 * (cp - start[i])
        if p + 2 > length:
            raise ReadError("cmap format 4 segment %d reads the glyphIdArray past the subtable end" % i)
        g = u16(d, p)
        return (g + delta[i]) & 0xFFFF if g else 0

    def lookup(cp):
        if not 0 <= cp <= 0xFFFF:
            return 0
        lo, hi = 0, n - 1
        while lo < hi:  # first segment whose endCode >= cp
            mid = (lo + hi) // 2
            if end[mid] >= cp:
                hi = mid
            else:
                lo = mid + 1
        if start[lo] <= cp <= end[lo]:
            return seg_value(lo, cp)
        return 0

    def items():
        out = {}
        for i in range(n):
            for cp in range(start[i], end[i] + 1):
                if cp in out or (i and cp <= end[i - 1]):
                    continue  # the first segment with endCode >= cp decides
                g = seg_value(i, cp)
                if g:
                    out[cp] = g
        return out

    sub._lookup, sub._items = lookup, items


def _cmap12(data, off, sub):
    fmt = u16(data, off)
    reserved, length, lang, ng = u16(data, off + 2), u32(data, off + 4), u32(data, off + 8), u32(data, off + 12)
    if reserved:
        raise ReadError("cmap format %d reserved field %d" % (fmt, reserved))
    if length != 16 + 12 * ng:
        raise ReadError("cmap format %d length %d for %d groups" % (fmt, length, ng))
    _need(data, off, length, "cmap format %d" % fmt)
    flat = struct.unpack_from(">%dL" % (3 * ng), data, off + 16)
    groups = [flat[i : i + 3] for i in range(0, 3 * ng, 3)]
    for i, (s, e, g) in enumerate(groups):
        if s > e:
            raise ReadError("cmap format %d group %d start %X > end %X" % (fmt, i, s, e))
        if i and s <= groups[i - 1][1]:
            raise ReadError("cmap format %d groups %d and %d not ascending / overlap" % (fmt, i - 1, i))
    sub.length, sub.language = length, lang
    mergeable = 0
    for a, b in zip(groups, groups[1:]):
        if b[0] == a[1] + 1 and ((fmt == 12 and b[2] == a[2] + (a[1] - a[0]) + 1) or (fmt == 13 and b[2] == a[2])):
            mergeable += 1
    sub.info = dict(nGroups=ng, entries=sum(e - s + 1 for s, e, g in groups), mergeable=mergeable)

    def lookup(cp):
        lo, hi = 0, ng - 1
        while lo <= hi:
            mid = (lo + hi) // 2
            s, e, g = groups[mid]
            if cp < s:
                hi = mid - 1
            elif cp > e:
                lo = mid + 1
            else:
                return g + (cp - s) if fmt == 12 else g
        return 0

    def items():
        out = {}
        for s, e, g in groups:
            if fmt == 12:
                for k in range(e - s + 1):
                    if g + k:
                        out[s + k] = g + k
            elif g:
                for cp in range(s, e + 1):
                    out[cp] = g
        return out

    sub._lookup, sub._items = lookup, items


def _cmap14(data, off, sub):
    length, nrec = u32(data, off + 2), u32(data, off + 6)
    _need(data, off, length, "cmap format 14")
    d = data[off : off + length]
    uvs = {}
    prev = -1
    ndef = nnon = 0
    for i in range(nrec):
        p = 10 + 11 * i
        sel, doff, noff = u24(d, p, "varSelector"), u32(d, p + 3), u32(d, p + 7)
        if sel <= prev:
            raise ReadError("cmap format 14 varSelector records not ascending")
        prev = sel
        ranges, non = [], {}
        if doff:
            cnt = u32(d, doff, "DefaultUVS count")
            last = -1
            for k in range(cnt):
                st, add = u24(d, doff + 4 + 4 * k, "UnicodeRange"), u8(d, doff + 7 + 4 * k)
                if st <= last:
                    raise ReadError("cmap format 14 default UVS ranges not ascending / overlap")
                last = st + add
                ranges.append((st, add + 1))
            ndef += 1
        if noff:
            cnt = u32(d, noff, "NonDefaultUVS count")
            last = -1
            for k in range(cnt):
                uv, g = u24(d, noff + 4 + 5 * k, "UVSMapping"), u16(d, noff + 7 + 5 * k)
                if uv <= last:
                    raise ReadError("cmap format 14 non-default UVS mappings not ascending")
                last = uv
                non[uv] = g
            nnon += 1
        uvs[sel] = (ranges, non)
    sub.length, sub.language = length, None
    sub.uvs = uvs
    sub.info = dict(records=nrec, default=ndef, nondefault=nnon)
    sub._lookup = lambda cp: 0
    sub._items = lambda: {}


def uvs_lookup(sub, cp, sel):
    """-> ("default", None) | ("glyph", gid) | None for a format 14 subtable"""
    rec = sub.uvs.get(sel)
    if rec is None:
        return None
    ranges, non = rec
    for st, cnt in ranges:
        if st <= cp < st + cnt:
            return ("default", None)
    if cp in non:
        return ("glyph", non[cp])
    return None


# ---------------------------------------------------------------------------
# hmtx / vmtx


def parse_metrics(table, nlong, numGlyphs):
    """-> [(advance, sideBearing)] for every glyph; the table must have exactly the size the counts imply"""
    if not 1 <= nlong <= numGlyphs:
        raise ReadError("numberOfLongMetrics %d with %d glyphs" % (nlong, numGlyphs))
    want = 4 * nlong + 2 * (numGlyphs - nlong)
    if len(table) != want:
        raise ReadError("metrics table has %d bytes, %d long metrics and %d glyphs require %d" % (len(table), nlong, numGlyphs, want))
    out = []
    for i in range(nlong):
        out.append((u16(table, 4 * i), s16(table, 4 * i + 2)))
    last = out[-1][0]
    for i in range(numGlyphs - nlong):
        out.append((last, s16(table, 4 * nlong + 2 * i)))
    return out


# ---------------------------------------------------------------------------
# name

# Python codec per (platformID, encodingID[, languageID]) following the OpenType 'name' chapter and
# Apple's TrueType reference (script codes; Roman-script variants selected by language)
_MAC_ROMAN_BY_LANG = {15: "mac_iceland", 17: "mac_turkish", 18: "mac_croatian", 37: "mac_romanian"}
for _l in (24, 25, 26, 27, 28, 36, 38, 39, 40):
    _MAC_ROMAN_BY_LANG[_l] = "mac_latin2"
_MAC_SCRIPT = {6: "mac_greek", 7: "mac_cyrillic", 29: "mac_latin2", 35: "mac_turkish", 37: "mac_iceland"}
# East Asian Macintosh encodings: base double-byte codec + Apple's single-byte additions
_MAC_CJK = {
    1: ("shift_jis", {0x80: "\\", 0xA0: " ", 0xFD: "©", 0xFE: "™", 0xFF: "…"}),
    2: ("big5", {0x80: "\\", 0xA0: " ", 0xFD: "©", 0xFE: "™", 0xFF: "…"}),
    3: ("euc_kr", {0x80: " ", 0x81: "₩", 0x82: "—", 0x83: "©", 0xFE: "™", 0xFF: "…"}),
    25: ("gb2312", {0x80: "ü", 0xA0: " ", 0xFD: "©", 0xFE: "™", 0xFF: "…"}),
}
_WIN = {0: "utf_16_be", 1: "utf_16_be", 2: "shift_jis", 3: "gb2312", 4: "big5", 5: "euc_kr", 6: "johab", 10: "utf_16_be"}


def name_codec(pid, eid, lang):
    """-> codec name, ("cjk", base, extra) or None when the encoding is not one this reader knows"""
    if pid == 0:
        return "utf_16_be" if eid <= 6 else None
    if pid == 3:
        return _WIN.get(eid)
    if pid == 2:
        return {0: "ascii", 1: "utf_16_be", 2: "latin1"}.get(eid)
    if pid == 1:
        if eid == 0:
            return _MAC_ROMAN_BY_LANG.get(lang, "mac_roman")
        if eid in _MAC_CJK:
            return ("cjk",) + _MAC_CJK[eid]
        return _MAC_SCRIPT.get(eid)
    return None


def decode_name(raw, codec):
    if isinstance(codec, tuple):
        _, base, extra = codec
        out = []
        i = 0
        while i < len(raw):
            b = raw[i]
            if b in extra:
                out.append(extra[b])
                i += 1
                continue
            try:
                out.append(raw[i : i + 1].decode(base))
                i += 1
            except UnicodeDecodeError:
                out.append(raw[i : i + 2].decode(base))
                i += 2
        return "".join(out)
    return raw.decode(codec)


def parse_name(data):
    """-> [(platformID, encodingID, languageID, nameID, bytes)] in record order (format 0)"""
    fmt, n, so = u16(data, 0), u16(data, 2), u16(data, 4)
    if fmt != 0:
        raise ReadError("name table format %d" % fmt)
    if so != 6 + 12 * n:
        raise ReadError("name stringOffset %d, %d records end at %d" % (so, n, 6 + 12 * n))
    recs = []
    prev = None
    for i in range(n):
        p = 6 + 12 * i
        pid, eid, lang, nid, ln, off = (u16(data, p + 2 * k) for k in range(6))
        _need(data, so + off, ln, "name string %d" % i)
        key = (pid, eid, lang, nid)
        if prev is not None and key < prev:
            raise ReadError("name records not sorted: %r after %r" % (key, prev))
        prev = key
        recs.append((pid, eid, lang, nid, bytes(data[so + off : so + off + ln])))
    return recs


# ---------------------------------------------------------------------------
# kern (format 0 subtables, Microsoft version 0 and Apple version 1.0 headers)


def parse_kern(data):
    """-> (version, [dict(format, coverage, tupleIndex, pairs=[(left, right, value)])])"""
    out = []
    if u16(data, 0) == 0:
        version, n = 0, u16(data, 2)
        p = 4
        for i in range(n):
            sv, ln, fmt, cov = u16(data, p), u16(data, p + 2), u8(data, p + 4), u8(data, p + 5)
            if sv != 0:
                raise ReadError("kern subtable version %d" % sv)
            body = p + 6
            st = dict(format=fmt, coverage=cov, tupleIndex=None)
            if fmt == 0:
                st["pairs"], used = _kern0(data, body)
                real = 6 + used
                if ln != (real & 0xFFFF):
                    raise ReadError("kern subtable %d length field %d, content has %d bytes" % (i, ln, real))
                ln = real
            out.append(st)
            p += ln
        if p != len(data):
            raise ReadError("kern table has %d bytes, subtables end at %d" % (len(data), p))
        return version, out
    if u32(data, 0) != 0x00010000:
        raise ReadError("kern version %08x" % u32(data, 0))
    n = u32(data, 4)
    p = 8
    for i in range(n):
        ln, cov, fmt, tup = u32(data, p), u8(data, p + 4), u8(data, p + 5), u16(data, p + 6)
        st = dict(format=fmt, coverage=cov, tupleIndex=tup)
        if fmt == 0:
            st["pairs"], used = _kern0(data, p + 8)
            if ln != 8 + used:
                raise ReadError("kern subtable %d length field %d, content has %d bytes" % (i, ln, 8 + used))
        out.append(st)
        p += ln
    if p != len(data):
        raise ReadError("kern table has %d bytes, subtables end at %d" % (len(data), p))
    return 1.0, out


def _kern0(data, p):
    n, sr, es, rs = u16(data, p), u16(data, p + 2), u16(data, p + 4), u16(data, p + 6)
    want = search_fields(n, 6)
    if n and (sr, es, rs) != tuple(v & 0xFFFF for v in want):  # the fields have no defined value for an empty subtable
        raise ReadError("kern format 0 searchRange/entrySelector/rangeShift %r, %d pairs require %r" % ((sr, es, rs), n, want))
    pairs = []
    prev = None
    _need(data, p + 8, 6 * n, "kern pairs")
    for i in range(n):
        l, r, v = struct.unpack_from(">HHh", data, p + 8 + 6 * i)
        if prev is not None and (l, r) <= prev:
            raise ReadError("kern pairs not in ascending (left, right) order at %d" % i)
        prev = (l, r)
        pairs.append((l, r, v))
    return pairs, 8 + 6 * n


# ---------------------------------------------------------------------------
# post


def parse_post(data, numGlyphs):
    """-> dict(header fields..., names=None | [("std", index) | ("str", bytes)] per glyph)"""
    _need(data, 0, 32, "post header")
    ver, angle, upos, uthick, fixed, m0, m1, m2, m3 = struct.unpack_from(">LlhhLLLLL", data, 0)
    h = dict(version=ver, italicAngle=angle, underlinePosition=upos, underlineThickness=uthick, isFixedPitch=fixed, mem=(m0, m1, m2, m3), names=None)
    if ver in (0x00010000, 0x00030000):
        if len(data) != 32:
            raise ReadError("post version %08x with %d bytes" % (ver, len(data)))
        return h
    if ver != 0x00020000:
        raise ReadError("post version %08x" % ver)
    n = u16(data, 32, "post numGlyphs")
    if n != numGlyphs:
        raise ReadError("post numGlyphs %d, font has %d" % (n, numGlyphs))
    idx = u16s(data, 34, n, "post glyphNameIndex")
    p = 34 + 2 * n
    strings = []
    while p < len(data):
        ln = data[p]
        _need(data, p + 1, ln, "post Pascal string")
        strings.append(bytes(data[p + 1 : p + 1 + ln]))
        p += 1 + ln
    names = []
    for i in idx:
        if i < 258:
            names.append(("std", i))
        else:
            if i - 258 >= len(strings):
                raise ReadError("post glyphNameIndex %d but only %d strings" % (i, len(strings)))
            names.append(("str", strings[i - 258]))
    used = {i - 258 for i in idx if i >= 258}
    if used != set(range(len(strings))):
        raise ReadError("post string data has %d strings, %d referenced" % (len(strings), len(used)))
    h["names"] = names
    h["nstrings"] = len(strings)
    return h


# ---------------------------------------------------------------------------
# OS/2

_OS2_V0 = [
    ("version", "H"), ("xAvgCharWidth", "h"), ("usWeightClass", "H"), ("usWidthClass", "H"), ("fsType", "H"),
    ("ySubscriptXSize", "h"), ("ySubscriptYSize", "h"), ("ySubscriptXOffset", "h"), ("ySubscriptYOffset", "h"),
    ("ySuperscriptXSize", "h"), ("ySuperscriptYSize", "h"), ("ySuperscriptXOffset", "h"), ("ySuperscriptYOffset", "h"),
    ("yStrikeoutSize", "h"), ("yStrikeoutPosition", "h"), ("sFamilyClass", "h"), ("panose", "10s"),
    ("ulUnicodeRange1", "L"), ("ulUnicodeRange2", "L"), ("ulUnicodeRange3", "L"), ("ulUnicodeRange4", "L"),
    ("achVendID", "4s"), ("fsSelection", "H"), ("usFirstCharIndex", "H"), ("usLastCharIndex", "H"),
    ("sTypoAscender", "h"), ("sTypoDescender", "h"), ("sTypoLineGap", "h"), ("usWinAscent", "H"), ("usWinDescent", "H"),
]
_OS2_V1 = [("ulCodePageRange1", "L"), ("ulCodePageRange2", "L")]
_OS2_V2 = [("sxHeight", "h"), ("sCapHeight", "h"), ("usDefaultChar", "H"), ("usBreakChar", "H"), ("usMaxContext", "H")]
_OS2_V5 = [("usLowerOpticalPointSize", "H"), ("usUpperOpticalPointSize", "H")]


def os2_fields(version):
    f = list(_OS2_V0)
    if version >= 1:
        f += _OS2_V1
    if version >= 2:
        f += _OS2_V2
    if version >= 5:
        f += _OS2_V5
    return f


def parse_os2(data):
    version = u16(data, 0)
    if version > 5:
        raise ReadError("OS/2 version %d" % version)
    fields = os2_fields(version)
    fmt = ">" + "".join(c for _, c in fields)
    if len(data) != struct.calcsize(fmt):
        raise ReadError("OS/2 version %d table has %d bytes, %d expected" % (version, len(data), struct.calcsize(fmt)))
    vals = struct.unpack(fmt, data)
    return dict(zip((n for n, _ in fields), vals))


# ---------------------------------------------------------------------------
# common layout: Coverage, ClassDef; GDEF


def parse_coverage(d, off):
    """-> (format, [glyph ids in coverage-index order])"""
    fmt = u16(d, off, "Coverage format")
    if fmt == 1:
        n = u16(d, off + 2)
        g = u16s(d, off + 4, n, "Coverage glyphArray")
        if any(b <= a for a, b in zip(g, g[1:])):
            raise ReadError("Coverage format 1 glyph array not strictly ascending")
        return 1, g
    if fmt == 2:
        n = u16(d, off + 2)
        out = []
        prev_end = -1
        for i in range(n):
            s, e, ci = u16(d, off + 4 + 6 * i), u16(d, off + 6 + 6 * i), u16(d, off + 8 + 6 * i)
            if s > e or s <= prev_end:
                raise ReadError("Coverage format 2 range %d (%d-%d) not ascending / overlapping" % (i, s, e))
            if ci != len(out):
                raise ReadError("Coverage format 2 range %d startCoverageIndex %d, expected %d" % (i, ci, len(out)))
            prev_end = e
            out.extend(range(s, e + 1))
        return 2, out
    raise ReadError("Coverage format %d" % fmt)


def parse_classdef(d, off):
    """-> (format, {glyph id: class} for non-zero classes)"""
    fmt = u16(d, off, "ClassDef format")
    out = {}
    if fmt == 1:
        start, n = u16(d, off + 2), u16(d, off + 4)
        if start + n > 0x10000:
            raise ReadError("ClassDef format 1 runs past glyph 65535")
        for i, c in enumerate(u16s(d, off + 6, n, "ClassDef classValueArray")):
            if c:
                out[start + i] = c
        return 1, out
    if fmt == 2:
        n = u16(d, off + 2)
        prev_end = -1
        for i in range(n):
            s, e, c = u16(d, off + 4 + 6 * i), u16(d, off + 6 + 6 * i), u16(d, off + 8 + 6 * i)
            if s > e or s <= prev_end:
                raise ReadError("ClassDef format 2 range %d (%d-%d) not ascending / overlapping" % (i, s, e))
            prev_end = e
            if c:
                for g in range(s, e + 1):
                    out[g] = c
        return 2, out
    raise ReadError("ClassDef format %d" % fmt)


def parse_gdef(d):
    """-> dict(version, glyphClassDef, markAttachClassDef: (format, map)|None, markGlyphSets: [(format, [gids])]|None)"""
    major, minor = u16(d, 0), u16(d, 2)
    if major != 1 or minor not in (0, 2, 3):
        raise ReadError("GDEF version %d.%d" % (major, minor))
    gc, al, lc, ma = (u16(d, 4 + 2 * i) for i in range(4))
    out = dict(version=(major, minor), glyphClassDef=None, markAttachClassDef=None, markGlyphSets=None, attachList=al, ligCaretList=lc)
    if gc:
        out["glyphClassDef"] = parse_classdef(d, gc)
    if ma:
        out["markAttachClassDef"] = parse_classdef(d, ma)
    if minor >= 2:
        mg = u16(d, 12)
        if mg:
            if u16(d, mg) != 1:
                raise ReadError("MarkGlyphSets format %d" % u16(d, mg))
            n = u16(d, mg + 2)
            out["markGlyphSets"] = [parse_coverage(d, mg + u32(d, mg + 4 + 4 * i)) for i in range(n)]
    return out


# ---------------------------------------------------------------------------
# fvar / avar


def parse_fvar(d):
    major, minor, off, res, na, asz, ni, isz = struct.unpack_from(">HHHHHHHH", d, 0)
    if (major, minor) != (1, 0) or res != 2 or asz != 20:
        raise ReadError("fvar header %r" % ((major, minor, off, res, na, asz, ni, isz),))
    axes = []
    for i in range(na):
        tag, mn, df, mx, fl, nid = struct.unpack_from(">4slllHH", d, off + 20 * i)
        axes.append(dict(tag=tag.decode("latin-1"), min=mn, default=df, max=mx, flags=fl, nameID=nid))
    if isz not in (4 + 4 * na, 6 + 4 * na):
        raise ReadError("fvar instanceSize %d with %d axes" % (isz, na))
    inst = []
    p = off + 20 * na
    for i in range(ni):
        _need(d, p, isz, "fvar instance")
        sub, fl = u16(d, p), u16(d, p + 2)
        coords = [s32(d, p + 4 + 4 * k) for k in range(na)]
        ps = u16(d, p + 4 + 4 * na) if isz == 6 + 4 * na else None
        inst.append(dict(subfamilyNameID=sub, flags=fl, coords=coords, postscriptNameID=ps))
        p += isz
    if p != len(d):
        raise ReadError("fvar has %d bytes, records end at %d" % (len(d), p))
    return dict(axes=axes, instances=inst)


def parse_avar(d):
    major, minor, res, na = struct.unpack_from(">HHHH", d, 0)
    if (major, minor) != (1, 0):
        raise ReadError("avar version %d.%d" % (major, minor))
    p = 8
    maps = []
    for i in range(na):
        n = u16(d, p)
        p += 2
        m = []
        for k in range(n):
            m.append((s16(d, p), s16(d, p + 2)))
            p += 4
        if any(b[0] <= a[0] for a, b in zip(m, m[1:])):
            raise ReadError("avar axis %d fromCoordinates not ascending" % i)
        maps.append(m)
    if p != len(d):
        raise ReadError("avar has %d bytes, segment maps end at %d" % (len(d), p))
    return maps


# ---------------------------------------------------------------------------
# tuple variation store (gvar glyph data, cvar)


def read_packed_points(d, p):
    """-> (None for 'all points' | [point numbers], new offset, run kinds)"""
    n = u8(d, p, "packed point count")
    p += 1
    if n & 0x80:
        n = ((n & 0x7F) << 8) | u8(d, p)
        p += 1
    if n == 0:
        return None, p, []
    pts = []
    cur = 0
    kinds = []
    while len(pts) < n:
        h = u8(d, p, "point run header")
        p += 1
        cnt = (h & 0x7F) + 1
        kinds.append("w" if h & 0x80 else "b")
        for _ in range(cnt):
            if h & 0x80:
                cur += u16(d, p)
                p += 2
            else:
                cur += u8(d, p)
                p += 1
            pts.append(cur)
    if len(pts) != n:
        raise ReadError("packed point run overshoots the point count")
    return pts, p, kinds


def read_packed_deltas(d, p, n):
    out = []
    kinds = []
    while len(out) < n:
        h = u8(d, p, "delta run header")
        p += 1
        cnt = (h & 0x3F) + 1
        k = h & 0xC0
        if k == 0x80:
            out.extend([0] * cnt)
            kinds.append("z")
        elif k == 0x40:
            _need(d, p, 2 * cnt, "word deltas")
            out.extend(struct.unpack_from(">%dh" % cnt, d, p))
            p += 2 * cnt
            kinds.append("w")
        elif k == 0xC0:
            _need(d, p, 4 * cnt, "long deltas")
            out.extend(struct.unpack_from(">%dl" % cnt, d, p))
            p += 4 * cnt
            kinds.append("l")
        else:
            _need(d, p, cnt, "byte deltas")
            out.extend(struct.unpack_from(">%db" % cnt, d, p))
            p += cnt
            kinds.append("b")
    if len(out) != n:
        raise ReadError("packed delta run overshoots the delta count")
    return out, p, kinds


def parse_tuple_store(d, base, hdr_pos, count_field, data_off, naxes, shared, npoints, width):
    """d[base:] is the start the offsets count from (glyph variation data / cvar table).
    -> [dict(peak, start, end (F2Dot14 int lists; start/end None when not intermediate), shared_peak: index|None,
             private: bool, points: None|[..], dx, dy|None, kinds)], info"""
    nt = count_field & 0x0FFF
    share_pts = bool(count_field & 0x8000)
    if count_field & 0x7000:
        raise ReadError("tupleVariationCount reserved bits set (%04x)" % count_field)
    dp = base + data_off
    shared_points = None
    info = dict(tuples=nt, shared_point_numbers=share_pts)
    if share_pts:
        shared_points, dp, _k = read_packed_points(d, dp)
        shared_points = ("all",) if shared_points is None else shared_points
    out = []
    hp = hdr_pos
    for i in range(nt):
        size, idx = u16(d, hp, "variationDataSize"), u16(d, hp + 2, "tupleIndex")
        hp += 4
        if idx & 0x1000:
            raise ReadError("tupleIndex reserved bit set (%04x)" % idx)
        t = dict(shared_peak=None, start=None, end=None)
        if idx & 0x8000:
            t["peak"] = [s16(d, hp + 2 * k) for k in range(naxes)]
            hp += 2 * naxes
        else:
            si = idx & 0x0FFF
            if shared is None or si >= len(shared):
                raise ReadError("tuple %d refers to shared tuple %d of %d" % (i, si, len(shared or [])))
            t["peak"] = list(shared[si])
            t["shared_peak"] = si
        if idx & 0x4000:
            t["start"] = [s16(d, hp + 2 * k) for k in range(naxes)]
            hp += 2 * naxes
            t["end"] = [s16(d, hp + 2 * k) for k in range(naxes)]
            hp += 2 * naxes
        p = dp
        t["private"] = bool(idx & 0x2000)
        if t["private"]:
            pts, p, _k = read_packed_points(d, p)
        else:
            if shared_points is None:
                raise ReadError("tuple %d uses shared point numbers but the store has none" % i)
            pts = None if shared_points == ("all",) else shared_points
        t["points"] = pts
        n = npoints if pts is None else len(pts)
        t["dx"], p, k1 = read_packed_deltas(d, p, n)
        k2 = []
        t["dy"] = None
        if width == 2:
            t["dy"], p, k2 = read_packed_deltas(d, p, n)
        t["kinds"] = k1 + k2
        if p != dp + size:
            raise ReadError("tuple %d: serialized data has %d bytes, header says %d" % (i, p - dp, size))
        dp += size
        out.append(t)
    if hp > base + data_off:
        raise ReadError("tuple variation headers run into the serialized data")
    info["end"] = dp
    return out, info


def parse_gvar(d, npoints_of):
    """npoints_of(gid) -> number of points incl. 4 phantom points.
    -> dict(axisCount, shared=[[F2Dot14 ints]], long_offsets, glyphs=[None | (tuples, info)])"""
    major, minor, na, ns, so, ng, flags, ao = struct.unpack_from(">HHHHLHHL", d, 0)
    if (major, minor) != (1, 0):
        raise ReadError("gvar version %d.%d" % (major, minor))
    if flags & ~1:
        raise ReadError("gvar flags %04x" % flags)
    if flags & 1:
        offs = list(struct.unpack_from(">%dL" % (ng + 1), d, 20))
        end = 20 + 4 * (ng + 1)
    else:
        offs = [2 * v for v in struct.unpack_from(">%dH" % (ng + 1), d, 20)]
        end = 20 + 2 * (ng + 1)
    if so < end or ao < so + 2 * na * ns:
        raise ReadError("gvar offsets overlap the header (%d, %d)" % (so, ao))
    shared = [[s16(d, so + 2 * (i * na + k)) for k in range(na)] for i in range(ns)]
    if any(b < a for a, b in zip(offs, offs[1:])) or ao + offs[-1] > len(d):
        raise ReadError("gvar glyph offsets decrease or run past the table")
    glyphs = []
    for g in range(ng):
        a, b = ao + offs[g], ao + offs[g + 1]
        if a == b:
            glyphs.append(None)
            continue
        cnt, doff = u16(d, a), u16(d, a + 2)
        tuples, info = parse_tuple_store(d, a, a + 4, cnt, doff, na, shared, npoints_of(g), 2)
        if info["end"] > b or b - info["end"] > 1:
            raise ReadError("gvar glyph %d: data ends at %d, offsets say %d" % (g, info["end"] - a, b - a))
        glyphs.append((tuples, info))
    return dict(axisCount=na, shared=shared, long_offsets=bool(flags & 1), glyphs=glyphs)


def parse_cvar(d, naxes, ncvt):
    major, minor, cnt, doff = struct.unpack_from(">HHHH", d, 0)
    if (major, minor) != (1, 0):
        raise ReadError("cvar version %d.%d" % (major, minor))
    tuples, info = parse_tuple_store(d, 0, 8, cnt, doff, naxes, None, ncvt, 1)
    if info["end"] != len(d):
        raise ReadError("cvar has %d bytes, data ends at %d" % (len(d), info["end"]))
    return tuples, info


# ---------------------------------------------------------------------------
# COLR version 0


def parse_colr0(d):
    """-> (version, {base gid: [(layer gid, palette index)]})"""
    ver, nb, bo, lo, nl = struct.unpack_from(">HHLLH", d, 0)
    out = {}
    prev = -1
    for i in range(nb):
        g, first, n = struct.unpack_from(">HHH", d, bo + 6 * i)
        if g <= prev:
            raise ReadError("COLR base glyph records not ascending")
        prev = g
        if first + n > nl:
            raise ReadError("COLR base glyph %d layers %d+%d of %d" % (g, first, n, nl))
        out[g] = [struct.unpack_from(">HH", d, lo + 4 * (first + k)) for k in range(n)]
    return ver, out
