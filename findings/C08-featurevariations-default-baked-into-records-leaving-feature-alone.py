"""varLib.instancer, feature variations whose records replace different features (feaLib 'variation' blocks for more than
one feature tag). One-axis font wght 0..50..100, GSUB: record 0 'wght 30..55' replaces rlig (adds 'sub A by D') and kern,
record 1 'wght 30..100' replaces only kern, record 2 'wght 55..100' replaces rlig (adds 'sub B by E').
instantiateVariableFont(font, {'wght': (40, 56.5)}): record 0 holds at the default, so its rlig is moved into the
FeatureList and a catch-all record restoring the old rlig is appended last; record 1 covers the whole new range, becomes
universal, replaces only kern and matches first, so at wght=56.5 (outside 30..55) the instance still substitutes A by D
while the original does not. Expected: same feature substitutions as the original at the corresponding location."""

FEA = """
languagesystem DFLT dflt;
conditionset both { wght 30 55; } both;
conditionset onlysub { wght 55 100; } onlysub;
conditionset onlypos { wght 30 100; } onlypos;
feature kern { pos A D -40; } kern;
variation kern both { pos A B 52; } kern;
variation kern onlypos { pos D B -36; } kern;
feature rlig { sub E by E; } rlig;
variation rlig both { sub A by D; } rlig;
variation rlig onlysub { sub B by E; } rlig;
"""


def _font():
    import io

    from fontTools.feaLib.builder import addOpenTypeFeaturesFromString
    from fontTools.fontBuilder import FontBuilder
    from fontTools.pens.ttGlyphPen import TTGlyphPen

    fb = FontBuilder(1000, isTTF=True)
    order = [".notdef", "A", "B", "D", "E"]
    fb.setupGlyphOrder(order)
    fb.setupCharacterMap({0x41: "A", 0x42: "B", 0x44: "D", 0x45: "E"})
    pen = TTGlyphPen(None)
    pen.moveTo((0, 0))
    pen.lineTo((0, 500))
    pen.lineTo((500, 500))
    pen.closePath()
    glyph = pen.glyph()
    fb.setupGlyf({n: glyph for n in order})
    fb.setupHorizontalMetrics({n: (600, 0) for n in order})
    fb.setupHorizontalHeader(ascent=800, descent=-200)
    fb.setupNameTable({"familyName": "W", "styleName": "Regular"})
    fb.setupOS2()
    fb.setupPost()
    fb.setupFvar([("wght", 0, 50, 100, "Weight")], [])
    fb.setupGvar({n: [] for n in order})
    addOpenTypeFeaturesFromString(fb.font, FEA)
    out = io.BytesIO()
    fb.save(out)
    return out.getvalue()


def _shape(data, text, variations):
    import uharfbuzz as hb

    face = hb.Face(data)
    font = hb.Font(face)
    if variations:
        font.set_variations(variations)
    buf = hb.Buffer()
    buf.add_str(text)
    buf.guess_segment_properties()
    hb.shape(font, buf, {"rlig": True, "kern": True})
    return [(i.codepoint, p.x_advance) for i, p in zip(buf.glyph_infos, buf.glyph_positions)]


def reproduce():
    import io

    from fontTools.ttLib import TTFont
    from fontTools.varLib import instancer

    data = _font()
    out = []
    for limits in ({"wght": (40, 56.5)}, {"wght": (40, 100)}):
        inst = instancer.instantiateVariableFont(TTFont(io.BytesIO(data)), dict(limits))
        buf = io.BytesIO()
        inst.save(buf)
        hi = limits["wght"][1]
        for w in (40, 50, 56.5, hi):
            for text in ("AD", "DB", "AB", "BE"):
                a = _shape(data, text, {"wght": w})
                b = _shape(buf.getvalue(), text, {"wght": w})
                if a != b:
                    out.append("limits %r, %r at wght=%s: original %s, instance %s" % (limits, text, w, a, b))
    return "; ".join(out[:3]) if out else None
