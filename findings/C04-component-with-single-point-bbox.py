"""glyf bounding-box recalculation leaves out a component whose own bounding box is a single point: Glyph.tryRecalcBoundsComposite
(the fast path for composites whose components only have integer offsets) tests `xMin == xMax and yMin == yMax` to recognise an
EMPTY component, which is also true of a component glyph whose points all coincide (e.g. a one-point contour at (0, 0), as used for
anchors). A composite of a square (0,0)-(100,100) and such a dot placed at (500, 600) is saved with the bounding box
(0, 0, 100, 100) instead of (0, 0, 500, 600), the box of all its points; the same composite with a point-matched or transformed
component (slow path, bounds of the flattened coordinates) gets the full box. head.xMax/yMax and hhea.xMaxExtent follow the glyph boxes."""


def reproduce():
    from io import BytesIO
    from fontTools.fontBuilder import FontBuilder
    from fontTools.pens.ttGlyphPen import TTGlyphPen
    from fontTools.ttLib import TTFont
    from fontTools.ttLib.tables import ttProgram
    from fontTools.ttLib.tables._g_l_y_f import Glyph, GlyphCoordinates

    def simple(contours):
        pen = TTGlyphPen(None)
        for c in contours:
            pen.moveTo(c[0])
            for p in c[1:]:
                pen.lineTo(p)
            pen.closePath()
        return pen.glyph(dropImpliedOnCurves=False)

    def one_point(x, y):
        # one contour made of one on-curve point (TTGlyphPen drops such contours, so the glyph is filled in directly)
        g = Glyph()
        g.numberOfContours = 1
        g.coordinates = GlyphCoordinates([(x, y)])
        g.flags = bytearray([1])
        g.endPtsOfContours = [0]
        g.program = ttProgram.Program()
        g.program.fromBytecode(b"")
        return g

    def composite(comps):
        pen = TTGlyphPen({"sq": None, "dot": None})
        for name, dx, dy in comps:
            pen.addComponent(name, (1, 0, 0, 1, dx, dy))
        return pen.glyph()

    order = [".notdef", "sq", "dot", "comp"]
    glyphs = {
        ".notdef": simple([]),
        "sq": simple([[(0, 0), (0, 100), (100, 100), (100, 0)]]),
        "dot": one_point(0, 0),
        "comp": composite([("sq", 0, 0), ("dot", 500, 600)]),
    }
    fb = FontBuilder(1000, isTTF=True)
    fb.setupGlyphOrder(order)
    fb.setupCharacterMap({})
    fb.setupGlyf(glyphs)
    fb.setupHorizontalMetrics({n: (700, 0) for n in order})
    fb.setupHorizontalHeader(ascent=800, descent=-200)
    fb.setupNameTable({"familyName": "W", "styleName": "R"})
    fb.setupOS2()
    fb.setupPost()
    buf = BytesIO()
    fb.font.save(buf)
    font = TTFont(BytesIO(buf.getvalue()))
    glyf = font["glyf"]
    # independent expectation: the box of all points of the flattened glyph as stored in the file
    coords, _, _ = glyf["comp"].getCoordinates(glyf)
    pts = list(coords)
    if sorted(pts) != sorted([(0, 0), (0, 100), (100, 100), (100, 0), (500, 600)]):
        return None  # the composite was not built as intended; nothing to say about the bounds
    want = (0, 0, 500, 600)
    g = glyf["comp"]
    got = (g.xMin, g.yMin, g.xMax, g.yMax)
    if got != want:
        return "composite of a square (0,0)-(100,100) and a one-point glyph at offset (500,600) saved with bounding box %r, all points span %r (head.xMax/yMax = %d/%d)" % (
            got, want, font["head"].xMax, font["head"].yMax)
    return None
