"""C20 — damaged or hostile input fails cleanly and is never executed (fault enumeration).

Four fault spaces (job kinds):
  open      truncations / single-byte corruptions of header+directory / garbage -> TTFont(...) and
            reader[tag]; oracle = own directory parser (vf.faults) or TTLibError.
  fallback  table payload truncated / bit-flipped, ignoreDecompileErrors=True, lazy=False; a table
            whose decompile raises (twin run) must be a DefaultTable holding the payload and be
            re-saved byte for byte; untouched tables must be byte-identical too.
  text      TTX attribute values / element text, fea include(), designspace filenames, GLIF and
            plist values replaced by code-execution and path-traversal canaries; an audit-hook
            observer and the file system are the oracle.
  failsave  a table's compile made to raise during save onto an existing file.
"""

import glob
import io
import os
import random
import struct
import sys

from vf import faults as F
from vf.runner import (
    REPO_LIB,
    TESTS,
    Acc,
    CaseTimeout,
    HarnessError,
    fingerprint,
    innermost_frame,
    scratch_dir,
    short,
    subseed,
    time_limit as _wall_time_limit,
)


def time_limit(seconds):
    """CPU-time limit (see vf.faults.cpu_limit): wall-clock limits are meaningless on a shared, loaded box."""
    return F.cpu_limit(seconds, CaseTimeout)

ID = "C20"
LEVEL = "fault_enumeration"
RULE = (
    "faults enumerated over four spaces: (open) every truncation length of small corpus sfnt/TTC/WOFF/WOFF2 files and of "
    "containers re-wrapped from them by an independent writer (larger files: every length in header+directory, a stride "
    "elsewhere), every single-byte corruption (00, FF, ^01, ^80) of header and directory, garbage and non-font files; "
    "(fallback) every table payload truncated at each 1/16th and bit-flipped at seeded positions, rebuilt with the "
    "independent writer; (text) every distinct (table, element, attribute) site and text site of corpus TTX files, fea "
    "include statements, designspace filename/name attributes, GLIF/plist values replaced one at a time by code-execution "
    "and path-traversal canaries; (failsave) each table's compile made to raise during save onto an existing file per "
    "flavour. evaluations = faults injected; a fault is non-trivial when it changed observable behaviour (open failed or "
    "a table became unreadable, the table fell back to raw bytes, the parser reached the mutated value as shown by an "
    "exception/value change/audit record, the save failed); distinct by (file, fault)"
)
ASSUMPTIONS = [
    "the library's own error type is fontTools.ttLib.TTLibError (subclasses included), as raised by SFNTReader for short reads",
    "WOFF2 table bytes are reconstructed by design (glyf/loca transform): for WOFF2 with transformed tables only the outcome type is checked",
    "'cannot be decoded' means decompile raises at access time with lazy=False (DESIGN 4a i); errors deferred by lazy sub-structures are counted, not asserted",
    "a kept 'head' is compared modulo bytes 8-11 (checkSumAdjustment is owned by the container writer)",
    "the re-save of a font with a raw fallback table is checked with recalcBBoxes=False and recalcTimestamp=False (save must not need to derive other tables from the undecodable one); with the default recalculation, save() raises in maxp/hhea/head recalc when glyf/hmtx/CFF is raw - counted under fallback:info:default-recalc-save:*, not asserted",
    "tables that save() decoded and recompiled (dependencies of the accessed table) are not compared; tables never decoded and tables kept raw must be byte-identical",
    "worker address space is capped at 1.5 GB and limits are CPU-time based; hitting a limit is counted as inconclusive, never as a violation",
    "ufoLib is exercised on the repository's own fontTools.misc.filesystem backend (third-party 'fs' import blocked in the worker), the default for users without the optional package",
    "reading files named by fea include()/TTX src=/designspace filename is documented behaviour; only evaluation as code and writes outside the requested location are violations",
    "eval() calls in otBase/otConverters/otTables evaluate expressions from the static otData tables, not from input; they are outside the canary oracle unless a canary reaches them",
    "failed-save clause covers TTFont.save / TTCollection.save / ttx -o onto an existing path; TTFont.saveXML writes progressively by design and is reported, not asserted",
]
WALL_BUDGET = {"quick": 2400, "thorough": 5 * 3600}

LAZIES = (None, True, False)


def exc_kind(e):
    """Exception type name, module-qualified for the many classes that are just called 'error'."""
    t = type(e)
    if t.__module__ in ("builtins", "exceptions"):
        return t.__name__
    return "%s.%s" % (t.__module__.lstrip("_"), t.__name__)


def raising_function(exc):
    """Innermost frame inside the library under test, as relpath:qualified function name."""
    where = ""
    lib = os.path.realpath(REPO_LIB)
    tb = exc.__traceback__
    while tb is not None:
        code = tb.tb_frame.f_code
        fn = os.path.realpath(code.co_filename)
        if fn.startswith(lib):
            where = "%s:%s" % (os.path.relpath(fn, lib), getattr(code, "co_qualname", code.co_name))
        tb = tb.tb_next
    return where


def fail_exc(acc, clause, exc, case, extra=""):
    acc.fail(clause, exc_kind(exc), "%s%s" % (short(str(exc), 300), extra), case, raising_function(exc))


def _ttlib():
    from fontTools.ttLib import TTLibError

    return TTLibError


# ---------------------------------------------------------------------------
# corpus


def corpus_binaries():
    out = []
    for ext in ("ttf", "otf", "ttc", "otc", "woff", "woff2"):
        out += glob.glob(os.path.join(TESTS, "**", "*." + ext), recursive=True)
    return sorted(set(out))


def rel(p):
    return os.path.relpath(p, TESTS)


_FILE_CACHE = {}


def read_file(relpath):
    if relpath not in _FILE_CACHE:
        with open(os.path.join(TESTS, relpath), "rb") as f:
            _FILE_CACHE[relpath] = f.read()
        if len(_FILE_CACHE) > 64:
            _FILE_CACHE.pop(next(iter(_FILE_CACHE)))
    return _FILE_CACHE[relpath]


def container_bytes(src):
    """src: dict(file=relpath, wrap=None|'woff'|'woff2'|'ttc'|'ttc2'|'sfnt') -> container bytes.
    Wrapped containers are produced by the independent writers from an unfaulted corpus sfnt."""
    data = read_file(src["file"])
    w = src.get("wrap")
    if not w:
        return data
    ver, tabs = F.sfnt_tables(data)
    if w == "sfnt":
        return F.build_sfnt(ver, tabs)[0]
    if w == "woff":
        return F.build_woff(ver, tabs, meta=b"<?xml version='1.0'?><metadata version='1.0'/>", priv=b"private")
    if w == "woff2":
        return F.build_woff2_null(ver, tabs)
    if w == "woff2t":
        # transformed glyf/loca written by the library itself: input only, the oracle does not depend on it
        from fontTools.ttLib import TTFont

        f = TTFont(io.BytesIO(data), recalcTimestamp=False, recalcBBoxes=False)
        f.flavor = "woff2"
        out = io.BytesIO()
        f.save(out)
        return out.getvalue()
    if w in ("ttc", "ttc2"):
        other = [(t, p) for t, p in tabs if t != b"DSIG"]
        return F.build_ttc([(ver, tabs), (ver, other)], 0x00020000 if w == "ttc2" else 0x00010000)
    raise HarnessError("unknown wrap %r" % w)


def apply_fault(data, fault):
    """fault: ('none',) | ('trunc', n) | ('byte', pos, how) | ('raw', bytes)"""
    k = fault[0]
    if k == "none":
        return data
    if k == "trunc":
        return data[: fault[1]]
    if k == "byte":
        return F.corrupt(data, fault[1], fault[2])
    if k == "raw":
        return fault[1]
    raise HarnessError("unknown fault %r" % (fault,))


# ---------------------------------------------------------------------------
# clause 1: open


def _tagb(tag):
    return tag.encode("latin-1") if isinstance(tag, str) else bytes(tag)


def ref_fonts(data):
    """Reference view of a container: ('fail', why) when the reference parser says header/directory
    are malformed/truncated; ('ok', kind, [ {tag: bytes|None} per member font ] | None)."""
    kind = F.kind_of(data)
    try:
        if kind == "sfnt":
            _, _, ents = F.parse_sfnt_dir(data)
            return ("ok", kind, [F.sfnt_slices(data, ents)])
        if kind == "ttc":
            _, offs = F.parse_ttc(data)
            fonts = []
            for o in offs:
                _, _, ents = F.parse_sfnt_dir(data, o)
                fonts.append(F.sfnt_slices(data, ents))
            return ("ok", kind, fonts)
        if kind == "woff":
            _, ents = F.parse_woff(data)
            return ("ok", kind, [F.woff_slices(data, ents)])
        if kind == "woff2":
            sl = F.woff2_null_slices(data)
            return ("ok", kind, [sl] if sl is not None else None)
    except (F.RefError, struct.error) as e:
        return ("fail", str(e))
    return ("fail", "not a font")


def _read_tables(acc, clause, font, ref, case, stats):
    """Read every table's raw bytes through the reader and compare with the reference slices."""
    TTLibError = _ttlib()
    reader = font.reader
    try:
        tags = list(reader.keys())
    except Exception as e:
        fail_exc(acc, clause, e, case)
        return
    if ref is not None:
        want = set(ref)
        got = set(_tagb(t) for t in tags)
        if want != got:
            acc.fail(clause, "tag-set-differs", "reader has %r, directory designates %r" % (sorted(got - want)[:5], sorted(want - got)[:5]), case)
    for tag in tags:
        try:
            with time_limit(30):
                data = reader[tag]
        except TTLibError:
            stats["table-ttliberror"] += 1
            continue
        except CaseTimeout:
            # reading one table normally takes well under a millisecond, but a corrupt count can make it
            # legitimately long; counted, not asserted
            acc.inconclusive += 1
            acc.label("open:info:cpu-limit-hit")
            continue
        except Exception as e:
            stats["table-foreign"] += 1
            fail_exc(acc, clause, e, case, extra=" (reader[%r])" % str(tag))
            continue
        stats["table-read"] += 1
        if ref is not None:
            exp = ref.get(_tagb(tag), b"<absent>")
            if exp is None:
                acc.fail(clause, "data-for-invalid-slice", "reader[%r] returned %d bytes but the directory entry does not designate a valid slice" % (str(tag), len(data)), case)
            elif bytes(data) != exp:
                acc.fail(clause, "table-bytes-differ", "reader[%r]: %d bytes, directory designates %d bytes" % (str(tag), len(data), len(exp)), case)


def open_case(acc, kind, data, lazy, case, baseline=False):
    """Run one OPEN case. Returns an outcome label."""
    import collections

    from fontTools.ttLib import TTCollection, TTFont

    TTLibError = _ttlib()
    clause = "open:%s" % kind
    ref = ref_fonts(data)
    stats = collections.Counter()
    fonts = None
    outcome = None
    try:
        with time_limit(30):
            if data[:4] == b"ttcf":
                coll = TTCollection(io.BytesIO(data), lazy=lazy)
                fonts = list(coll.fonts)
            else:
                fonts = [TTFont(io.BytesIO(data), lazy=lazy)]
    except TTLibError:
        outcome = "ttliberror"
    except CaseTimeout:
        acc.inconclusive += 1
        acc.label("open:info:cpu-limit-hit")
        return "timeout"
    except Exception as e:
        fail_exc(acc, clause, e, case)
        return "foreign:%s" % type(e).__name__
    if outcome is None:
        if ref[0] == "fail":
            acc.fail(clause, "opened-malformed-container", "opened although the reference parser says: %s" % ref[1], case)
        refs = ref[2] if ref[0] == "ok" else None
        if refs is not None and len(refs) != len(fonts):
            acc.fail(clause, "font-count-differs", "%d fonts, header designates %d" % (len(fonts), len(refs)), case)
            refs = None
        nfail = len(acc.failures)
        for i, font in enumerate(fonts):
            _read_tables(acc, clause, font, refs[i] if refs else None, case, stats)
        if data[:4] == b"ttcf" and refs:
            # the TTFont(fontNumber=) route, and the documented refusal without a font number
            for i in range(len(refs)):
                try:
                    f = TTFont(io.BytesIO(data), fontNumber=i, lazy=lazy)
                    _read_tables(acc, clause, f, refs[i], case, stats)
                except TTLibError:
                    stats["table-ttliberror"] += 1
                except Exception as e:
                    fail_exc(acc, clause, e, case, extra=" (fontNumber=%d)" % i)
            try:
                TTFont(io.BytesIO(data), lazy=lazy)
                acc.fail(clause, "collection-opened-without-fontNumber", "", case)
            except TTLibError:
                pass
            except Exception as e:
                fail_exc(acc, clause, e, case, extra=" (fontNumber=-1)")
        if stats["table-foreign"]:
            outcome = "opened:table-foreign"
        elif stats["table-ttliberror"]:
            outcome = "opened:some-table-ttliberror"
        else:
            outcome = "opened:all-tables-equal-ref" if refs is not None else "opened:all-tables-read"
        if baseline and (outcome not in ("opened:all-tables-equal-ref", "opened:all-tables-read") or len(acc.failures) != nfail):
            acc.fail(clause, "baseline-unreadable", "unfaulted container: %s" % outcome, case)
    elif baseline:
        acc.fail(clause, "baseline-unreadable", "unfaulted container raises TTLibError", case)
    return outcome


def run_open_job(acc, job):
    src = job["src"]
    data = container_bytes(src)
    kind = job["ckind"]
    thorough = job["tier"] == "thorough"
    lo, hi = job.get("lo", 0), job.get("hi")
    faults = [("none",)]
    for n in F.truncation_lengths(kind, data, small=job["small"], stride=job["stride"], phase=job["phase"]):
        faults.append(("trunc", n))
    for pos in F.dir_region(kind, data):
        for how in F.CORRUPTIONS:
            faults.append(("byte", pos, how))
    faults = faults[lo:hi] if hi is not None else faults[lo:]
    idx = lo
    for fault in faults:
        idx += 1
        fd = apply_fault(data, fault)
        if fd is None:
            continue  # corruption value equals the original byte: not a fault
        lazies = LAZIES if (thorough or fault[0] == "none") else (LAZIES[(idx + job["phase"]) % 3],)
        for lazy in lazies:
            case = {"space": "open", "src": src, "ckind": kind, "fault": list(fault), "lazy": lazy}
            out = open_case(acc, kind, fd, lazy, case, baseline=(fault[0] == "none"))
            nontrivial = not out.startswith("opened:all-tables") and fault[0] != "none"
            acc.case((src, fault, lazy), nontrivial=nontrivial, labels=["open:%s:%s" % (kind, fault[0]), "open:outcome:%s" % out, "open:lazy=%s" % lazy], sample=case if fault[0] == "byte" and idx % 50 == 0 else None)


GARBAGE_PREFIXES = [b"", b"OTTO", b"\0\1\0\0", b"true", b"ttcf", b"ttcf\0\1\0\0", b"ttcf\0\2\0\0", b"wOFF", b"wOF2", b"wOFFOTTO", b"wOF2\0\1\0\0", b"typ1", b"<?xml version='1.0'?>", b"PK\x03\x04", b"%!PS-AdobeFont-1.0", b"\x80\x01"]


def run_garbage_job(acc, job):
    rnd = random.Random(job["seed"])
    cases = []
    # non-font files: empty, 1..12 bytes, text, zip, xml, a python file
    cases.append(b"")
    for n in range(1, 13):
        cases.append(bytes(rnd.randrange(256) for _ in range(n)))
        cases.append(b"\0" * n)
        for pre in (b"OTTO", b"ttcf", b"wOFF", b"wOF2", b"\0\1\0\0"):
            cases.append((pre + bytes(rnd.randrange(256) for _ in range(12)))[:n])
    cases.append(b"Hello, this is not a font.\n" * 10)
    import zipfile

    z = io.BytesIO()
    with zipfile.ZipFile(z, "w") as zf:
        zf.writestr("a.txt", "hello")
    cases.append(z.getvalue())
    for p in ("ttx/data/TestTTF.ttx", "feaLib/data/include/test.fea"):
        try:
            cases.append(read_file(p)[:4000])
        except OSError:
            pass
    for _ in range(job["n"]):
        pre = rnd.choice(GARBAGE_PREFIXES)
        n = rnd.choice([0, 1, 4, 8, 12, 16, 28, 44, 48, 64, 100, 300, 2000])
        style = rnd.random()
        if style < 0.4:
            body = bytes(rnd.randrange(256) for _ in range(n))
        elif style < 0.6:
            body = bytes(rnd.choice([0, 0, 0, 1, 2, 0xFF]) for _ in range(n))
        elif style < 0.8:
            # plausible small counts followed by noise
            body = struct.pack(">HHHH", rnd.choice([0, 1, 2, 3, 10, 0xFFFF]), rnd.randrange(65536), rnd.randrange(4), rnd.randrange(4)) + bytes(rnd.randrange(256) for _ in range(n))
        else:
            body = struct.pack(">LL", rnd.choice([0x10000, 0x20000, 0, 0xFFFFFFFF]), rnd.choice([0, 1, 2, 3, 1000, 0xFFFFFFFF])) + bytes(rnd.choice([0, 0, 12, 16, 0xFF]) for _ in range(n))
        cases.append(pre + body)
    for i, d in enumerate(cases):
        lazy = LAZIES[i % 3]
        # bucketed under the container kind that the magic number announces
        gk = F.kind_of(d)
        case = {"space": "open", "src": None, "ckind": gk, "fault": ["raw", d], "lazy": lazy}
        out = open_case(acc, gk, d, lazy, case)
        acc.case(("garbage", d, lazy), nontrivial=not out.startswith("opened:all-tables"), labels=["open:garbage", "open:outcome:%s" % out, "open:garbage:kind=%s" % F.kind_of(d)], sample=case if i == 40 else None)


# ---------------------------------------------------------------------------
# clause 2: decompile errors ignored -> raw fallback, re-saved unchanged


def payload_fault(payload, fault):
    """fault: ('trunc', n) | ('flip', pos, bit) | ('none',)"""
    if fault[0] == "none":
        return payload
    if fault[0] == "trunc":
        return payload[: fault[1]]
    if fault[0] == "flip":
        pos, bit = fault[1], fault[2]
        if pos >= len(payload):
            return None
        return payload[:pos] + bytes([payload[pos] ^ (1 << bit)]) + payload[pos + 1 :]
    raise HarnessError("unknown payload fault %r" % (fault,))


def _head_mod(tag, b):
    """head modulo bytes 8-11 (checkSumAdjustment, owned by the container writer)."""
    if tag == b"head" and len(b) >= 12:
        return b[:8] + b"\0\0\0\0" + b[12:]
    return b


def fallback_case(acc, relfile, tag, fault, case, do_save_when_decoded=False, info_recalc=False):
    """tag: bytes. Returns outcome label."""
    from fontTools.ttLib import TTFont
    from fontTools.ttLib.tables.DefaultTable import DefaultTable

    clause = "fallback"
    ver, tabs = F.sfnt_tables(read_file(relfile))
    orig = dict(tabs)
    newp = payload_fault(orig[tag], fault)
    if newp is None or (newp == orig[tag] and fault[0] != "none"):
        return "no-change"
    tabs2 = [(t, (newp if t == tag else p)) for t, p in tabs]
    inp = dict(tabs2)
    blob, _ = F.build_sfnt(ver, tabs2)
    stag = tag.decode("latin-1")
    # twin A: does decompile raise (eager mode)?
    raised = None
    try:
        with time_limit(8):
            fA = TTFont(io.BytesIO(blob), lazy=False)
            fA[stag]
    except CaseTimeout:
        acc.inconclusive += 1
        return "timeout"
    except Exception as e:
        raised = e
    # twin B: errors ignored
    try:
        with time_limit(8):
            # recalcBBoxes/recalcTimestamp off: save() must not try to derive other tables' contents from the
            # undecodable one (that it cannot is outside the statement, DESIGN 4a i); see _recalc_info
            fB = TTFont(io.BytesIO(blob), ignoreDecompileErrors=True, lazy=False, recalcTimestamp=False, recalcBBoxes=False)
            t = fB[stag]
    except CaseTimeout:
        acc.inconclusive += 1
        return "timeout"
    except Exception as e:
        fail_exc(acc, clause + ":access", e, case, extra=" (font[%r] with ignoreDecompileErrors=True; strict twin: %s)" % (stag, exc_kind(raised) if raised else "decodes"))
        return "access-raised"
    fell = hasattr(t, "ERROR")
    if raised is None:
        if fell:
            acc.label("fallback:info:fell-back-though-strict-twin-decodes")
        elif not do_save_when_decoded:
            return "decoded"
    elif isinstance(raised, MemoryError) and not fell:
        # allocation failures depend on the state of the heap, not only on the input
        acc.inconclusive += 1
        return "decoded"
    else:
        if not fell or type(t) is not DefaultTable:
            acc.fail(clause + ":keep", "not-a-raw-DefaultTable", "decompile raised %s but font[%r] is %s (ERROR attr: %s)" % (exc_kind(raised), stag, type(t).__name__, fell), case)
            return "not-kept"
        if getattr(t, "data", None) != newp:
            acc.fail(clause + ":keep", "payload-not-kept", "DefaultTable.data has %s bytes, payload has %d" % (len(t.data) if hasattr(t, "data") else "no", len(newp)), case)
            return "not-kept"
    out = io.BytesIO()
    try:
        with time_limit(30):
            fB.save(out)
    except CaseTimeout:
        acc.inconclusive += 1
        return "timeout"
    except Exception as e:
        if fell:
            fail_exc(acc, clause + ":resave", e, case, extra=" (save() after '%s' fell back to raw bytes)" % stag)
            return "fellback:save-raised"
        acc.label("fallback:info:decoded-but-save-raises:%s" % exc_kind(e))
        return "decoded:save-raised"
    if not fell:
        return "decoded:saved"
    # tables never decompiled (not even during save) are raw copies; tables that fell back are raw too;
    # anything else was decoded and recompiled by save() (dependencies): not compared
    loaded_before = set(_tagb(k) for k in fB.tables.keys() if k != "GlyphOrder")
    fellback = set(k for k in loaded_before if hasattr(fB.tables[k.decode("latin-1")], "ERROR"))
    try:
        _, _, ents = F.parse_sfnt_dir(out.getvalue())
        got = F.sfnt_slices(out.getvalue(), ents)
    except (F.RefError, struct.error) as e:
        acc.fail(clause + ":resave", "saved-file-unparseable", str(e), case)
        return "fellback:bad-output"
    if set(got) != set(inp):
        acc.fail(clause + ":resave", "table-set-changed", "saved %r, input %r" % (sorted(set(got) - set(inp)), sorted(set(inp) - set(got))), case)
    bad_self = []
    bad_other = []
    derived = 0
    for tg, p in inp.items():
        g = got.get(tg)
        if g is None:
            continue
        if tg in fellback or tg not in loaded_before:
            short_head = tg == b"head" and len(p) < 12
            if (g != p) if short_head else (_head_mod(tg, g) != _head_mod(tg, p)):
                (bad_self if tg == tag else bad_other).append((tg, len(g), len(p)))
        else:
            derived += 1
    if derived:
        acc.label("fallback:info:loaded-dependencies-not-compared", derived)
    short_head_in_play = any(len(p) < 12 for tg, p in inp.items() if tg == b"head")
    if short_head_in_play and (bad_self or bad_other):
        acc.fail(clause + ":resave", "short-head-checksum-write", "kept 'head' payload is %d bytes long; the 4-byte checkSumAdjustment write at head+8 changed (tag, saved len, input len): %r" % (len(inp[b"head"]), (bad_self + bad_other)[:4]), case, where="ttLib/sfnt.py:SFNTWriter.writeMasterChecksum")
    else:
        if bad_self:
            acc.fail(clause + ":resave", "fallback-table-bytes-changed", "%r" % bad_self, case)
        if bad_other:
            acc.fail(clause + ":resave", "untouched-table-bytes-changed", "tables changed although never loaded or kept raw: %r" % bad_other[:4], case)
    if info_recalc:
        _recalc_info(acc, blob, stag)
    return "fellback:resaved-identically" if not (bad_self or bad_other) else "fellback:changed"


def _recalc_info(acc, blob, stag):
    """Informational: the same re-save with the default recalcBBoxes=True / recalcTimestamp=True."""
    from fontTools.ttLib import TTFont

    try:
        f = TTFont(io.BytesIO(blob), ignoreDecompileErrors=True, lazy=False)
        f[stag]
        f.save(io.BytesIO())
        acc.label("fallback:info:default-recalc-save:ok")
    except Exception as e:
        acc.label("fallback:info:default-recalc-save:%s@%s" % (exc_kind(e), raising_function(e)))


def fallback_faults(payload, rnd, nflips):
    fs = []
    n = len(payload)
    seen = set()
    for i in range(16):
        ln = (n * i) // 16
        if ln not in seen and ln < n:
            seen.add(ln)
            fs.append(("trunc", ln))
    for _ in range(nflips if n else 0):
        r = rnd.random()
        if r < 0.5:
            pos = rnd.randrange(min(n, 32))
        elif r < 0.75:
            pos = rnd.randrange(min(n, 256))
        else:
            pos = rnd.randrange(n)
        bit = rnd.choice([7, 7, 6, 0, 1, 2, 3, 4, 5])
        f = ("flip", pos, bit)
        if f not in seen:
            seen.add(f)
            fs.append(f)
    return fs


def run_fallback_job(acc, job):
    relfile = job["file"]
    ver, tabs = F.sfnt_tables(read_file(relfile))
    rnd = random.Random(job["seed"])
    n = 0
    for tag, payload in tabs:
        if job.get("tags") and tag.decode("latin-1") not in job["tags"]:
            continue
        timeouts = 0
        for fault in [("none",)] + fallback_faults(payload, rnd, job["nflips"]):
            n += 1
            if timeouts >= 2:
                # a table whose damaged forms keep the decoder busy beyond the CPU limit (a count field blown up to tens of
                # thousands of records): two such cases are recorded as inconclusive, the rest of this table's faults
                # is skipped so that the job stays within its budget
                acc.label("fallback:skipped-after-two-timeouts")
                continue
            case = {"space": "fallback", "file": relfile, "tag": tag, "fault": list(fault)}
            import time as _time

            _t0 = _time.time()
            out = fallback_case(acc, relfile, tag, fault, case, do_save_when_decoded=(n % 5 == 0 or fault[0] == "none"), info_recalc=(n % 3 == 0))
            if out == "timeout" or _time.time() - _t0 > 10:
                timeouts += 1
                acc.label("fallback:slow-or-timed-out-case")
            if out == "no-change":
                continue
            if fault[0] == "none" and not out.startswith("decoded"):
                acc.label("fallback:info:unfaulted-table-does-not-decode:%s" % tag.decode("latin-1"))
            acc.case((relfile, tag, fault), nontrivial=out.startswith(("fellback", "not-kept", "access-raised")), labels=["fallback:%s" % fault[0], "fallback:outcome:%s" % out] + (["fallback:fell:%s" % tag.decode("latin-1")] if out.startswith("fellback") else []), sample=case if out.startswith("fellback") and n % 40 == 0 else None)


# ---------------------------------------------------------------------------
# clause 4: a save that fails leaves an existing destination untouched


_JOB_DIR = []


import contextlib


@contextlib.contextmanager
def _job_dir(tag):
    """One scratch directory per worker job (directory creation is slow on the shared box)."""
    if _JOB_DIR:
        yield _JOB_DIR[0]
        return
    with scratch_dir(tag) as d:
        _JOB_DIR.append(d)
        try:
            yield d
        finally:
            _JOB_DIR.pop()


class CompileBoom(Exception):
    pass


def _boom(*a, **k):
    raise CompileBoom("compile made to fail by the harness")


EXISTING = b"EXISTING DESTINATION FILE - MUST SURVIVE A FAILED SAVE\n" * 7


def failsave_case(acc, case, d=None):
    """case: dict(space='failsave', api='TTFont.save'|'TTCollection.save'|'ttx-o'|'saveXML', file=rel, tag=str, flavor=None|'woff'|'woff2', member=int)"""
    from fontTools.ttLib import TTCollection, TTFont

    api = case["api"]
    clause = "failsave:%s" % api
    tag = case["tag"]
    if d is None:
        with scratch_dir("c20fs") as d2:
            return failsave_case(acc, case, d2)
    data = container_bytes(dict(file=case["file"], wrap=case.get("wrap")))
    if True:
        dest = os.path.join(d, "dest.bin")
        with open(dest, "wb") as f:
            f.write(EXISTING)
        raised = None
        try:
            with time_limit(120):
                if api == "TTFont.save":
                    font = TTFont(io.BytesIO(data), lazy=case.get("lazy"))
                    font.flavor = case["flavor"]
                    font[tag].compile = _boom
                    import pathlib

                    font.save(pathlib.Path(dest) if case.get("pathlike") else dest, reorderTables=case.get("reorder", True))
                elif api == "subset.save_font":
                    from fontTools import subset

                    font = TTFont(io.BytesIO(data), lazy=case.get("lazy"))
                    opts = subset.Options()
                    opts.flavor = case["flavor"]
                    if case.get("reorder", None) is not None:
                        opts.canonical_order = case["reorder"]
                    font[tag].compile = _boom
                    subset.save_font(font, dest, opts)
                elif api == "TTCollection.save":
                    coll = TTCollection(io.BytesIO(data))
                    coll.fonts[case["member"]][tag].compile = _boom
                    coll.save(dest)
                elif api == "ttx-o":
                    from fontTools import ttx
                    from fontTools.ttLib import getTableClass

                    src = os.path.join(d, "in.ttx")
                    font = TTFont(io.BytesIO(data))
                    font.saveXML(src)
                    cls = getTableClass(tag)
                    old = cls.__dict__.get("compile")
                    cls.compile = _boom
                    try:
                        try:
                            ttx.main(["-q", "-o", dest] + (["--flavor", case["flavor"]] if case["flavor"] else []) + [src])
                        except SystemExit as e:
                            if e.code not in (0, None):
                                raised = e
                    finally:
                        if old is not None:
                            cls.compile = old
                        else:
                            del cls.compile
                else:
                    raise HarnessError("unknown api %r" % api)
        except CaseTimeout:
            acc.inconclusive += 1
            return "timeout"
        except HarnessError:
            raise
        except Exception as e:
            raised = e
        with open(dest, "rb") as f:
            after = f.read()
        if raised is None:
            return "save-succeeded(compile-not-called)"
        if after != EXISTING:
            what = "emptied" if not after else ("truncated/overwritten with %d bytes" % len(after))
            acc.fail(clause, "destination-clobbered", "save raised %s but the existing destination was %s (flavor=%s, table %s)" % (exc_kind(raised) if not isinstance(raised, SystemExit) else "SystemExit", what, case.get("flavor"), tag), case)
            return "failed:destination-clobbered"
        return "failed:destination-untouched"


def run_failsave_job(acc, job):
    relfile = job["file"]
    data = container_bytes(dict(file=relfile, wrap=job.get("wrap")))
    api = job["api"]
    if api == "TTCollection.save":
        _, offs = F.parse_ttc(data)
        members = []
        for i, o in enumerate(offs):
            _, _, ents = F.parse_sfnt_dir(data, o)
            members += [(i, e[0].decode("latin-1")) for e in ents]
        cases = [dict(space="failsave", api=api, file=relfile, wrap=job.get("wrap"), tag=t, member=i, flavor=None) for i, t in members]
    else:
        _, _, ents = F.parse_sfnt_dir(data)
        tags = [e[0].decode("latin-1") for e in ents]
        cases = []
        for t in tags:
            for fl in job["flavors"]:
                for lazy in job.get("lazies", [None]):
                    if api in ("TTFont.save", "subset.save_font"):
                        # every table order policy (pyftsubset passes None by default) and both kinds of path argument
                        for ro in (True, False, None):
                            cases.append(dict(space="failsave", api=api, file=relfile, tag=t, flavor=fl, lazy=lazy, reorder=ro, pathlike=(ro is not True and api == "TTFont.save" and len(cases) % 2 == 0)))
                    else:
                        cases.append(dict(space="failsave", api=api, file=relfile, tag=t, flavor=fl, lazy=lazy))
    with scratch_dir("c20fs") as d:
        outs = [(c, failsave_case(acc, c, d)) for c in cases]
    for c, out in outs:
        ls = ["failsave:%s:%s" % (api, c.get("flavor")), "failsave:outcome:%s" % out]
        if "reorder" in c:
            ls.append("failsave:reorderTables=%s%s" % (c["reorder"], ":pathlike" if c.get("pathlike") else ""))
        acc.case(c, nontrivial=out.startswith("failed"), labels=ls, sample=c if c["tag"] == "hmtx" else None)


def run_savexml_info_job(acc, job):
    """Informational only (see ASSUMPTIONS): TTFont.saveXML(path) when a table's toXML raises."""
    with _job_dir("c20sx"):
        _run_savexml_info_job(acc, job)


def _run_savexml_info_job(acc, job):
    from fontTools.ttLib import TTFont

    data = read_file(job["file"])
    _, _, ents = F.parse_sfnt_dir(data)
    for e in ents:
        tag = e[0].decode("latin-1")
        with _job_dir("c20sx") as d:
            dest = os.path.join(d, "dest.ttx")
            with open(dest, "wb") as f:
                f.write(EXISTING)
            font = TTFont(io.BytesIO(data))
            font[tag].toXML = _boom
            try:
                font.saveXML(dest)
                out = "succeeded"
            except CompileBoom:
                with open(dest, "rb") as f:
                    out = "untouched" if f.read() == EXISTING else "clobbered"
            except Exception as ex:
                out = "other:%s" % exc_kind(ex)
        acc.label("failsave:info:saveXML-toXML-raises:destination-%s" % out)
        acc.case(("savexml", job["file"], tag), nontrivial=(out != "succeeded"), labels=["failsave:saveXML(informational)"])


# ---------------------------------------------------------------------------
# clause 3: text inputs are data


def _record_sites(acc, o):
    from vf import c20_text as T

    if o.sites:
        d = acc.extra.setdefault("safeeval_sites_hit", {})
        for relp, ln in T.map_to_static(o.sites):
            d["%s:%d" % (relp, ln)] = 1
        raw = acc.extra.setdefault("safeeval_frames_hit", {})
        for relp, ln in o.sites:
            raw["%s:%d" % (relp, ln)] = 1


def run_ttx_job(acc, job):
    from vf import c20_text as T

    relfile = job["file"]
    src = T.ttx_source(relfile)
    sites = F.scan_xml(src)
    with T.job_env() as env:
        base = T.ttx_baseline(env, src)
        acc.label("text:ttx:baseline:%s" % ("imports" if base[0] == "ok" else "import-raises"))
        for key, ordinal in job["sites"]:
            kind, path, attr, s, e = sites[ordinal]
            orig = src[s:e]
            canaries = list(env.exec_canaries())
            if job["canaries"] != "all":
                # quick tier: the first canary always, one more plain and one quote-breaking canary in rotation
                canaries = [canaries[0], canaries[1 + (ordinal % 3)], canaries[4 + (ordinal % 3)]]
            if kind == "attr" and not T._NUMERICISH.match(orig):
                canaries += env.path_canaries(".ttx")
            for can in canaries:
                case = {"space": "text", "sub": "ttx", "file": relfile, "ordinal": ordinal, "canary": can[0], "key": list(key)}
                out, sig, o = T.ttx_case(acc, env, relfile, ordinal, can, base, case, src=src, sites=sites)
                _record_sites(acc, o)
                acc.case((relfile, ordinal, can[0]), nontrivial=out.startswith(("reached", "violation")), labels=["text:ttx:%s" % kind, "text:ttx:canary:%s" % can[0], "text:ttx:outcome:%s" % out], sample=case if out == "reached:safeEval-site" and ordinal % 30 == 0 else None)


def text_replay_ttx(acc, case):
    from vf import c20_text as T

    with T.job_env() as env:
        cans = dict(env.exec_canaries() + env.path_canaries(".ttx"))
        src = T.ttx_source(case["file"])
        base = T.ttx_baseline(env, src)
        T.ttx_case(acc, env, case["file"], case["ordinal"], (case["canary"], cans[case["canary"]]), base, case, src=src)


def ttx_special_case(acc, env, case):
    """Cases beyond single-attribute substitution: consistent glyph rename (dump with -g / -z extfile),
    src= includes of split dumps, ttx -d / -o output handling."""
    from vf import c20_text as T

    sub = case["sub"]
    cans = dict(env.exec_canaries() + env.path_canaries("") + [("trav-deep", "x/../../../outside/%s_deep" % F.MARK), ("fmt", "{ext.__class__}%s" % F.MARK)])
    can = cans[case["canary"]]
    env.clean(keep_in=False)
    os.makedirs(env.inp, exist_ok=True)
    if sub == "ttx-glyphname":
        with open(os.path.join(TESTS, case["file"]), "rb") as f:
            src = f.read()
        doc, old = T.glyph_rename_doc(src, can)
        if doc is None:
            return "not-applicable", None
        o = T.guarded(env, [env.work], T.run_ttx(env, doc, stage2=True))
    elif sub in ("ttx-src", "ttx-cli"):
        from fontTools.ttLib import TTFont

        font = TTFont(os.path.join(TESTS, case["file"]))
        main = os.path.join(env.inp, "split.ttx")
        font.saveXML(main, splitTables=True)  # input preparation
        with open(main, "rb") as f:
            src = f.read()
        sites = [x for x in F.scan_xml(src) if x[0] == "attr" and (x[2] == "src" or sub == "ttx-cli")]
        if case["ordinal"] >= len(sites):
            return "not-applicable", None
        kind, path, attr, s, e = sites[case["ordinal"]]
        with open(main, "wb") as f:
            f.write(F.substitute(src, s, e, can))
        if sub == "ttx-src":
            def fn():
                f2 = TTFont()
                f2.importXML(main)
                f2.save(os.path.join(env.out, "saved.ttf"))
                return {"import": "ok"}

            o = T.guarded(env, [env.work], fn)
        else:
            from fontTools import ttx

            os.makedirs(env.out, exist_ok=True)
            args = ["-q", "-d", env.out, main] if case.get("mode") == "d" else ["-q", "-o", os.path.join(env.out, "o.ttf"), main]
            # requested location is work/out; ttx may also read next to the input
            o = T.guarded(env, [env.out], lambda: ttx.main(args), cli=True)
    else:
        raise HarnessError("unknown special sub %r" % sub)
    nf = T.report(acc, "text:%s" % sub, case, env, o)
    _record_sites(acc, o)
    return ("violation" if nf else "ran:%s" % (type(o.exc).__name__ if o.exc is not None else "ok")), o


def run_ttx_special_job(acc, job):
    from vf import c20_text as T

    with T.job_env() as env:
        for case in job["cases"]:
            out, o = ttx_special_case(acc, env, case)
            if out == "not-applicable":
                acc.exclude("ttx-special:not-applicable")
                continue
            acc.case(case, nontrivial=out.startswith(("violation", "ran:")) and out != "ran:ok" or bool(o and o.sites), labels=["text:%s" % case["sub"], "text:%s:outcome:%s" % (case["sub"], out), "text:special:canary:%s" % case["canary"]])


def fea_case(acc, env, case):
    from vf import c20_text as T

    with open(os.path.join(TESTS, case["file"]), encoding="utf-8", errors="replace") as f:
        text = f.read()
    cans = dict(env.exec_canaries() + env.path_canaries(".fea") + [("trav-deep", "x/../../../outside/%s_deep.fea" % F.MARK)])
    env.clean()
    if case["ordinal"] is None:
        mutated = text
    else:
        sites = T.fea_sites(text)
        if case["ordinal"] >= len(sites):
            return "not-applicable", None
        kind, s, e = sites[case["ordinal"]]
        v = cans[case["canary"]]
        if kind == "string":
            v = v.replace('"', "'")
        mutated = text[:s] + v + text[e:]
    if case.get("prepend_include"):
        mutated = "include(%s);\n" % cans[case["canary"]] + text
    # the include directory of the corpus file is not copied: resolution failures are ordinary errors
    o = T.guarded(env, [env.work], T.run_fea(env, mutated, build=case.get("build", True)))
    nf = T.report(acc, "text:fea", case, env, o)
    _record_sites(acc, o)
    sig = (T.exc_sig(o.exc), tuple(sorted((o.result or {}).items())))
    return ("violation" if nf else "ran"), sig


def run_fea_job(acc, job):
    from vf import c20_text as T

    with T.job_env() as env:
        for relfile in job["files"]:
            with open(os.path.join(TESTS, relfile), encoding="utf-8", errors="replace") as f:
                text = f.read()
            base_case = {"space": "text", "sub": "fea", "file": relfile, "ordinal": None, "canary": "open-w"}
            _, base = fea_case(acc, env, base_case)
            sites = T.fea_sites(text)
            seen_kinds = set()
            plan = []
            for cn in ("trav-rel", "trav-abs", "trav-deep", "open-w"):
                plan.append(dict(base_case, canary=cn, prepend_include=True))
            for i, (kind, s, e) in enumerate(sites):
                if kind in seen_kinds and job["dedupe"] and kind != "string":
                    continue
                seen_kinds.add(kind)
                names = ["os.system", "open-w", "dunder", "ifexp"] if job["canaries"] == "all" else ["os.system", ["open-w", "dunder", "ifexp"][i % 3]]
                if kind == "string":
                    names += ["quote3s"]
                if kind in ("include-arg", "string") or kind.startswith("name-after"):
                    names += ["trav-rel", "trav-abs"]
                for cn in names:
                    plan.append(dict(base_case, ordinal=i, canary=cn))
            for case in plan:
                out, sig = fea_case(acc, env, case)
                if out == "not-applicable":
                    continue
                kind = "prepended-include" if case.get("prepend_include") else sites[case["ordinal"]][0].split("-after-")[0]
                acc.case(case, nontrivial=(sig != base or out == "violation"), labels=["text:fea:%s" % kind, "text:fea:outcome:%s" % (out if sig != base or out == "violation" else "unreached")])


def designspace_case(acc, env, case):
    from vf import c20_text as T

    cans = dict(env.exec_canaries() + env.path_canaries(".ttf") + [("trav-deep", "x/../../../outside/%s_deep.ttf" % F.MARK), ("trav-noext", "../../outside/%s_noext" % F.MARK), ("fmt", "{ext.__class__.__init__.__globals__}%s" % F.MARK), ("plain", "plain_%s.ttf" % F.MARK)])
    v = cans[case["canary"]]
    env.clean()
    sub = case["sub"]
    if sub == "ds-parse":
        with open(os.path.join(TESTS, case["file"]), "rb") as f:
            src = f.read()
        sites = [x for x in F.scan_xml(src) if not (x[0] == "text" and b"<" in src[x[3] : x[4]])]
        if case["ordinal"] >= len(sites):
            return "not-applicable"
        _, path, attr, s, e = sites[case["ordinal"]]
        p = os.path.join(env.inp, "case.designspace")
        with open(p, "wb") as f:
            f.write(F.substitute(src, s, e, v))

        def fn():
            from fontTools.designspaceLib import DesignSpaceDocument

            doc = DesignSpaceDocument.fromfile(p)
            doc.write(os.path.join(env.out, "rewritten.designspace"))
            for d in doc.sources + doc.instances:
                str(d.path)
            return {"parse": "ok"}

        o = T.guarded(env, [env.work], fn)
        nf = T.report(acc, "text:designspace", case, env, o)
        return "violation" if nf else ("ran:%s" % (type(o.exc).__name__ if o.exc is not None else "ok"))
    if sub == "varlib-main":
        T.prepare_masters(env)
        field = case["field"]
        if field == "filename":
            text = T.DS_TEMPLATE % dict(name="TestFamilyVF", filename=' filename="%s"' % F.xml_escape_attr(v))
        else:  # the name attribute is used for the output file when filename is absent
            text = T.DS_TEMPLATE % dict(name=F.xml_escape_attr(v), filename="")
        mode = case["mode"]
        requested = env.out if mode == "output-dir" else env.inp
        before = T.snapshot(env.d)
        o = T.guarded(env, [requested], T.run_varlib_main(env, text, mode), cli=True, limit=300)
        after = T.snapshot(env.d)
        nf = 0
        req = os.path.realpath(requested) + os.sep
        stray = [os.path.relpath(pth, env.d) for pth, st in after.items() if before.get(pth) != st and not (os.path.realpath(pth) + os.sep).startswith(req) and not pth.endswith("case.designspace")]
        wr = [ev for ev in o.events if ev[0] == "write-outside" or ev[0].startswith("fs-modify-outside")]
        o.events = [ev for ev in o.events if ev not in wr]
        if stray or wr:
            # one failure per case: the command wrote outside the directory it was asked to write to
            acc.fail("text:varlib-main", "output-outside-requested-directory", "requested %s; files written elsewhere: %r; audit: %r" % (os.path.relpath(requested, env.d), stray[:3], [(k, short(dt, 90)) for k, w, dt in wr[:3]]), case, where="fontTools/varLib/__init__.py:main")
            nf += 1
            env.side_effects()  # restore the bait directory; already reported
        nf += T.report(acc, "text:varlib-main", case, env, o)
        built = any(before.get(pth) != st and pth.startswith(req) and "masters" not in pth and not pth.endswith(".designspace") for pth, st in after.items())
        return "violation" if nf else ("built-inside" if built else "ran:%s" % (type(o.exc).__name__ if o.exc is not None else "ok-nothing-written"))
    raise HarnessError("unknown designspace sub %r" % sub)


def run_designspace_job(acc, job):
    from vf import c20_text as T

    with T.job_env() as env:
        for case in job["cases"]:
            out = designspace_case(acc, env, case)
            if out == "not-applicable":
                continue
            acc.case(case, nontrivial=(out != "ran:ok"), labels=["text:%s" % case["sub"], "text:%s:outcome:%s" % (case["sub"], out)] + (["text:varlib-main:%s:%s" % (case["field"], case["canary"])] if case["sub"] == "varlib-main" else []))


def ufo_case(acc, env, case):
    from vf import c20_text as T

    backend = T.force_bundled_fs()
    acc.label("text:ufo:backend:%s" % backend)
    sub = case["sub"]
    ufo_root = os.path.join(env.inp, "in.ufo")
    base_dir = os.path.join(ufo_root, "glyphs") if sub.startswith("contents") else ufo_root
    up = os.path.relpath(env.outside, base_dir)  # '../../../../outside' from inside the UFO
    cans = dict(env.exec_canaries() + [("trav-rel", "%s/%s_rel.glif" % (up, F.MARK)), ("trav-abs", os.path.join(env.outside, "%s_abs.glif" % F.MARK)), ("trav-dir", up), ("trav-deep", "x/../%s/%s_deep.glif" % (up, F.MARK)), ("trav-existing", "%s/existing.glif" % up), ("trav-existing-abs", os.path.join(env.outside, "existing.glif"))])
    v = cans[case["canary"]]
    env.clean(keep_in=False)
    os.makedirs(env.inp, exist_ok=True)
    from fontTools.ufoLib import UFOReader, UFOWriter
    from fontTools.ufoLib.glifLib import GlyphSet, readGlyphFromString, writeGlyphToString

    if sub == "glif-attr":
        sites = [x for x in F.scan_xml(T.GLIF_SRC.encode()) if not (x[0] == "text" and b"<" in T.GLIF_SRC.encode()[x[3] : x[4]])]
        if case["ordinal"] >= len(sites):
            return "not-applicable"
        _, path, attr, s, e = sites[case["ordinal"]]
        doc = F.substitute(T.GLIF_SRC.encode(), s, e, v).decode()
        root = T.make_ufo(env, extra_glif=doc)

        def fn():
            gs = UFOReader(root).getGlyphSet()
            g = T.GlyphObj()
            from fontTools.pens.recordingPen import RecordingPointPen

            pen = RecordingPointPen()
            gs.readGlyph("a", g, pen)
            out = UFOWriter(os.path.join(env.out, "out.ufo"))
            ogs = out.getGlyphSet()
            ogs.writeGlyph("a", g, pen.replay)
            ogs.writeContents()
            out.writeLayerContents()
            return {"read": "ok"}

        o = T.guarded(env, [env.work], fn)
    elif sub == "glyph-name":
        # hostile glyph name -> file name chosen by the writer
        root = T.make_ufo(env)

        def fn():
            out = UFOWriter(os.path.join(env.out, "out.ufo"))
            ogs = out.getGlyphSet()
            g = T.GlyphObj()
            g.width = 10
            ogs.writeGlyph(v, g)
            ogs.writeContents()
            out.writeLayerContents()
            names = os.listdir(os.path.join(env.out, "out.ufo", "glyphs"))
            return {"files": sorted(names)}

        o = T.guarded(env, [env.out], fn)
    elif sub == "contents-fileName":
        # contents.plist maps glyph 'a' to a hostile file name; re-writing glyph 'a' must stay inside glyphs/
        root = T.make_ufo(env, contents={"a": v, "b": "b.glif"})

        def fn():
            gs = GlyphSet(os.path.join(root, "glyphs"), validateRead=case.get("validate", True), validateWrite=True)
            g = T.GlyphObj()
            g.width = 10
            gs.writeGlyph("a", g)
            gs.writeContents()
            return {"write": "ok"}

        o = T.guarded(env, [root], fn)
    elif sub == "contents-delete":
        root = T.make_ufo(env, contents={"a": v, "b": "b.glif"})

        def fn():
            gs = GlyphSet(os.path.join(root, "glyphs"), validateRead=case.get("validate", True))
            gs.deleteGlyph("a")
            gs.writeContents()
            return {"delete": "ok"}

        o = T.guarded(env, [root], fn)
    elif sub == "layercontents-dir":
        root = T.make_ufo(env, layercontents=[("public.default", "glyphs"), ("evil", v)])

        def fn():
            w = UFOWriter(root, validate=case.get("validate", True))
            gs = w.getGlyphSet("evil", defaultLayer=False)
            g = T.GlyphObj()
            g.width = 10
            gs.writeGlyph("z", g)
            gs.writeContents()
            w.writeLayerContents()
            w.deleteGlyphSet("evil")
            w.writeLayerContents()
            return {"layer": "ok"}

        o = T.guarded(env, [root], fn)
    elif sub == "plist-value":
        from fontTools.misc import plistlib

        body = {
            "string": "<string>%s</string>",
            "key": "<dict><key>%s</key><integer>1</integer></dict>",
            "integer": "<integer>%s</integer>",
            "real": "<real>%s</real>",
            "date": "<date>%s</date>",
            "data": "<data>%s</data>",
        }[case["field"]] % F.xml_escape_attr(v)
        doc = T._plist(body).encode()

        def fn():
            val = plistlib.loads(doc)
            plistlib.dumps(val)
            return {"loads": "ok"}

        o = T.guarded(env, [env.work], fn)
    else:
        raise HarnessError("unknown ufo sub %r" % sub)
    nf = T.report(acc, "text:ufo", case, env, o)
    return "violation" if nf else ("ran:%s" % (type(o.exc).__name__ if o.exc is not None else "ok"))


def run_ufo_job(acc, job):
    from vf import c20_text as T

    with T.job_env() as env:
        for case in job["cases"]:
            out = ufo_case(acc, env, case)
            if out == "not-applicable":
                continue
            acc.case(case, nontrivial=(out != "ran:ok" or case["sub"] in ("glyph-name",)), labels=["text:%s" % case["sub"], "text:%s:outcome:%s" % (case["sub"], out)])


def text_jobs(tier, seed, rnd):
    from vf import c20_text as T

    thorough = tier == "thorough"
    J = []
    per = T.index_ttx_sites(depth=(2 if thorough else 1))
    n = 0
    for relfile in sorted(per):
        sites = per[relfile]
        size = len(T.ttx_source(relfile))
        chunk = max(1, min(40, int(400000 / max(size, 1))))
        for i in range(0, len(sites), chunk):
            n += 1
            J.append(dict(kind="ttx", name="ttx-%03d-%s-%d" % (n, os.path.basename(relfile.replace(":", "/")), i), file=relfile, sites=[[list(k), o] for k, o in sites[i : i + chunk]], canaries=("all" if thorough else "rotate")))
    # special TTX cases
    sp = []
    for f in ["ttx/data/TestTTF.ttx", "subset/data/google_color.ttx", "ttLib/tables/data/NotoColorEmoji.subset.index_format_3.ttx", "subset/data/sbix.ttx"]:
        for cn in ("trav-rel", "trav-abs", "trav-deep", "open-w"):
            sp.append(dict(space="text", sub="ttx-glyphname", file=f, canary=cn))
    for f in ["ttx/data/TestTTF.ttf", "ttx/data/TestOTF.otf"]:
        for o in range(16 if thorough else 5):
            for cn in ("trav-rel", "trav-abs", "open-w", "os.system"):
                sp.append(dict(space="text", sub="ttx-src", file=f, ordinal=o, canary=cn))
        for o in range(4):
            for mode in ("d", "o"):
                for cn in ("trav-rel", "trav-abs", "open-w"):
                    sp.append(dict(space="text", sub="ttx-cli", file=f, ordinal=o, canary=cn, mode=mode))
    for i in range(0, len(sp), 12):
        J.append(dict(kind="ttx-special", name="ttx-special-%d" % (i // 12), cases=sp[i : i + 12]))
    # fea
    import glob

    feas = sorted(os.path.relpath(p, TESTS) for p in glob.glob(os.path.join(TESTS, "**", "*.fea"), recursive=True) if os.path.getsize(p) < 60000)
    pick = feas if thorough else sorted(set(rnd.sample(feas, 40) + [f for f in feas if "/include" in f][:4] + [f for f in feas if f.endswith(("spec9f.fea", "name.fea"))]))
    for i in range(0, len(pick), 5):
        J.append(dict(kind="fea", name="fea-%d" % (i // 5), files=pick[i : i + 5], canaries=("all" if thorough else "rotate"), dedupe=not thorough))
    # designspace: parse/write with canaries in every distinct (element, attribute)
    dss = sorted(os.path.relpath(p, TESTS) for p in glob.glob(os.path.join(TESTS, "**", "*.designspace"), recursive=True))
    seen = set()
    cases = []
    for f in sorted(dss, key=lambda f: (os.path.getsize(os.path.join(TESTS, f)), f)):
        with open(os.path.join(TESTS, f), "rb") as fh:
            src = fh.read()
        try:
            sites = [x for x in F.scan_xml(src) if not (x[0] == "text" and b"<" in src[x[3] : x[4]])]
        except Exception:
            continue
        for i, (kind, path, attr, s, e) in enumerate(sites):
            k = (kind, path[-1], attr)
            if k in seen:
                continue
            seen.add(k)
            names = ["os.system", "open-w", "dunder", "ifexp"] if thorough else ["os.system", ["open-w", "dunder", "ifexp"][i % 3]]
            if attr in ("filename", "name", "path", "layer", "familyname", "stylename") or kind == "text":
                names += ["trav-rel", "trav-abs"]
            for cn in names:
                cases.append(dict(space="text", sub="ds-parse", file=f, ordinal=i, canary=cn))
    for i in range(0, len(cases), 40):
        J.append(dict(kind="designspace", name="ds-parse-%d" % (i // 40), cases=cases[i : i + 40]))
    vm = []
    for field in ("filename", "name"):
        for mode in ("output-dir", "default"):
            for cn in ("plain", "trav-rel", "trav-abs", "trav-deep", "trav-noext", "fmt", "open-w"):
                vm.append(dict(space="text", sub="varlib-main", field=field, mode=mode, canary=cn))
    for i in range(0, len(vm), 7):
        J.append(dict(kind="designspace", name="varlib-main-%d" % (i // 7), cases=vm[i : i + 7]))
    # UFO / GLIF / plist
    uc = []
    nglif = len(F.scan_xml(__import__("vf.c20_text", fromlist=["GLIF_SRC"]).GLIF_SRC.encode()))
    for o in range(nglif):
        for cn in (["os.system", "open-w", "dunder", "ifexp"] if thorough else ["os.system", ["open-w", "dunder", "ifexp"][o % 3]]) + ["trav-rel"]:
            uc.append(dict(space="text", sub="glif-attr", ordinal=o, canary=cn))
    for cn in ("trav-rel", "trav-abs", "trav-deep", "trav-dir", "trav-existing", "open-w", "os.system"):
        uc.append(dict(space="text", sub="glyph-name", canary=cn))
        for val in (True, False):
            uc.append(dict(space="text", sub="contents-fileName", canary=cn, validate=val))
            uc.append(dict(space="text", sub="contents-delete", canary=cn, validate=val))
            uc.append(dict(space="text", sub="layercontents-dir", canary=cn, validate=val))
    uc.append(dict(space="text", sub="contents-fileName", canary="trav-existing-abs", validate=True))
    uc.append(dict(space="text", sub="contents-delete", canary="trav-existing-abs", validate=True))
    for field in ("string", "key", "integer", "real", "date", "data"):
        for cn in ("os.system", "open-w", "dunder", "ifexp", "trav-abs"):
            uc.append(dict(space="text", sub="plist-value", field=field, canary=cn))
    for i in range(0, len(uc), 60):
        J.append(dict(kind="ufo", name="ufo-%d" % (i // 60), cases=uc[i : i + 60]))
    return J


# ---------------------------------------------------------------------------
# jobs


def jobs(tier, seed):
    J = []
    thorough = tier == "thorough"
    rnd = random.Random(subseed(seed, "files"))
    bins = [rel(p) for p in corpus_binaries()]
    aots = [b for b in bins if "/aots/" in b]
    rest = [b for b in bins if "/aots/" not in b]
    pick = aots if thorough else rnd.sample(aots, 10)
    small = 40000 if thorough else 3000
    stride = 7 if thorough else 97
    n = 0
    for b in rest + pick:
        data = read_file(b)
        kind = F.kind_of(data)
        if kind == "other":
            continue
        srcs = [dict(file=b, wrap=None)]
        if kind == "sfnt" and b in rest and (thorough or len(data) < 5000):
            for w in ("woff", "woff2", "ttc", "ttc2"):
                srcs.append(dict(file=b, wrap=w))
            if data[:4] != b"OTTO" and b"glyf" in data[:400]:
                srcs.append(dict(file=b, wrap="woff2t"))
        for src in srcs:
            w = src["wrap"]
            ckind = {None: kind, "woff": "woff", "woff2": "woff2", "woff2t": "woff2", "ttc": "ttc", "ttc2": "ttc"}[w]
            if not thorough and w and rnd.random() < 0.5:
                continue
            n += 1
            job = dict(kind="open", name="open-%03d-%s%s" % (n, os.path.basename(b), "+" + w if w else ""), src=src, ckind=ckind, tier=tier, small=small, stride=stride, phase=subseed(seed, "ph", b, w) % 97)
            if thorough and len(data) > 6000:
                # every truncation length of a 39 kB file is 117 000 opens: in slices of the fault list, so that no single job
                # runs for an hour while fifteen cores idle (the last slice is open-ended)
                los = list(range(0, len(data) + 1, 3000))
                for lo in los:
                    J.append(dict(job, name="%s[%d:]" % (job["name"], lo), lo=lo, hi=None if lo == los[-1] else lo + 3000))
            else:
                J.append(job)
    for i in range(8 if thorough else 2):
        J.append(dict(kind="garbage", name="garbage-%d" % i, n=(20000 if thorough else 1500), seed=subseed(seed, "garbage", i)))
    # -- fallback
    sf = [b for b in rest if F.kind_of(read_file(b)) == "sfnt" and (thorough or len(read_file(b)) < 40000)]
    sf += [b for b in (aots if thorough else rnd.sample(aots, 4))]
    for b in sf:
        big = len(read_file(b)) > 40000
        nfl = (120 if thorough else 10) if not big else 8
        if big:
            _, tabs = F.sfnt_tables(read_file(b))
            for t, _p in tabs:
                J.append(dict(kind="fallback", name="fallback-%s-%s" % (os.path.basename(b), t.decode("latin-1").strip()), file=b, nflips=nfl, tags=[t.decode("latin-1")], seed=subseed(seed, "fb", b, t)))
        else:
            J.append(dict(kind="fallback", name="fallback-%s" % os.path.basename(b), file=b, nflips=nfl, seed=subseed(seed, "fb", b)))
    # -- failsave
    fs_fonts = ["ttx/data/TestTTF.ttf", "ttx/data/TestOTF.otf", "ttLib/data/I.ttf", "ttLib/tables/data/NotoSans-VF-cubic.subset.ttf"]
    if thorough:
        fs_fonts = [b for b in rest if F.kind_of(read_file(b)) == "sfnt" and len(read_file(b)) < 40000] + rnd.sample(aots, 10)
    for b in fs_fonts:
        J.append(dict(kind="failsave", name="failsave-save-%s" % os.path.basename(b), api="TTFont.save", file=b, flavors=[None, "woff", "woff2"]))
    for b in fs_fonts[: (8 if thorough else 2)]:
        J.append(dict(kind="failsave", name="failsave-ttx-%s" % os.path.basename(b), api="ttx-o", file=b, flavors=[None, "woff"] if not thorough else [None, "woff", "woff2"]))
        J.append(dict(kind="failsave", name="failsave-subset-%s" % os.path.basename(b), api="subset.save_font", file=b, flavors=[None, "woff"]))
    for b in ["ttx/data/TestTTC.ttc", "ttx/data/TestTTCv2.ttc"]:
        J.append(dict(kind="failsave", name="failsave-ttc-%s" % os.path.basename(b), api="TTCollection.save", file=b))
    J.append(dict(kind="failsave", name="failsave-ttc-built", api="TTCollection.save", file="ttx/data/TestOTF.otf", wrap="ttc"))
    J.append(dict(kind="savexml-info", name="savexml-info", file="ttx/data/TestTTF.ttf"))
    J += text_jobs(tier, seed, rnd)
    return J


MUST_OCCUR = [
    # generator labels that must be hit in every run (vacuity guard)
    "open:sfnt:trunc", "open:sfnt:byte", "open:ttc:trunc", "open:ttc:byte", "open:woff:trunc", "open:woff:byte",
    "open:woff2:trunc", "open:woff2:byte", "open:garbage", "open:outcome:ttliberror", "open:outcome:opened:all-tables-equal-ref",
    "fallback:trunc", "fallback:flip", "fallback:outcome:fellback:resaved-identically",
    "failsave:TTFont.save:None", "failsave:TTFont.save:woff", "failsave:TTFont.save:woff2", "failsave:TTCollection.save:None",
    "failsave:ttx-o:None", "failsave:subset.save_font:None", "failsave:reorderTables=None", "failsave:reorderTables=False:pathlike", "text:ttx:attr", "text:ttx:text", "text:ttx:outcome:reached:safeEval-site",
    "text:ttx:outcome:reached:behaviour-changed", "text:ttx-src", "text:ttx-cli", "text:ttx-glyphname", "text:fea:include-arg", "text:fea:prepended-include",
    "text:fea:string", "text:ds-parse", "text:varlib-main", "text:varlib-main:outcome:built-inside", "text:glif-attr",
    "text:glyph-name", "text:contents-fileName", "text:layercontents-dir", "text:plist-value", "text:ufo:backend:bundled",
]  # fmt: skip


def finish(total, tier, seed):
    from vf import c20_text as T

    missing = [l for l in MUST_OCCUR if not total.labels.get(l)]
    static = T.safeeval_call_sites()
    hit = set(total.extra.get("safeeval_sites_hit", {}))
    unreached = sorted("%s:%d" % s for s in static if "%s:%d" % s not in hit)
    total.extra["safeeval_call_sites"] = {"static_total": len(static), "reached_with_canary": len(hit & set("%s:%d" % s for s in static)), "unreached": unreached}
    total.extra.pop("safeeval_frames_hit", None)
    total.extra["safeeval_sites_hit"] = {k: 1 for k in sorted(hit)}
    if missing:
        raise HarnessError("generator labels with zero hits: %s" % ", ".join(missing))
    need = 120 if tier == "quick" else 135
    if len(static) >= 150 and len(hit) < need:
        raise HarnessError("only %d of %d safeEval call sites were reached by a canary (need >= %d)" % (len(hit), len(static), need))


def _limit_memory():
    """A single bit flip in a count/range field can make a table parser allocate tens of gigabytes inside one
    C-level call (observed: cmap format 12 group spanning 2**30 code points: 20+ minutes, not interruptible).
    Cap the address space of the worker so that such cases end quickly with MemoryError (an ordinary
    exception, which the ignoreDecompileErrors fallback also catches)."""
    import resource

    soft, hard = resource.getrlimit(resource.RLIMIT_AS)
    want = 3 << 29  # 1.5 GB
    if soft == resource.RLIM_INFINITY or soft > want:
        try:
            resource.setrlimit(resource.RLIMIT_AS, (want, hard))
        except (ValueError, OSError):
            pass


def run_job(job):
    from vf.runner import bootstrap

    bootstrap()
    _limit_memory()
    acc = Acc()
    k = job["kind"]
    if k == "open":
        run_open_job(acc, job)
    elif k == "garbage":
        run_garbage_job(acc, job)
    elif k == "fallback":
        run_fallback_job(acc, job)
    elif k == "failsave":
        run_failsave_job(acc, job)
    elif k == "savexml-info":
        run_savexml_info_job(acc, job)
    elif k == "ttx":
        run_ttx_job(acc, job)
    elif k == "ttx-special":
        run_ttx_special_job(acc, job)
    elif k == "fea":
        run_fea_job(acc, job)
    elif k == "designspace":
        run_designspace_job(acc, job)
    elif k == "ufo":
        run_ufo_job(acc, job)
    else:
        raise HarnessError("unknown job kind %r" % k)
    return acc


def replay(case):
    from vf.runner import bootstrap

    bootstrap()
    _limit_memory()
    acc = Acc()
    sp = case["space"]
    if sp == "open":
        fault = tuple(case["fault"])
        if fault[0] == "raw":
            data = fault[1]
        else:
            data = apply_fault(container_bytes(case["src"]), fault)
        open_case(acc, case["ckind"], data, case["lazy"], case, baseline=(fault[0] == "none"))
    elif sp == "fallback":
        fallback_case(acc, case["file"], bytes(case["tag"]), tuple(case["fault"]), case, do_save_when_decoded=True)
    elif sp == "failsave":
        failsave_case(acc, case)
    elif sp == "text":
        from vf import c20_text as T

        sub = case["sub"]
        if sub == "ttx":
            text_replay_ttx(acc, case)
        else:
            with T.job_env() as env:
                if sub in ("ttx-glyphname", "ttx-src", "ttx-cli"):
                    ttx_special_case(acc, env, case)
                elif sub == "fea":
                    fea_case(acc, env, case)
                elif sub in ("ds-parse", "varlib-main"):
                    designspace_case(acc, env, case)
                else:
                    ufo_case(acc, env, case)
    else:
        raise HarnessError("unknown space %r" % sp)
    return acc.failures
