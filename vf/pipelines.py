"""C16 pipelines: the operations whose output must not depend on the process.

Used from two sides:
  * the parent (props/c16.py) calls enumerate_jobs() to list JSON job descriptors;
  * the child program (vf/c16_child.py) calls run_pipeline(job, tmpdir) which returns
    a TTFont ready to be saved (never bytes: the child saves twice).

Every path in a job descriptor is relative to <repo>/Tests; nothing here may depend
on the current directory, the locale, the time zone or the hash seed: those are the
variables of the experiment."""

import io
import os
import random

from .runner import TESTS, subseed

# glyph order of the mock font used by Tests/feaLib/builder_test.py (makeTTFont)
FEA_GLYPHS = (
    """
    .notdef space slash fraction semicolon period comma ampersand
    quotedblleft quotedblright quoteleft quoteright
    zero one two three four five six seven eight nine
    zero.oldstyle one.oldstyle two.oldstyle three.oldstyle
    four.oldstyle five.oldstyle six.oldstyle seven.oldstyle
    eight.oldstyle nine.oldstyle onequarter onehalf threequarters
    onesuperior twosuperior threesuperior ordfeminine ordmasculine
    A B C D E F G H I J K L M N O P Q R S T U V W X Y Z
    a b c d e f g h i j k l m n o p q r s t u v w x y z
    A.sc B.sc C.sc D.sc E.sc F.sc G.sc H.sc I.sc J.sc K.sc L.sc M.sc
    N.sc O.sc P.sc Q.sc R.sc S.sc T.sc U.sc V.sc W.sc X.sc Y.sc Z.sc
    A.alt1 A.alt2 A.alt3 B.alt1 B.alt2 B.alt3 C.alt1 C.alt2 C.alt3
    a.alt1 a.alt2 a.alt3 a.end b.alt c.mid d.alt d.mid
    e.begin e.mid e.end m.begin n.end s.end z.end
    Eng Eng.alt1 Eng.alt2 Eng.alt3
    A.swash B.swash C.swash D.swash E.swash F.swash G.swash H.swash
    I.swash J.swash K.swash L.swash M.swash N.swash O.swash P.swash
    Q.swash R.swash S.swash T.swash U.swash V.swash W.swash X.swash
    Y.swash Z.swash
    f_l c_h c_k c_s c_t f_f f_f_i f_f_l f_i o_f_f_i s_t f_i.begin
    a_n_d T_h T_h.swash germandbls ydieresis yacute breve
    grave acute dieresis macron circumflex cedilla umlaut ogonek caron
    damma hamza sukun kasratan lam_meem_jeem noon.final noon.initial
    by feature lookup sub table uni0327 uni0328 e.fina
    idotbelow idotless iogonek acutecomb brevecomb ogonekcomb dotbelowcomb
    """.split()
    + ["cid{:05d}".format(cid) for cid in range(800, 1001 + 1)]
)
FEA_VARFONT_AXES = [("wght", 200, 200, 1000, "Weight"), ("wdth", 100, 100, 200, "Width")]

LAYOUTISH = ("GSUB", "GPOS", "GDEF", "glyf", "CFF ", "CFF2", "gvar", "HVAR", "MVAR", "fvar", "STAT", "cmap", "COLR")


def tpath(rel):
    return os.path.join(TESTS, rel)


# ---------------------------------------------------------------------------
# loading helpers (child side)


def _load_fid(fid, lazy=None, **kw):
    """TTFont for a corpus id. bin ids are opened from the file bytes; ttx ids are
    compiled first (import + save) and re-opened, so that lazy modes apply."""
    from fontTools.ttLib import TTFont

    kind, rest = fid.split(":", 1)
    if kind == "gen":
        from . import corpus

        return TTFont(io.BytesIO(corpus.gen_bytes(fid)), lazy=lazy, **kw)
    if kind == "bin":
        num = int(rest.split("#")[1]) if "#" in rest else -1
        with open(tpath(rest.split("#")[0]), "rb") as fh:
            data = fh.read()
        return TTFont(io.BytesIO(data), lazy=lazy, fontNumber=num, **kw)
    f = TTFont(recalcBBoxes=False, recalcTimestamp=False)
    f.importXML(tpath(rest))
    buf = io.BytesIO()
    f.save(buf)
    return TTFont(io.BytesIO(buf.getvalue()), lazy=lazy, **kw)


def touch_tables(font, touch, order_seed):
    """Decompile the tables named in `touch` ("all" or a list) in an order drawn from
    order_seed (None = sorted order). Returns the order used."""
    tags = [t for t in font.keys() if t != "GlyphOrder"]
    if touch != "all":
        tags = [t for t in tags if t in touch]
    tags = sorted(tags)
    if order_seed is not None:
        random.Random(order_seed).shuffle(tags)
    for tag in tags:
        t = font[tag]
        if hasattr(t, "ensureDecompiled"):
            t.ensureDecompiled(recurse=True)
    return tags


# ---------------------------------------------------------------------------
# the pipelines. Each returns (TTFont, save_kwargs)


def p_recompile(job, tmpdir):
    f = _load_fid(job["fid"], lazy=job.get("lazy"), recalcTimestamp=job.get("recalcTimestamp", True), recalcBBoxes=job.get("recalcBBoxes", True))
    touch_tables(f, job.get("touch", "all"), job.get("order_seed"))
    if job.get("flavor"):
        f.flavor = job["flavor"]
    return f, {}


def p_ttx(job, tmpdir):
    from fontTools.ttLib import TTFont

    f = TTFont(recalcTimestamp=job.get("recalcTimestamp", True), recalcBBoxes=job.get("recalcBBoxes", True))
    f.importXML(tpath(job["fid"].split(":", 1)[1]))
    return f, {}


def fea_font(name):
    from fontTools.fontBuilder import addFvar
    from fontTools.ttLib import TTFont, newTable

    font = TTFont()
    font.setGlyphOrder(list(FEA_GLYPHS))
    if os.path.basename(name).startswith("variable_"):
        font["name"] = newTable("name")
        addFvar(font, FEA_VARFONT_AXES, [])
        del font["name"]
    return font


def p_fea(job, tmpdir):
    from fontTools.feaLib.builder import addOpenTypeFeatures

    font = fea_font(job["fea"])
    addOpenTypeFeatures(font, tpath(job["fea"]), debug=bool(job.get("debug")))
    return font, {}


SUBSET_OPTIONS = {
    "default": {},
    "rich": dict(
        layout_features=["*"],
        name_IDs=["*"],
        name_languages=["*"],
        notdef_outline=True,
        glyph_names=True,
        legacy_kern=True,
        symbol_cmap=True,
        legacy_cmap=True,
        hinting=True,
        recalc_timestamp=True,
        prune_unicode_ranges=True,
    ),
    "lean": dict(hinting=False, desubroutinize=True, retain_gids=True, layout_features=["*"], notdef_glyph=True, recalc_bounds=True),
    "closure": dict(layout_closure=True, layout_features=["*"], layout_scripts=["*"], glyph_names=False, passthrough_tables=True, name_legacy=True),
}


def p_subset(job, tmpdir):
    from fontTools import subset

    opts = subset.Options(**SUBSET_OPTIONS[job["opts"]])
    f = _load_fid(job["fid"], lazy=job.get("lazy"), recalcBBoxes=opts.recalc_bounds, recalcTimestamp=opts.recalc_timestamp)
    touch_tables(f, job.get("touch", []), job.get("order_seed"))
    cps = sorted(f.getBestCmap() or {}) if "cmap" in f else []
    order = f.getGlyphOrder()
    k, off = job["stride"], job["offset"]
    unicodes = cps[off::k]
    glyphs = order[1 + off :: 2 * k + 1][:40]
    s = subset.Subsetter(opts)
    s.populate(unicodes=unicodes, glyphs=glyphs)
    s.subset(f)
    return f, dict(reorderTables=opts.canonical_order)


def instancer_limits(font, mode):
    axes = font["fvar"].axes
    lim = {}
    for i, a in enumerate(axes):
        lo, d, hi = a.minValue, a.defaultValue, a.maxValue
        if mode == "pin0":
            if i == 0:
                lim[a.axisTag] = None
        elif mode == "pinall-min":
            lim[a.axisTag] = lo
        elif mode == "mid":
            lim[a.axisTag] = (lo + d) / 2 if lo < d else (d + hi) / 2
        elif mode == "range":
            if i == 0:
                lim[a.axisTag] = (lo, d) if lo < d else (d, (d + hi) / 2)
        elif mode == "pin-last-max":
            if i == len(axes) - 1:
                lim[a.axisTag] = hi
        else:
            raise ValueError(mode)
    return lim


def p_instance(job, tmpdir):
    from fontTools.varLib import instancer

    f = _load_fid(job["fid"], lazy=job.get("lazy"))
    touch_tables(f, job.get("touch", []), job.get("order_seed"))
    lim = instancer_limits(f, job["mode"])
    out = instancer.instantiateVariableFont(f, lim, inplace=True, optimize=job.get("optimize", True), updateFontNames=bool(job.get("names")))
    return out, {}


def master_index():
    """stem -> {dir: path} for every .ttx below Tests/varLib/data/master_*"""
    base = tpath("varLib/data")
    idx = {}
    for d in sorted(os.listdir(base)):
        p = os.path.join(base, d)
        if not (os.path.isdir(p) and d.startswith("master_")):
            continue
        for fn in sorted(os.listdir(p)):
            if fn.endswith(".ttx"):
                idx.setdefault(fn[:-4], {})[d] = os.path.join(p, fn)
    return idx


def p_varbuild(job, tmpdir):
    from fontTools import varLib

    idx = master_index()
    mdir = job["masters"]

    def finder(s):
        stem = os.path.splitext(os.path.basename(s))[0]
        return idx.get(stem, {}).get(mdir, s)

    vf, _, _ = varLib.build(tpath(job["ds"]), finder, optimize=job.get("optimize", True))
    return vf, {}


def p_merge(job, tmpdir):
    from fontTools import merge
    from fontTools.ttLib import TTFont

    paths = []
    for i, fid in enumerate(job["fids"]):
        kind, rest = fid.split(":", 1)
        if kind == "bin":
            paths.append(tpath(rest))
        else:
            f = TTFont(recalcBBoxes=False, recalcTimestamp=False)
            f.importXML(tpath(rest))
            p = os.path.join(tmpdir, "%s-m%d.%s" % (job["name"].replace("/", "_").replace(":", "_")[-60:], i, "otf" if "CFF " in f else "ttf"))
            f.save(p)
            paths.append(p)
    m = merge.Merger(options=merge.Options(**job.get("opts", {})))
    out = m.merge(paths)
    return out, {}


def p_genbuild(job, tmpdir):
    """varLib.build of a generated designspace (vf.gen_designspace spec carried by the job)."""
    import contextlib

    from fontTools import varLib

    from . import gen_designspace as G
    from .runner import from_jsonable

    spec = from_jsonable(job["spec"])
    exp = G.expand(spec)
    fonts = [G.build_master(spec, exp, mi)[0] for mi in range(len(spec["masters"]))]
    doc = G.build_document(spec, fonts)
    with contextlib.redirect_stdout(io.StringIO()):
        vf, _, _ = varLib.build(doc, optimize=spec["optimize"])
    return vf, {}


def p_genfea(job, tmpdir):
    """feaLib compilation of a generated feature program (vf.gen_fea) onto its skeleton font."""
    from fontTools.feaLib.builder import addOpenTypeFeaturesFromString

    from . import gen_fea

    from fontTools.ttLib import TTFont

    font = TTFont(io.BytesIO(gen_fea.skeleton_bytes()), recalcTimestamp=False)
    addOpenTypeFeaturesFromString(font, job["text"])
    return font, {}


PIPES = dict(recompile=p_recompile, ttx=p_ttx, fea=p_fea, subset=p_subset, instance=p_instance, varbuild=p_varbuild, merge=p_merge, genbuild=p_genbuild, genfea=p_genfea)


def run_pipeline(job, tmpdir):
    if job.get("gen_specs"):
        # generated corpus fonts are specified by the parent (generation must not depend on this process)
        from . import corpus
        from .runner import from_jsonable

        for fid, spec in job["gen_specs"].items():
            corpus.register_generated(fid, from_jsonable(spec))
    return PIPES[job["pipe"]](job, tmpdir)


# ---------------------------------------------------------------------------
# job enumeration (parent side)


def designspace_candidates():
    """(designspace relpath, master dir) pairs for which every source resolves to a TTX."""
    from fontTools.designspaceLib import DesignSpaceDocument

    idx = master_index()
    base = tpath("varLib/data")
    out = []
    for fn in sorted(os.listdir(base)):
        if not fn.endswith(".designspace"):
            continue
        try:
            ds = DesignSpaceDocument.fromfile(os.path.join(base, fn))
        except Exception:
            continue
        stems = [os.path.splitext(os.path.basename(s.filename or s.path or ""))[0] for s in ds.sources]
        if not stems:
            continue
        dirs = None
        for st in stems:
            here = set(idx.get(st, {}))
            dirs = here if dirs is None else dirs & here
        for d in sorted(dirs or ()):
            out.append(("varLib/data/" + fn, d))
    return out


def _pick(items, k, rnd, must=()):
    items = list(items)
    must = [m for m in must if m in items]
    rest = [i for i in items if i not in must]
    k = max(0, k - len(must))
    if k >= len(rest):
        return must + rest
    chosen = set(map(items.index, rnd.sample(rest, k)))
    return must + [x for i, x in enumerate(items) if i in chosen and x not in must]


def enumerate_jobs(tier, seed):
    """The list of pipeline jobs (without the per-child variables lazy/order_seed)."""
    from . import corpus

    thorough = tier == "thorough"
    rnd = random.Random(subseed(seed, "c16-enum"))
    J = []
    fonts = corpus.fonts()
    bins = [e for e in fonts if e["id"].startswith("bin:") and e["size"] < 400000]
    ttxs = [e for e in fonts if e["id"].startswith("ttx:")]

    # -- recompile
    aots = [e for e in bins if "/aots/" in e["id"]]
    other = [e for e in bins if "/aots/" not in e["id"]]
    sel = other + _pick(aots, len(aots) if thorough else 24, rnd)
    if not thorough:
        sel = _pick(sel, 64, rnd)
    for e in sel:
        tags = e["tables"]
        r = rnd.random()
        touch = "all" if r < 0.55 else sorted(rnd.sample(tags, rnd.randrange(1, max(2, len(tags)))))
        J.append(dict(pipe="recompile", name="recompile:" + e["id"], fid=e["id"], touch=touch, recalcTimestamp=rnd.random() < 0.6, recalcBBoxes=rnd.random() < 0.7, flavor=rnd.choice([None, None, None, "woff"]), cost=e["size"]))
    # ttx-compiled fonts re-opened lazily and recompiled (covers CFF2 / variable / bitmap tables rare among the binaries)
    for e in _pick(ttxs, len(ttxs) if thorough else 16, rnd):
        J.append(dict(pipe="recompile", name="recompile:" + e["id"], fid=e["id"], touch="all", recalcTimestamp=rnd.random() < 0.5, recalcBBoxes=rnd.random() < 0.7, cost=2 * e["size"]))

    # generated fonts (table shapes the test data lacks), reopened lazily and recompiled
    gens = [e for e in fonts if e["id"].startswith("gen:")]
    pinned = [e for e in gens if corpus.gen_spec(e["id"]).get("pinned")]  # the fonts every run has (gen_font.pinned_specs)
    for e in _pick(gens, len(gens) if thorough else 20, rnd, must=pinned):
        J.append(dict(pipe="recompile", name="recompile:" + e["id"], fid=e["id"], touch="all", recalcTimestamp=rnd.random() < 0.5, recalcBBoxes=rnd.random() < 0.7, flavor=rnd.choice([None, None, "woff"]), cost=2 * e["size"]))

    # -- TTX import
    cff2 = [e["id"] for e in ttxs if "CFF2" in e["tables"]]
    ids = [e["id"] for e in ttxs]
    must = _pick(cff2, 3, rnd)
    for fid in _pick(ids, len(ids) if thorough else 48, rnd, must=must):
        e = corpus.entry(fid)
        J.append(dict(pipe="ttx", name="ttx:" + fid, fid=fid, recalcTimestamp=rnd.random() < 0.6, recalcBBoxes=rnd.random() < 0.7, cost=3 * e["size"]))

    # -- feature compilation
    feas = [os.path.relpath(p, TESTS) for p in corpus.fea_files()]
    # always present: the few feature files that touch the environment (non-ASCII text -> locale
    # encoding; include statements -> path resolution / cwd)
    env_sensitive = []
    for rel in feas:
        with open(tpath(rel), "rb") as fh:
            b = fh.read()
        if b"include(" in b or any(c > 127 for c in b):
            env_sensitive.append(rel)
    for rel in _pick(feas, len(feas) if thorough else 56, rnd, must=env_sensitive):
        J.append(dict(pipe="fea", name="fea:" + rel, fea=rel, debug=rnd.random() < 0.15, cost=20000))

    # -- subsetting
    cands = [e for e in fonts if e["size"] < 400000 and "cmap" in e["tables"] and "/aots/" not in e["id"]]
    for e in _pick(cands, len(cands) if thorough else 30, rnd):
        for o in (sorted(SUBSET_OPTIONS) if thorough else [rnd.choice(sorted(SUBSET_OPTIONS))]):
            tags = e["tables"]
            J.append(
                dict(pipe="subset", name="subset:%s:%s" % (o, e["id"]), fid=e["id"], opts=o, stride=rnd.choice([1, 2, 3, 5]), offset=rnd.randrange(0, 3), touch=sorted(rnd.sample(tags, rnd.randrange(0, min(5, len(tags))))), cost=3 * e["size"])
            )

    # -- instancing
    var = [e for e in fonts if e["variable"]]
    modes = ["pin0", "pinall-min", "mid", "range", "pin-last-max"]
    for e in _pick(var, len(var) if thorough else 24, rnd):
        for m in (modes if thorough else [rnd.choice(modes)]):
            tags = e["tables"]
            J.append(
                dict(pipe="instance", name="instance:%s:%s" % (m, e["id"]), fid=e["id"], mode=m, optimize=rnd.random() < 0.7, names=False, touch=sorted(rnd.sample(tags, rnd.randrange(0, min(5, len(tags))))), cost=4 * e["size"])
            )

    # -- variable font build
    for ds, d in designspace_candidates():
        J.append(dict(pipe="varbuild", name="varbuild:%s:%s" % (ds, d), ds=ds, masters=d, optimize=True, cost=120000))

    # -- generated designspaces (vf.gen_designspace, the C10 generator) and generated feature programs (vf.gen_fea, C11)
    import hypothesis
    from hypothesis import given

    from . import gen_designspace, gen_fea
    from .runner import hyp_settings, to_jsonable

    specs = []

    @hypothesis.seed(subseed(seed, "c16-genbuild"))
    @hyp_settings(240 if thorough else 48)
    @given(gen_designspace.specs(max_masters=5))
    def draw_specs(spec):
        specs.append(spec)

    draw_specs()
    for i, spec in enumerate(specs):
        J.append(dict(pipe="genbuild", name="genbuild:%d" % i, spec=to_jsonable(spec), cost=150000))
    for i in range(300 if thorough else 40):
        ps = subseed(seed, "c16-genfea", i)
        try:
            text = gen_fea.print_program(gen_fea.gen_program(ps))
        except Exception:
            continue
        J.append(dict(pipe="genfea", name="genfea:%d" % i, text=text, cost=30000))

    # -- merging
    J.append(dict(pipe="merge", name="merge:CFFFont1+2", fids=["ttx:merge/data/CFFFont1.ttx", "ttx:merge/data/CFFFont2.ttx"], cost=300000))
    tt = [e for e in fonts if "glyf" in e["tables"] and not e["variable"] and e["size"] < 60000 and "/aots/" not in e["id"] and "#" not in e["id"] and e.get("flavor") is None and e["id"].startswith("bin:")]
    by_upem = {}
    for e in tt:
        by_upem.setdefault(e["upem"], []).append(e["id"])
    pairs = []
    for upem, lst in sorted(by_upem.items()):
        for i in range(len(lst)):
            for j in range(len(lst)):
                if i != j:
                    pairs.append((lst[i], lst[j]))
    for a, b in _pick(pairs, 60 if thorough else 14, rnd):
        J.append(dict(pipe="merge", name="merge:%s+%s" % (a, b), fids=[a, b], cost=100000))
    names = set()
    for j in J:
        assert j["name"] not in names, j["name"]
        names.add(j["name"])
        gfids = [f for f in ([j.get("fid")] + list(j.get("fids", []))) if f and f.startswith("gen:")]
        if gfids:
            j["gen_specs"] = {f: to_jsonable(corpus.gen_spec(f)) for f in gfids}
    return J
