"""C16 part (b): histories of save / saveXML / table access / compile / edit on a font A,
compared with a twin B that only ever receives the edits.

A history is JSON: {"part": "b", "init": {...}, "steps": [step, ...]}; History.apply() executes one
step, so the Hypothesis machine (run_machine) and replay (replay_history) share all code."""

import io
import os
import random

from . import corpus
from .runner import Acc, HarnessError, TESTS, fingerprint, hyp_settings, innermost_frame, scratch_dir, subseed

OUTLINE_OR_LAYOUT = ("GSUB", "GPOS", "GDEF", "glyf", "CFF ", "CFF2", "gvar", "HVAR", "COLR", "CBDT", "sbix", "SVG ")

# ---------------------------------------------------------------------------
# font choice


def choose_fonts(seed, k):
    """k (font id, source) pairs: small corpus fonts covering TrueType, CFF, CFF2, variable,
    layout-rich, colour/bitmap; source 'bytes' (canonicalised binary) or 'xml' (TTX import)."""
    rnd = random.Random(subseed(seed, "c16-fonts"))
    F = [e for e in corpus.fonts() if e["size"] < 40000 and "#" not in e["id"] and {"head", "maxp", "hmtx", "hhea", "cmap", "name"} <= set(e["tables"])]
    noaots = [e for e in F if "/aots/" not in e["id"]]

    def has(*tags):
        return lambda e: all(t in e["tables"] for t in tags)

    classes = [
        ("tt", lambda e: "glyf" in e["tables"] and not e["variable"]),
        ("cff", has("CFF ")),
        ("cff2", has("CFF2")),
        ("var-glyf", lambda e: e["variable"] and "gvar" in e["tables"]),
        ("layout", has("GSUB", "GPOS", "GDEF")),
        ("colour", lambda e: bool({"COLR", "CBDT", "sbix", "SVG ", "EBDT"} & set(e["tables"]))),
        ("hinted", lambda e: bool({"fpgm", "prep", "cvt "} & set(e["tables"]))),
        ("aots", lambda e: "/aots/" in e["id"]),
        ("generated", lambda e: bool(e.get("generated"))),
        ("generated-bitmap", lambda e: bool(e.get("generated")) and "EBDT" in e["tables"]),
        ("generated-os2", lambda e: bool(e.get("generated")) and "kern" in e["tables"]),
    ]
    out = []
    seen = set()
    ci = 0
    guard = 0
    while len(out) < k and guard < 10 * k:
        guard += 1
        cname, pred = classes[ci % len(classes)]
        ci += 1
        pool = [e for e in (F if cname == "aots" else noaots) if pred(e) and e["id"] not in seen]
        if not pool:
            continue
        e = rnd.choice(pool)
        seen.add(e["id"])
        src = "bytes"
        # TTX-imported CFF2 fonts are left to part (a): their second save differs (known charset finding),
        # which would end every history of such a font at its first comparison
        if e["id"].startswith("ttx:") and "CFF2" not in e["tables"] and rnd.random() < 0.35:
            src = "xml"
        out.append((e["id"], src))
    return out


# ---------------------------------------------------------------------------
# fonts

_CANON = {}


def canonical_bytes(fid):
    """Full decompile + save of the corpus font (fixed point of recompilation, property C01):
    the starting point of every bytes-sourced history."""
    if fid not in _CANON:
        from fontTools.ttLib import TTFont

        data = corpus.sfnt_bytes(fid)
        for _ in range(2):
            f = TTFont(io.BytesIO(data), lazy=False, recalcBBoxes=True, recalcTimestamp=False)
            for tag in f.keys():
                if tag != "GlyphOrder":
                    t = f[tag]
                    if hasattr(t, "ensureDecompiled"):
                        t.ensureDecompiled(recurse=True)
            f.flavor = None
            buf = io.BytesIO()
            f.save(buf)
            data = buf.getvalue()
        _CANON[fid] = data
    return _CANON[fid]


def make_font(init, lazy):
    from fontTools.ttLib import TTFont

    kw = dict(recalcBBoxes=init["recalcBBoxes"], recalcTimestamp=init["recalcTimestamp"])
    if init["src"] == "xml":
        f = TTFont(**kw)
        f.importXML(corpus.path_of(init["fid"]))
        return f
    return TTFont(io.BytesIO(canonical_bytes(init["fid"])), lazy=lazy, **kw)


def font_info(fid):
    e = corpus.entry(fid)
    from fontTools.ttLib import TTFont

    f = TTFont(io.BytesIO(canonical_bytes(fid)), lazy=True)
    return dict(tags=[t for t in f.keys() if t != "GlyphOrder"], glyphs=f.getGlyphOrder(), entry=e)


# ---------------------------------------------------------------------------
# steps


def apply_edit(f, s):
    """The semantic edits; applied identically to A and to every twin."""
    k = s["kind"]
    if k == "name":
        f["name"].setName(s["text"], s["nameID"], 3, 1, 0x409)
    elif k == "hmtx":
        adv, lsb = f["hmtx"][s["glyph"]]
        f["hmtx"][s["glyph"]] = (s["adv"], lsb)
    elif k == "kern":
        if "kern" not in f:
            from fontTools.ttLib import newTable
            from fontTools.ttLib.tables._k_e_r_n import KernTable_format_0

            t = newTable("kern")
            t.version = 0
            sub = KernTable_format_0(apple=False)
            sub.coverage = 1
            sub.tupleIndex = None
            sub.kernTable = {}
            t.kernTables = [sub]
            f["kern"] = t
        sub = f["kern"].getkern(0)
        if sub is not None:
            sub.kernTable[(s["l"], s["r"])] = s["v"]
    elif k == "cmap":
        for t in f["cmap"].tables:
            if t.isUnicode() and t.format in (4, 12):
                t.cmap[s["cp"]] = s["glyph"]
    elif k == "os2":
        setattr(f["OS/2"], s["field"], s["v"])
    elif k == "glyfscale":
        # a fractional transformation of one outline: leaves non-integer coordinates in memory (the compiler rounds a copy)
        if "glyf" in f:
            g = f["glyf"][s["glyph"]]
            if g.numberOfContours > 0:
                g.coordinates.scale((s["k"], s["k"]))
    else:
        raise HarnessError("unknown edit %r" % (s,))


def _save(f, flavor=None, reorder=True):
    old = f.flavor
    f.flavor = flavor
    try:
        buf = io.BytesIO()
        f.save(buf, reorderTables=reorder)
        return buf.getvalue()
    finally:
        f.flavor = old


def apply_op(f, s):
    """The operations that the property says are unobservable (plus table access)."""
    op = s["op"]
    if op == "save":
        _save(f, s["flavor"], s["reorder"])
    elif op == "xml":
        o = dict(s["opts"])
        nl = o.pop("newlinestr", "\n")
        if o.get("splitTables") or o.get("splitGlyphs") or o.get("bitmapGlyphDataFormat") == "extfile":
            with scratch_dir("c16x") as d:
                f.saveXML(os.path.join(d, "dump.ttx"), newlinestr=nl, **o)
        else:
            f.saveXML(io.BytesIO(), newlinestr=nl, **o)
    elif op == "data":
        f.getTableData(s["tag"])
    elif op == "get":
        f[s["tag"]]
    elif op == "compile":
        f[s["tag"]].compile(f)
    elif op == "ensure":
        f.ensureDecompiled(recurse=s["recurse"])
    else:
        raise HarnessError("unknown op %r" % (s,))


import re

_TOP = re.compile(rb"^  <([A-Za-z_][A-Za-z_0-9]*)[ >]")


_MASKS = [
    # recalculated by compile() by design (same list as property C01, plus the metrics count and the time stamp)
    re.compile(rb'<checkSumAdjustment value="[^"]*"/>'),
    re.compile(rb'<us(First|Last)CharIndex value="[^"]*"/>'),
    re.compile(rb"<extraNames>.*?</extraNames>", re.S),
    re.compile(rb'<(xMin|yMin|xMax|yMax|advanceWidthMax|minLeftSideBearing|minRightSideBearing|xMaxExtent|advanceHeightMax|minTopSideBearing|minBottomSideBearing|yMaxExtent|maxPoints|maxContours|maxCompositePoints|maxCompositeContours|maxComponentElements|maxComponentDepth|numberOfHMetrics|numberOfVMetrics|modified|indexToLocFormat) value="[^"]*"/>'),
    re.compile(rb' (xMin|yMin|xMax|yMax)="[^"]*"'),
    re.compile(rb'<FontBBox value="[^"]*"/>'),
]

# head.flags bit 1 ("left sidebearing point at x=0") is recalculated by maxp.recalc() from glyf and hmtx when
# recalcBBoxes is on: the dump prints the flags as two groups of eight binary digits, bit 1 is the 15th digit
_HEAD_FLAGS = re.compile(rb'(<flags value="[01]{8} [01]{6})[01]([01]"/>)')


# computed fields (otConverters.ComputedInt: counts, struct lengths) are dumped as a comment line
# '<!-- XCount=n -->' when set; compile() recomputes them and some preWrite()s reset them on the object
# (e.g. COLR.preWrite sets LayerRecordCount = None), so they are derived data, not content
_COMPUTED = re.compile(rb"^[ \t]*<!-- \w+=-?\d+ -->[ \t]*\r?\n", re.M)


def _mask(xml):
    for r in _MASKS:
        xml = r.sub(b"<masked/>", xml)
    xml = _HEAD_FLAGS.sub(rb"\1x\2", xml)
    return _COMPUTED.sub(b"", xml)


def _dump(f):
    buf = io.BytesIO()
    f.saveXML(buf)
    return buf.getvalue()


def _tables_of(data):
    from fontTools.ttLib import TTFont

    r = TTFont(io.BytesIO(data), lazy=True)
    if r.flavor == "woff2":
        return {t: r.reader[t] for t in r.reader.keys()}
    return {t: r.reader[t] for t in r.reader.keys()}


def _diff(d1, d2):
    try:
        a, b = _tables_of(d1), _tables_of(d2)
    except Exception as e:
        return ["?"], "outputs do not parse: %r" % e
    tags = [t for t in sorted(set(a) | set(b)) if a.get(t) != b.get(t)]
    if not tags:
        return ["container"], "all tables equal, container bytes differ (%d vs %d bytes)" % (len(d1), len(d2))
    parts = []
    for t in tags[:4]:
        x, y = a.get(t), b.get(t)
        if x is None or y is None:
            parts.append("%r only in %s" % (t, "first" if y is None else "second"))
        else:
            i = next((i for i, (p, q) in enumerate(zip(x, y)) if p != q), min(len(x), len(y)))
            parts.append("%r: %d vs %d bytes (%+d), first difference at byte %d" % (t, len(x), len(y), len(y) - len(x), i))
    return tags, "; ".join(parts)


def _first_tag(tags):
    rest = [t for t in tags if t != "head"]
    return (rest + ["head"])[0].strip()


class History:
    def __init__(self, init, acc):
        self.init = init
        self.acc = acc
        self.steps = []
        self.dead = False
        self.failed = False
        self.unobs = 0  # saves / dumps / compiles executed on A so far (excluding comparison saves)
        self.checked_after_unobs = False
        self.nchecks = 0
        self.A = make_font(init, init["lazyA"])

    def case(self):
        return dict(part="b", init=self.init, steps=list(self.steps))

    def twin(self, mirror=None):
        b = make_font(self.init, self.init["lazyB"])
        for s in self.steps:
            if s["op"] == "edit":
                apply_edit(b, s)
        if mirror:
            for tag in mirror:
                if tag != "GlyphOrder" and tag in b:
                    b[tag]
        return b

    def _fail(self, clause, kind, detail, where=""):
        self.acc.fail(clause, kind, detail, self.case(), where)
        self.failed = True
        self.dead = True

    def apply(self, step):
        """Execute one step on A (edits are replayed on the twins later). Never raises for
        code-under-test exceptions: records and ends the history."""
        if self.dead:
            return
        self.steps.append(step)
        op = step["op"]
        try:
            if op == "edit":
                apply_edit(self.A, step)
            elif op == "check":
                pass
            else:
                apply_op(self.A, step)
        except HarnessError:
            raise
        except Exception as e:
            self._op_raised(step, e)
            return
        self.acc.label("b:op:%s" % op)
        if op == "edit":
            self.acc.label("b:edit:%s" % step["kind"])
        if op in ("save", "xml", "compile") or (op == "data"):
            self.unobs += 1
        if step.get("check") or op == "check":
            self.check()

    def _op_raised(self, step, e):
        # does the same operation raise on a font that never saw a save / dump?
        prior = self.steps[:-1]
        try:
            b = make_font(self.init, self.init["lazyB"])
            for s in prior:
                if s["op"] == "edit":
                    apply_edit(b, s)
                elif s["op"] in ("get", "ensure"):
                    apply_op(b, s)
            if step["op"] == "edit":
                apply_edit(b, step)
            else:
                apply_op(b, step)
        except HarnessError:
            raise
        except Exception as e2:
            if type(e2) is type(e):
                key = "operation-raises-also-without-prior-saves:%s:%s" % (step["op"], type(e).__name__)
                self.acc.exclude(key)
                self.acc.extra.setdefault("b_raising_operations", {})[key] = "%s: %s | %s | %s" % (self.init["fid"], step, str(e)[:120], innermost_frame(e))
                self.dead = True
                return
        self.acc.fail("later-operations", "raises-only-after-saves:%s:%s" % (step["op"], type(e).__name__), "step %r raised %s: %s on A but not on a twin with the same edits and table accesses and no saves" % (step, type(e).__name__, str(e)[:200]), self.case(), innermost_frame(e))
        self.failed = True
        self.dead = True

    def check(self):
        """save(A) twice, save(twin): all three byte-identical."""
        if self.dead:
            return
        fl = self.init.get("cmp_flavor")
        self.nchecks += 1
        try:
            loaded0 = set(self.A.tables)
            a1 = _save(self.A, fl)
            loaded1 = set(self.A.tables)
            a2 = _save(self.A, fl)
        except Exception as e:
            self._save_raised(e, loaded0)
            return
        x, y = a1, a2
        if a1 != a2 and loaded1 != loaded0:
            # only possible when the starting bytes are not canonical for a table the save itself decompiles
            try:
                a3 = _save(self.A, fl)
            except Exception as e:
                self._save_raised(e, loaded0)
                return
            tags, _ = _diff(a1, a2)
            new = {t for t in loaded1 - loaded0}
            if all(t in new or t in ("head", "hhea", "vhea", "maxp", "loca", "OS/2") for t in tags):
                self.acc.exclude("b:second-save-compared-from-2nd:save-decompiled-a-passed-through-table")
                x, y = a2, a3
        if x != y:
            tags, d = _diff(x, y)
            self._fail("second-save", "second-save-differs:%s" % _first_tag(tags), "two consecutive saves of the same font object differ: %s" % d)
            return
        try:
            b = _save(self.twin(), fl)
        except Exception as e:
            self._fail("twin", "twin-save-raises:%s" % type(e).__name__, "save(A) succeeded but the edits-only twin raised %s: %s" % (type(e).__name__, str(e)[:200]), innermost_frame(e))
            return
        if a1 != b:
            try:
                b2 = _save(self.twin(mirror=list(loaded0)), fl)
            except Exception as e:
                self._fail("twin", "twin-save-raises:%s" % type(e).__name__, "mirrored twin raised %s: %s" % (type(e).__name__, str(e)[:200]), innermost_frame(e))
                return
            if a1 == b2:
                tags, d = _diff(a1, b)
                self.acc.exclude("b:differs-from-edits-only-twin-by-loaded-set:%s" % _first_tag(tags))
            else:
                tags, d = _diff(b2, a1)
                self._fail("twin", "save-observable:%s" % _first_tag(tags), "save(twin with the same edits and the same tables decompiled, never saved) vs save(A) after %d saves/dumps/compiles: %s" % (self.unobs, d))
                return
        if self.unobs:
            self.checked_after_unobs = True
        return True

    def compare_dumps(self):
        """Object model: the TTX dump of A (saved, dumped, compiled many times) equals the dump of a
        twin with the same edits and the same tables decompiled that was never saved, apart from the
        fields the library documents it recalculates when compiling (masked, see ASSUMPTIONS)."""
        loaded = [t for t in self.A.tables]
        try:
            b = self.twin(mirror=loaded)
            if b.isLoaded("name"):
                b["name"].names.sort()  # name.compile sorts the records in place ("sort according to the spec")
            xb = _mask(_dump(b))
        except Exception as e:
            self.acc.exclude("b:twin-dump-raises:%s" % type(e).__name__)
            return
        try:
            xa = _mask(_dump(self.A))
        except Exception as e:
            self._fail("later-operations", "dump-raises-only-after-history:%s" % type(e).__name__, "saveXML(A) raised %s: %s; the twin dumps fine" % (type(e).__name__, str(e)[:200]), innermost_frame(e))
            return
        self.acc.label("b:dump-compared")
        if xa != xb:
            la, lb = xa.split(b"\n"), xb.split(b"\n")
            i = next((i for i, (p, q) in enumerate(zip(la, lb)) if p != q), min(len(la), len(lb)))
            tag = "?"
            for j in range(min(i, len(la) - 1), -1, -1):
                m = _TOP.match(la[j])
                if m:
                    tag = m.group(1).decode()
                    break
            self._fail("object-model", "dump-differs-after-saves:%s" % tag, "TTX dump of A (after %d saves/dumps/compiles) vs dump of a never-saved twin with the same edits and tables loaded: line %d: %r vs %r" % (self.unobs, i + 1, la[i][:120] if i < len(la) else b"", lb[i][:120] if i < len(lb) else b""))

    def _save_raised(self, e, loaded=()):
        # is it the history or the font+edits? ask the twin
        try:
            _save(self.twin(), self.init.get("cmp_flavor"))
        except Exception as e2:
            if type(e2) is type(e):
                self.acc.exclude("save-raises-also-on-twin:%s" % type(e).__name__)
                self.dead = True
                return
        # The library recalculates derived tables only from tables that are decoded (hhea/maxp from a decoded
        # glyf, ...), so an edit that makes a derived value unrepresentable raises only once that table is
        # decoded. That is a property of font + edits + decoded set, not of the saves/dumps in the history:
        # ask a never-saved twin with the same tables decoded (same rule as for byte differences in check()).
        if loaded:
            try:
                _save(self.twin(mirror=list(loaded)), self.init.get("cmp_flavor"))
            except Exception as e3:
                if type(e3) is type(e):
                    self.acc.exclude("save-raises-also-on-twin-with-same-tables-decoded:%s" % type(e).__name__)
                    self.dead = True
                    return
        self._fail("later-operations", "save-raises-only-after-history:%s" % type(e).__name__, "save(A) raised %s: %s; the edits-only twin saves fine" % (type(e).__name__, str(e)[:200]), innermost_frame(e))

    def finish(self):
        """End of history: final comparison and bookkeeping."""
        if not self.dead:
            if self.check() and self.unobs:
                self.compare_dumps()
        acc = self.acc
        loaded = set(self.A.tables)
        nontrivial = self.checked_after_unobs and bool(loaded & set(OUTLINE_OR_LAYOUT))
        labels = ["b:history", "b:src:%s" % self.init["src"], "b:lazyA:%s" % self.init["lazyA"], "b:steps:%s" % ("0" if not self.steps else "1-4" if len(self.steps) <= 4 else "5-9" if len(self.steps) <= 9 else "10+")]
        if self.checked_after_unobs:
            labels.append("b:checked-after-save-or-dump")
        if any(s["op"] == "edit" for s in self.steps) and self.checked_after_unobs:
            labels.append("b:edit-and-save-interleaved")
        if self.failed:
            labels.append("b:failed")
        elif self.dead:
            labels.append("b:ended-early")
        acc.case(("b", self.init, self.steps), nontrivial=nontrivial, labels=labels, sample=self.case() if nontrivial and len(self.steps) >= 5 else None)


# ---------------------------------------------------------------------------
# Hypothesis machine


def run_machine(job, acc):
    import hypothesis
    from hypothesis import settings, strategies as st
    from hypothesis.stateful import RuleBasedStateMachine, initialize, rule, run_state_machine_as_test

    fid, src = job["fid"], job["src"]
    try:
        info = font_info(fid)
    except Exception as e:
        acc.exclude("machine-font-does-not-canonicalise:%s" % type(e).__name__)
        return
    tags = info["tags"]
    glyphs = info["glyphs"]
    etables = set(tags)
    is_tt = "glyf" in etables
    has_bitmaps = bool({"CBDT", "EBDT", "sbix"} & etables)
    flavors = [None, None, "woff", "woff2"]

    st_init = st.fixed_dictionaries(
        dict(
            fid=st.just(fid),
            src=st.just(src),
            lazyA=st.sampled_from([None, True, False]),
            lazyB=st.sampled_from([None, True, False]),
            recalcBBoxes=st.booleans(),
            recalcTimestamp=st.booleans(),
            cmp_flavor=st.sampled_from([None, None, None, None, "woff", "woff2"]),
        )
    )
    idx = st.integers(0, 10**6)
    chk = st.sampled_from([False, False, True])

    def tag_of(i):
        return tags[i % len(tags)]

    def glyph_of(i):
        return glyphs[i % len(glyphs)]

    st_xmlopts = st.fixed_dictionaries(
        {},
        optional=dict(
            splitTables=st.just(True),
            splitGlyphs=st.just(True),
            disassembleInstructions=st.just(False),
            bitmapGlyphDataFormat=st.sampled_from(["raw", "row", "bitwise", "extfile"] if has_bitmaps else ["raw", "row"]),
            newlinestr=st.sampled_from(["\n", "\r\n"]),
            tables=st.lists(st.sampled_from(tags), min_size=1, max_size=4, unique=True),
            skipTables=st.lists(st.sampled_from(tags), min_size=1, max_size=3, unique=True),
        ),
    )

    class Machine(RuleBasedStateMachine):
        def __init__(self):
            super().__init__()
            self.h = None

        @initialize(init=st_init)
        def start(self, init):
            self.h = History(init, acc)

        @rule(fl=st.sampled_from(flavors), reorder=st.sampled_from([True, True, False, None]), c=chk)
        def save(self, fl, reorder, c):
            self.h.apply(dict(op="save", flavor=fl, reorder=reorder, check=c))

        @rule(opts=st_xmlopts, c=chk)
        def saveXML(self, opts, c):
            o = dict(opts)
            if "tables" in o and "skipTables" in o:
                del o["skipTables"]
            self.h.apply(dict(op="xml", opts=o, check=c))

        @rule(i=idx, c=chk)
        def getTableData(self, i, c):
            self.h.apply(dict(op="data", tag=tag_of(i), check=c))

        @rule(i=idx)
        def access(self, i):
            self.h.apply(dict(op="get", tag=tag_of(i)))

        @rule(i=idx, c=chk)
        def compile_table(self, i, c):
            self.h.apply(dict(op="compile", tag=tag_of(i), check=c))

        @rule(recurse=st.sampled_from([None, True, False]))
        def ensure(self, recurse):
            self.h.apply(dict(op="ensure", recurse=recurse))

        @rule(nameID=st.sampled_from([1, 2, 4, 6, 256]), text=st.text(alphabet="AbC x-é中", min_size=0, max_size=8), c=chk)
        def edit_name(self, nameID, text, c):
            self.h.apply(dict(op="edit", kind="name", nameID=nameID, text=text, check=c))

        @rule(i=idx, adv=st.one_of(st.integers(0, 2500), st.sampled_from([0, 1, 65535])), c=chk)
        def edit_hmtx(self, i, adv, c):
            self.h.apply(dict(op="edit", kind="hmtx", glyph=glyph_of(i), adv=adv, check=c))

        @rule(i=idx, j=idx, v=st.integers(-300, 300), c=chk)
        def edit_kern(self, i, j, v, c):
            self.h.apply(dict(op="edit", kind="kern", l=glyph_of(i), r=glyph_of(j), v=v, check=c))

        @rule(i=idx, cp=st.one_of(st.integers(0x20, 0x7E), st.integers(0xA0, 0xFFFD).filter(lambda c: not 0xD800 <= c <= 0xDFFF)), c=chk)
        def edit_cmap(self, i, cp, c):
            self.h.apply(dict(op="edit", kind="cmap", cp=cp, glyph=glyph_of(i), check=c))

        @rule(fv=st.one_of(st.tuples(st.just("usWeightClass"), st.integers(1, 1000)), st.tuples(st.just("usWidthClass"), st.integers(1, 9)), st.tuples(st.just("sTypoLineGap"), st.integers(-500, 500)), st.tuples(st.just("fsType"), st.sampled_from([0, 2, 4, 8]))), c=chk)
        def edit_os2(self, fv, c):
            if "OS/2" not in etables:
                return
            self.h.apply(dict(op="edit", kind="os2", field=fv[0], v=fv[1], check=c))

        @rule(i=idx, k=st.sampled_from([0.25, 0.3, 1.7, 0.5, 1.0 / 3]), c=chk)
        def edit_glyfscale(self, i, k, c):
            if "glyf" not in etables:
                return
            self.h.apply(dict(op="edit", kind="glyfscale", glyph=glyph_of(i), k=k, check=c))

        def teardown(self):
            if self.h is not None:
                self.h.finish()
                self.h = None

    s = settings(hyp_settings(job["n"]), stateful_step_count=job["steps"])
    try:
        run_state_machine_as_test(hypothesis.seed(job["seed"])(Machine), settings=s)
    except hypothesis.errors.FailedHealthCheck as e:
        raise HarnessError("machine health check failed: %s" % e)


def replay_history(case, acc):
    h = History(case["init"], acc)
    for s in case["steps"]:
        h.apply(dict(s))
    h.finish()
