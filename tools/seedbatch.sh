#!/bin/bash
# tools/seedbatch.sh C04 C10 ... : confirms /tmp/seedout/<ID>/{1,2,3} with tools/seedcheck.py; names them <ID>-s<n> with n
# continuing after the highest number already present under /verif/seeded (nothing is ever overwritten)
cd /verif
for id in "$@"; do
  n=$(ls -d seeded/$id-s* 2>/dev/null | sed 's/.*-s//' | sort -n | tail -1); n=${n:-0}
  for k in 1 2 3; do
  d=/tmp/seedout/$id/$k; [ -f $d/patch.diff ] || continue
  n=$((n+1))
  python3 tools/seedcheck.py $id $d /tmp/seed-$id $id-s$n > .scratch/seed-$id-$n.log 2>&1
  python3 - <<PY
import json
m=json.load(open('/verif/seeded/$id-s$n/meta.json'))['confirmed']
print('$id-s$n', 'clean',m.get('demo_clean_exit'),'patched',m.get('demo_patched_exit'),'tests',m.get('tests_pass'), {c:(v['exit'],v['secs']) for c,v in m.get('checks',{}).items()})
PY
done; done
