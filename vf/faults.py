"""Helpers for C20 (fault enumeration): an independent reader/writer for the sfnt,
TTC, WOFF and (null-transform) WOFF2 containers, fault enumerators, an audit-hook
observer, and a scanner that locates attribute values / element text in XML source.

Nothing in this module imports fontTools: it is the reference side of the oracle.
"""

import os
import re
import struct
import sys
import zlib

# ---------------------------------------------------------------------------
# CPU-time limit (robust on a loaded machine: ITIMER_VIRTUAL counts this process's user CPU time only)

import contextlib
import signal


@contextlib.contextmanager
def cpu_limit(seconds, exc_type):
    def handler(signum, frame):
        raise exc_type("no result within %ss of CPU time" % seconds)

    old = signal.signal(signal.SIGVTALRM, handler)
    signal.setitimer(signal.ITIMER_VIRTUAL, seconds)
    try:
        yield
    finally:
        signal.setitimer(signal.ITIMER_VIRTUAL, 0)
        signal.signal(signal.SIGVTALRM, old)


# ---------------------------------------------------------------------------
# reference container parsing


class RefError(Exception):
    """The container is malformed according to the reference parser."""


def kind_of(data):
    h = data[:4]
    if h == b"ttcf":
        return "ttc"
    if h == b"wOFF":
        return "woff"
    if h == b"wOF2":
        return "woff2"
    if h in (b"\0\1\0\0", b"OTTO", b"true"):
        return "sfnt"
    return "other"


def parse_sfnt_dir(data, base=0):
    """-> (sfntVersion, numTables, [(tag, checksum, offset, length)]) in directory order.
    Raises RefError when the header or the directory does not fit in the data."""
    if base < 0 or base + 12 > len(data):
        raise RefError("header does not fit")
    ver = data[base : base + 4]
    (n,) = struct.unpack(">H", data[base + 4 : base + 6])
    if base + 12 + 16 * n > len(data):
        raise RefError("directory does not fit")
    ents = []
    for i in range(n):
        tag, cs, off, ln = struct.unpack(">4sLLL", data[base + 12 + 16 * i : base + 28 + 16 * i])
        ents.append((tag, cs, off, ln))
    return ver, n, ents


def sfnt_slices(data, ents):
    """tag -> designated bytes, or None when the slice runs past the end of the data.
    The last directory entry wins for a duplicated tag (mapping semantics)."""
    out = {}
    for tag, cs, off, ln in ents:
        if ln == 0:
            out[tag] = b""  # an empty slice is empty wherever it is said to start
        elif off + ln <= len(data):
            out[tag] = data[off : off + ln]
        else:
            out[tag] = None
    return out


def parse_ttc(data):
    """-> (version, [offsets]); RefError when header/offset array/v2 tail do not fit."""
    if len(data) < 12 or data[:4] != b"ttcf":
        raise RefError("no ttc header")
    ver, n = struct.unpack(">LL", data[4:12])
    if ver not in (0x00010000, 0x00020000):
        raise RefError("bad version")
    if 12 + 4 * n > len(data):
        raise RefError("offset array does not fit")
    offs = list(struct.unpack(">%dL" % n, data[12 : 12 + 4 * n]))
    if ver == 0x00020000 and 12 + 4 * n + 12 > len(data):
        raise RefError("v2 tail does not fit")
    return ver, offs


def ttc_dir_region(data):
    """Bytes that make up header + offset array (+v2 tail) + every member directory."""
    ver, offs = parse_ttc(data)
    region = set(range(0, 12 + 4 * len(offs) + (12 if ver == 0x00020000 else 0)))
    for o in offs:
        try:
            _, n, _ = parse_sfnt_dir(data, o)
        except RefError:
            continue
        region.update(range(o, o + 12 + 16 * n))
    return sorted(region)


WOFF_HDR = 44


def parse_woff(data):
    """-> (header dict, [(tag, offset, compLength, origLength, checksum)])"""
    if len(data) < WOFF_HDR:
        raise RefError("header does not fit")
    names = "signature flavor length numTables reserved totalSfntSize majorVersion minorVersion metaOffset metaLength metaOrigLength privOffset privLength".split()
    vals = struct.unpack(">4s4sLHHLHHLLLLL", data[:WOFF_HDR])
    hdr = dict(zip(names, vals))
    n = hdr["numTables"]
    if WOFF_HDR + 20 * n > len(data):
        raise RefError("directory does not fit")
    ents = []
    for i in range(n):
        tag, off, cl, ol, cs = struct.unpack(">4sLLLL", data[WOFF_HDR + 20 * i : WOFF_HDR + 20 * i + 20])
        ents.append((tag, off, cl, ol, cs))
    return hdr, ents


def woff_slices(data, ents):
    """tag -> original table bytes per the WOFF 1.0 rules, or None when the entry is
    invalid (slice past EOF, compLength > origLength, zlib failure, wrong inflated size)."""
    out = {}
    for tag, off, cl, ol, cs in ents:
        v = None
        if off + cl <= len(data) or cl == 0:
            raw = data[off : off + cl] if cl else b""
            if cl == ol:
                v = raw
            elif cl < ol:
                try:
                    d = zlib.decompress(raw)
                    if len(d) == ol:
                        v = d
                except zlib.error:
                    v = None
        out[tag] = v
    return out


WOFF2_HDR = 48
WOFF2_KNOWN = [
    "cmap", "head", "hhea", "hmtx", "maxp", "name", "OS/2", "post", "cvt ", "fpgm", "glyf", "loca", "prep", "CFF ", "VORG",
    "EBDT", "EBLC", "gasp", "hdmx", "kern", "LTSH", "PCLT", "VDMX", "vhea", "vmtx", "BASE", "GDEF", "GPOS", "GSUB", "EBSC",
    "JSTF", "MATH", "CBDT", "CBLC", "COLR", "CPAL", "SVG ", "sbix", "acnt", "avar", "bdat", "bloc", "bsln", "cvar", "fdsc",
    "feat", "fmtx", "fvar", "gvar", "hsty", "just", "lcar", "mort", "morx", "opbd", "prop", "trak", "Zapf", "Silf", "Glat",
    "Gloc", "Feat", "Sill",
]  # fmt: skip
assert len(WOFF2_KNOWN) == 63


def _read_base128(data, pos):
    v = 0
    for i in range(5):
        if pos >= len(data):
            raise RefError("base128 runs off the data")
        b = data[pos]
        pos += 1
        if i == 0 and b == 0x80:
            raise RefError("leading zero")
        if v & 0xFE000000:
            raise RefError("overflow")
        v = (v << 7) | (b & 0x7F)
        if not b & 0x80:
            return v, pos
    raise RefError("too long")


def _pack_base128(n):
    out = [n & 0x7F]
    n >>= 7
    while n:
        out.append(0x80 | (n & 0x7F))
        n >>= 7
    return bytes(reversed(out))


def parse_woff2_dir(data):
    """-> (header dict, [(tag, flags, origLength, transformLength|None)], end position of directory)"""
    if len(data) < WOFF2_HDR:
        raise RefError("header does not fit")
    names = "signature flavor length numTables reserved totalSfntSize totalCompressedSize majorVersion minorVersion metaOffset metaLength metaOrigLength privOffset privLength".split()
    vals = struct.unpack(">4s4sLHHLLHHLLLLL", data[:WOFF2_HDR])
    hdr = dict(zip(names, vals))
    pos = WOFF2_HDR
    ents = []
    for i in range(hdr["numTables"]):
        if pos >= len(data):
            raise RefError("directory does not fit")
        flags = data[pos]
        pos += 1
        if flags & 0x3F == 0x3F:
            if pos + 4 > len(data):
                raise RefError("directory does not fit")
            tag = data[pos : pos + 4]
            pos += 4
        else:
            tag = WOFF2_KNOWN[flags & 0x3F].encode("latin-1")
        ol, pos = _read_base128(data, pos)
        tv = flags >> 6
        transformed = (tv != 3) if tag in (b"glyf", b"loca") else (tv != 0)
        tl = None
        if transformed:
            tl, pos = _read_base128(data, pos)
        ents.append((tag, flags, ol, tl))
    return hdr, ents, pos


def woff2_dir_end(data):
    """Best-effort end of the WOFF2 directory (header size when it cannot be parsed)."""
    try:
        return parse_woff2_dir(data)[2]
    except (RefError, struct.error):
        return min(len(data), WOFF2_HDR + 64)


def woff2_null_slices(data):
    """For a WOFF2 file in which *no* table is transformed: tag -> table bytes (None when the
    designated slice leaves the decompressed stream). Returns None when some table is transformed
    or the container is malformed (then only the outcome type is checked)."""
    import brotli

    try:
        hdr, ents, pos = parse_woff2_dir(data)
    except (RefError, struct.error):
        return None
    if any(tl is not None for _, _, _, tl in ents):
        return None
    comp = data[pos : pos + hdr["totalCompressedSize"]]
    try:
        stream = brotli.decompress(comp)
    except brotli.error:
        return None
    out = {}
    off = 0
    for tag, flags, ol, tl in ents:
        out[tag] = stream[off : off + ol] if (off + ol <= len(stream) or ol == 0) else None
        off += ol
    if off != len(stream) or hdr["length"] != len(data):
        return None  # the format requires rejection; outcome type only
    return out


# ---------------------------------------------------------------------------
# reference writers


def _checksum(b):
    b = b + b"\0" * (-len(b) % 4)
    return sum(struct.unpack(">%dL" % (len(b) // 4), b)) & 0xFFFFFFFF


def build_sfnt(version, tables, base=0):
    """tables: [(tag bytes, payload bytes)], written sorted by tag, 4-byte aligned.
    Offsets are relative to the start of the file; `base` is where this font's directory
    will be placed (for collections). Returns (bytes, {tag: (offset, length)})."""
    tables = sorted(tables)
    n = len(tables)
    es = 0
    while (1 << (es + 1)) <= n:
        es += 1
    sr = (1 << es) * 16 if n else 0
    hdr = struct.pack(">4sHHHH", version, n, sr, es, max(0, n * 16 - sr))
    off = base + 12 + 16 * n
    ents = b""
    body = b""
    where = {}
    for tag, payload in tables:
        cs = _checksum(payload[:8] + b"\0\0\0\0" + payload[12:]) if tag == b"head" else _checksum(payload)
        ents += struct.pack(">4sLLL", tag, cs, off, len(payload))
        where[tag] = (off, len(payload))
        padded = payload + b"\0" * (-len(payload) % 4)
        body += padded
        off += len(padded)
    return hdr + ents + body, where


def build_ttc(fonts, version=0x00010000):
    """fonts: [(sfntVersion, [(tag, payload)])] -> TTC bytes (no table sharing)."""
    n = len(fonts)
    pos = 12 + 4 * n + (12 if version == 0x00020000 else 0)
    offs = []
    blobs = []
    for ver, tables in fonts:
        offs.append(pos)
        b, _ = build_sfnt(ver, tables, base=pos)
        blobs.append(b)
        pos += len(b)
    out = b"ttcf" + struct.pack(">LL", version, n) + struct.pack(">%dL" % n, *offs)
    if version == 0x00020000:
        out += b"\0" * 12
    return out + b"".join(blobs)


def build_woff(version, tables, meta=None, priv=None):
    tables = sorted(tables)
    n = len(tables)
    off = WOFF_HDR + 20 * n
    ents = b""
    body = b""
    total = 12 + 16 * n
    for tag, payload in tables:
        comp = zlib.compress(payload, 6)
        raw = comp if len(comp) < len(payload) and tag != b"head" else payload
        cs = _checksum(payload[:8] + b"\0\0\0\0" + payload[12:]) if tag == b"head" else _checksum(payload)
        ents += struct.pack(">4sLLLL", tag, off, len(raw), len(payload), cs)
        padded = raw + b"\0" * (-len(raw) % 4)
        body += padded
        off += len(padded)
        total += (len(payload) + 3) & ~3
    mo = ml = mol = po = pl = 0
    tail = b""
    if meta:
        cm = zlib.compress(meta)
        mo, ml, mol = off, len(cm), len(meta)
        tail += cm + b"\0" * (-len(cm) % 4 if priv else 0)
        off += len(tail)
    if priv:
        po, pl = off, len(priv)
        tail += priv
        off += len(priv)
    hdr = struct.pack(">4s4sLHHLHHLLLLL", b"wOFF", version, off, n, 0, total, 1, 0, mo, ml, mol, po, pl)
    return hdr + ents + body + tail


def build_woff2_null(version, tables):
    """WOFF2 container with the null transform for every table (glyf/loca transform version 3)."""
    import brotli

    tables = sorted(tables)
    ents = b""
    stream = b""
    total = 12 + 16 * len(tables)
    for tag, payload in tables:
        t = tag.decode("latin-1")
        idx = WOFF2_KNOWN.index(t) if t in WOFF2_KNOWN else 0x3F
        flags = idx | (0xC0 if tag in (b"glyf", b"loca") else 0)
        ents += bytes([flags]) + (tag if idx == 0x3F else b"") + _pack_base128(len(payload))
        stream += payload
        total += (len(payload) + 3) & ~3
    comp = brotli.compress(stream)
    length = WOFF2_HDR + len(ents) + len(comp)
    length_p = (length + 3) & ~3
    hdr = struct.pack(">4s4sLHHLLHHLLLLL", b"wOF2", version, length_p, len(tables), 0, total, len(comp), 1, 0, 0, 0, 0, 0, 0)
    return hdr + ents + comp + b"\0" * (length_p - length)


def sfnt_tables(data, base=0):
    """[(tag, payload)] of a well-formed sfnt (used on unfaulted corpus fonts only)."""
    ver, n, ents = parse_sfnt_dir(data, base)
    out = []
    for tag, cs, off, ln in ents:
        if off + ln > len(data):
            raise RefError("corpus font with a table past EOF")
        out.append((tag, data[off : off + ln]))
    return ver, out


# ---------------------------------------------------------------------------
# fault enumeration for the OPEN clause

CORRUPTIONS = ("00", "ff", "x01", "x80")


def corrupt(data, pos, how):
    b = data[pos]
    nb = {"00": 0, "ff": 0xFF, "x01": b ^ 1, "x80": b ^ 0x80}[how]
    if nb == b:
        return None
    return data[:pos] + bytes([nb]) + data[pos + 1 :]


def dir_region(kind, data):
    """Sorted byte positions of header + table directory of an (unfaulted) container."""
    if kind == "sfnt":
        _, n, _ = parse_sfnt_dir(data)
        return list(range(0, 12 + 16 * n))
    if kind == "ttc":
        return ttc_dir_region(data)
    if kind == "woff":
        hdr, ents = parse_woff(data)
        return list(range(0, WOFF_HDR + 20 * len(ents)))
    if kind == "woff2":
        return list(range(0, parse_woff2_dir(data)[2]))
    return []


def truncation_lengths(kind, data, small=3000, stride=97, phase=0):
    """Every length for small files; for larger ones every length up to the end of the
    header+directory region (+16) and a stride elsewhere, plus the last 8 lengths."""
    n = len(data)
    if n <= small:
        return list(range(0, n))
    reg = dir_region(kind, data)
    upto = (max(reg) + 17) if reg else 64
    ls = set(range(0, min(n, upto)))
    ls.update(range(upto + phase % stride, n, stride))
    ls.update(range(max(0, n - 8), n))
    if kind == "ttc":
        ls.update(p for p in reg if p < n)
        ls.update(p + 1 for p in reg if p + 1 < n)
    return sorted(ls)


# ---------------------------------------------------------------------------
# audit observer (installed once per process; cannot be removed, so it is gated)

MARK = "VFCANARY"


class Observer:
    def __init__(self):
        self.armed = False
        self.allowed_roots = ()
        self.events = []  # forbidden events seen while armed
        self.safeeval_sites = set()  # (relpath, lineno) of callers of ast.literal_eval fed a marked source
        self.case_sites = set()  # same, since the last arm()
        self.lib_root = None
        self.sentinel_sites = set()

    def arm(self, allowed_roots):
        self.armed = True
        self.allowed_roots = tuple(os.path.realpath(r) + os.sep for r in allowed_roots)
        self.events = []
        self.case_sites = set()

    def disarm(self):
        self.armed = False
        ev = self.events
        self.events = []
        return ev

    # -- helpers ---------------------------------------------------------
    def _inside(self, path):
        try:
            if isinstance(path, bytes):
                path = os.fsdecode(path)
            if isinstance(path, int):
                return True  # file descriptor: opened elsewhere
            p = os.path.realpath(os.path.abspath(str(path)))
        except Exception:
            return True
        if p.startswith(("/dev/", "/proc/")):
            return True
        return any((p + os.sep).startswith(r) or p.startswith(r) for r in self.allowed_roots)

    def _lib_caller(self):
        """(relpath, lineno, funcname) of the innermost frame inside the library under test."""
        f = sys._getframe(2)
        while f is not None:
            fn = f.f_code.co_filename
            if self.lib_root and fn.startswith(self.lib_root):
                return (os.path.relpath(fn, self.lib_root), f.f_lineno, getattr(f.f_code, "co_qualname", f.f_code.co_name))
            f = f.f_back
        return None

    @staticmethod
    def _code_has_mark(code, depth=0):
        if depth > 4:
            return False
        for c in code.co_consts:
            if isinstance(c, str) and MARK in c:
                return True
            if isinstance(c, bytes) and MARK.encode() in c:
                return True
            if isinstance(c, tuple) and any(isinstance(x, str) and MARK in x for x in c):
                return True
            if hasattr(c, "co_consts") and Observer._code_has_mark(c, depth + 1):
                return True
        return any(MARK in n for n in code.co_names)

    def hook(self, event, args):
        if not self.armed:
            return
        try:
            if event == "compile":
                src = args[0]
                if isinstance(src, bytes):
                    has = MARK.encode() in src
                elif isinstance(src, str):
                    has = MARK in src
                else:
                    has = False
                if has:
                    # ast.literal_eval -> ast.parse -> compile(..., PyCF_ONLY_AST): allowed, but tells
                    # us which library call site received the canary
                    c = self._lib_caller()
                    if c is not None:
                        self.safeeval_sites.add((c[0], c[1]))
                        self.case_sites.add((c[0], c[1]))
            elif event == "exec":
                code = args[0]
                if hasattr(code, "co_consts") and self._code_has_mark(code):
                    c = self._lib_caller()
                    self.events.append(("exec-of-input", "%s:%s" % (c[0], c[2]) if c else "?", code.co_filename))
            elif event in ("os.system", "os.exec", "os.posix_spawn", "os.spawn", "os.fork", "os.forkpty", "subprocess.Popen", "pty.spawn", "os.startfile"):
                c = self._lib_caller()
                self.events.append((event, "%s:%s" % (c[0], c[2]) if c else "?", repr(args)[:200]))
            elif event == "open":
                path, mode, flags = (list(args) + [None, None, None])[:3]
                writing = False
                if isinstance(mode, str):
                    writing = any(ch in mode for ch in "wax+")
                elif isinstance(flags, int):
                    writing = bool(flags & (os.O_WRONLY | os.O_RDWR | os.O_CREAT | os.O_TRUNC | os.O_APPEND))
                if writing and not self._inside(path):
                    c = self._lib_caller()
                    self.events.append(("write-outside", "%s:%s" % (c[0], c[2]) if c else "?", repr(path)[:200]))
            elif event in ("os.mkdir", "os.remove", "os.rmdir", "os.rename", "os.truncate", "os.link", "os.symlink", "os.chmod", "os.chown", "shutil.rmtree", "shutil.move", "shutil.copyfile", "shutil.copytree"):
                if any(isinstance(a, int) and not isinstance(a, bool) and a >= 0 for a in args[1:] if event.startswith("os.") and event not in ("os.mkdir", "os.chmod", "os.chown", "os.truncate")) or (event == "os.mkdir" and len(args) > 2 and isinstance(args[2], int) and args[2] >= 0):
                    return  # dir_fd-relative call made inside shutil.rmtree etc.; the enclosing event is judged
                paths = [a for a in args[:2] if isinstance(a, (str, bytes)) or hasattr(a, "__fspath__")]
                if event in ("shutil.copyfile", "shutil.copytree", "os.link", "os.symlink"):
                    paths = paths[1:2]  # destination only
                for p in paths:
                    if not self._inside(p):
                        c = self._lib_caller()
                        self.events.append(("fs-modify-outside:" + event, "%s:%s" % (c[0], c[2]) if c else "?", repr(p)[:200]))
        except Exception as e:  # an audit hook must never raise into the program
            self.events.append(("observer-error", "?", repr(e)[:200]))


_OBSERVER = None


def observer(lib_root=None):
    """Install (once per process) and return the observer."""
    global _OBSERVER
    if _OBSERVER is None:
        _OBSERVER = Observer()
        sys.addaudithook(_OBSERVER.hook)
    if lib_root:
        _OBSERVER.lib_root = os.path.realpath(lib_root) + os.sep
    return _OBSERVER


# ---------------------------------------------------------------------------
# XML source scanning: positions of attribute values and element text

_ATTR_RE = re.compile(rb"""([A-Za-z_:][-A-Za-z0-9_:.]*)\s*=\s*("([^"]*)"|'([^']*)')""", re.S)


def scan_xml(src):
    """src: bytes of an XML document. Returns a list of sites:
      ("attr", path tuple of element names, attribute name, value_start, value_end)
      ("text", path tuple, None, start, end)        (non-whitespace character data)
    Positions are byte offsets into src; replacing src[start:end] by an XML-escaped value
    yields the mutated document."""
    from xml.parsers.expat import ParserCreate

    p = ParserCreate()
    stack = []
    sites = []
    text_run = [None, None]

    def flush_text():
        if text_run[0] is not None:
            s, e = text_run
            if src[s:e].strip():
                sites.append(("text", tuple(stack), None, s, e))
            text_run[0] = text_run[1] = None

    def start(name, attrs):
        flush_text()
        stack.append(name)
        s = p.CurrentByteIndex
        e = _tag_end(src, s)
        if attrs:
            for m in _ATTR_RE.finditer(src, s, e):
                g = 3 if m.group(3) is not None else 4
                sites.append(("attr", tuple(stack), m.group(1).decode("utf-8", "replace"), m.start(g), m.end(g)))

    def end(name):
        flush_text()
        stack.pop()

    def chars(data):
        s = p.CurrentByteIndex
        if text_run[0] is None:
            text_run[0] = s
        text_run[1] = s + len(data.encode("utf-8"))

    p.StartElementHandler = start
    p.EndElementHandler = end
    p.CharacterDataHandler = chars
    p.CommentHandler = lambda data: flush_text()
    p.ProcessingInstructionHandler = lambda target, data: flush_text()
    p.buffer_text = False
    p.Parse(src, True)
    return sites


def _tag_end(src, s):
    """End (exclusive) of the start tag that begins at src[s] == '<' (quotes respected)."""
    i = s + 1
    q = None
    n = len(src)
    while i < n:
        c = src[i]
        if q:
            if c == q:
                q = None
        elif c in (0x22, 0x27):
            q = c
        elif c == 0x3E:
            return i + 1
        i += 1
    return n


def xml_escape_attr(s):
    return s.replace("&", "&amp;").replace("<", "&lt;").replace(">", "&gt;").replace('"', "&quot;").replace("'", "&apos;")


def substitute(src, start, end, value):
    return src[:start] + xml_escape_attr(value).encode("utf-8") + src[end:]
