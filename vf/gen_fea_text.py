"""Feature-file TEXTS over the C11 skeleton glyph set that use the statement kinds OUTSIDE the structured grammar of
vf.gen_fea (those have no shaping oracle here): named value records in every definition format, used in horizontal and
vertical features; vertical features (vkrn vpal vhal valt) with bare numbers; enum pos; subtable breaks; device tables;
contour-point anchors; aalt; size; cvXX parameters; ssXX feature names; glyph deletion; table blocks head hhea vhea vmtx
OS/2 name BASE GDEF (attach points, ligature carets) STAT; anonymous blocks; language-system keywords.

gen_text(seed) -> feature text. Oracle (props/c11.py): parse -> asFea is a fixed point after one iteration and compiles
to tables byte-identical to those of the original text."""

import random

from .gen_fea import ALTS, LETTERS, LIGS, MARKS

L = LETTERS[:26]
U = LETTERS[26:]


def _cls(r, pool, lo=2, hi=4):
    return "[" + " ".join(sorted(r.sample(pool, r.randint(lo, min(hi, len(pool)))))) + "]"


def _num(r, lo=-90, hi=90):
    v = r.randint(lo, hi)
    return v or 7


def _rec(r):
    return "<%d %d %d %d>" % (_num(r, -30, 30), _num(r, -30, 30), _num(r), r.choice([0, 0, _num(r, -20, 20)]))


def _device(r, never_null=False):
    if not never_null and r.random() < 0.5:
        return "<device NULL>"
    sizes = sorted(r.sample(range(8, 20), r.randint(1, 3)))
    return "<device %s>" % ", ".join("%d %d" % (s, r.choice([-2, -1, 1, 2])) for s in sizes)


def gen_text(seed):
    r = random.Random(seed)
    out = []
    w = out.append
    labels = []
    ls = r.choice([["DFLT dflt"], ["DFLT dflt", "latn dflt"], ["DFLT dflt", "latn dflt", "latn TRK", "cyrl dflt"], ["latn dflt", "latn DEU"]])
    for x in ls:
        w("languagesystem %s;" % x)
    # ---- named value records, every definition format
    vdefs = []
    for i in range(r.randint(1, 3)):
        name = "VR%d" % i
        kind = r.choice(["A", "A", "B", "C"])
        if kind == "A":
            w("valueRecordDef %d %s;" % (_num(r), name))
        elif kind == "B":
            w("valueRecordDef %s %s;" % (_rec(r), name))
        else:
            w("valueRecordDef <%d %d %d %d %s %s %s %s> %s;" % (_num(r, -9, 9), 0, _num(r), 0, _device(r, True), _device(r), _device(r), "<device NULL>", name))
        vdefs.append(name)
        labels.append("valueRecordDef:format-" + kind)
    w("anchorDef %d %d ANC1;" % (r.randint(0, 400), r.randint(0, 700)))
    if r.random() < 0.5:
        w("anchorDef %d %d contourpoint %d ANC2;" % (r.randint(0, 400), r.randint(0, 700), r.randint(0, 9)))
        anc2 = True
    else:
        anc2 = False
    w("markClass [acutecomb gravecomb] <anchor 200 500> @TOP;")
    w("markClass dotbelowcomb <anchor ANC1> @BOT;")
    w("@LC = %s;" % _cls(r, L, 3, 6))
    w("@UC = %s;" % _cls(r, U, 2, 5))
    sections = r.sample(["hpos", "vert", "enum", "subtable", "device", "anchors", "aalt", "size", "cv", "ss", "delete", "tables", "anon", "langs", "stat", "ignore", "mixedclass"], r.randint(4, 9))
    if "vert" not in sections and r.random() < 0.5:
        sections.append("vert")
    later_smcp = False
    for sec in sections:
        labels.append("section:" + sec)
        if sec == "hpos":
            w("feature kern {")
            w("  pos %s %s <%s>;" % (r.choice(L), r.choice(L), r.choice(vdefs)))
            w("  pos %s <%s> %s <%s>;" % (r.choice(L), r.choice(vdefs), r.choice(U), r.choice(vdefs)))
            w("  pos @LC <%s>;" % r.choice(vdefs))
            w("  pos %s %d;" % (r.choice(U), _num(r)))
            w("} kern;")
        elif sec == "vert":
            tag = r.choice(["vkrn", "vpal", "vhal", "valt"])
            w("feature %s {" % tag)
            if tag == "vkrn":
                w("  pos %s %s %d;" % (r.choice(L), r.choice(L), _num(r)))
                w("  pos %s %s <%s>;" % (r.choice(L), r.choice(U), r.choice(vdefs)))
                w("  pos @UC @LC %d;" % _num(r))
            else:
                w("  pos %s %d;" % (r.choice(L), _num(r)))
                w("  pos %s <%s>;" % (r.choice(U), r.choice(vdefs)))
                w("  pos %s %s;" % (r.choice(ALTS), _rec(r)))
            w("} %s;" % tag)
            labels.append("vertical:" + tag)
        elif sec == "enum":
            w("feature dist {")
            w("  enum pos %s %s %d;" % (_cls(r, L), _cls(r, U), _num(r)))
            w("  enumerate pos %s %s %d;" % (r.choice(L), _cls(r, L), _num(r)))
            w("} dist;")
        elif sec == "subtable":
            w("feature cpsp {")
            a = r.sample(L, 6)
            w("  pos [%s %s] [%s %s] %d;" % (a[0], a[1], a[2], a[3], _num(r)))
            w("  subtable;")
            w("  pos [%s %s] [%s] %d;" % (a[0], a[4], a[5], _num(r)))
            w("} cpsp;")
        elif sec == "device":
            w("feature tst2 {")
            w("  pos %s <%d 0 %d 0 %s %s %s %s>;" % (r.choice(L), _num(r, -9, 9), _num(r), _device(r), "<device NULL>", _device(r, True), "<device NULL>"))
            w("  pos base %s <anchor %d %d %s %s> mark @TOP;" % (r.choice(L), r.randint(0, 300), r.randint(300, 700), _device(r), _device(r)))
            w("} tst2;")
        elif sec == "anchors":
            w("feature mark {")
            w("  pos base %s <anchor %d %d contourpoint %d> mark @TOP <anchor ANC1> mark @BOT;" % (r.choice(L), r.randint(0, 300), r.randint(300, 700), r.randint(0, 12)))
            w("  pos base %s <anchor %s> mark @TOP;" % (r.choice(U), "ANC2" if anc2 else "ANC1"))
            w("  pos ligature f_i <anchor 100 600> mark @TOP ligComponent <anchor NULL>;")
            w("  pos mark acutecomb <anchor 10 700> mark @TOP;")
            w("  pos cursive %s <anchor NULL> <anchor %d %d>;" % (r.choice(L), r.randint(100, 500), r.randint(0, 300)))
            w("} mark;")
        elif sec == "aalt":
            w("feature aalt {")
            w("  feature smcp;")
            w("  sub %s from [%s];" % ("a", " ".join(r.sample(["a.alt", "a.alt2", "A"], r.randint(1, 3)))))
            w("} aalt;")
            later_smcp = True
        elif sec == "size":
            w("feature size {")
            if r.random() < 0.5:
                w("  parameters %.1f 0;" % r.choice([10.0, 12.0, 9.5]))
            else:
                w("  parameters %.1f %d %d %d;" % (r.choice([10.0, 12.0, 9.5]), r.randint(1, 5), r.randint(60, 90), r.randint(100, 140)))
                w('  sizemenuname "Win %s";' % r.choice(["Text", "Caption", "Display \\00e9"]))
                w('  sizemenuname 1 "Mac Text";')
                w('  sizemenuname 1 0 0 "Mac Text 0";')
            w("} size;")
        elif sec == "cv":
            n = r.randint(1, 99)
            w("feature cv%02d {" % n)
            w("  cvParameters {")
            w('    FeatUILabelNameID { name "Label %d"; name 1 "Mac label"; };' % n)
            if r.random() < 0.6:
                w('    FeatUITooltipTextNameID { name "Tip"; };')
            if r.random() < 0.6:
                w('    SampleTextNameID { name "abc"; };')
            for k in range(r.randint(0, 2)):
                w('    ParamUILabelNameID { name "P%d"; };' % k)
            for k in range(r.randint(0, 2)):
                w("    Character %s;" % r.choice(["0x61", "98", "0x1F600"]))
            w("  };")
            w("  sub %s by %s;" % ("b", "b.alt"))
            w("} cv%02d;" % n)
        elif sec == "ss":
            n = r.randint(1, 20)
            w("feature ss%02d {" % n)
            w("  featureNames {")
            w('    name "Alternate %d";' % n)
            w('    name 3 1 0x411 "\\65e5\\672c";')
            if r.random() < 0.5:
                w('    name 1 0 0 "Mac alt";')
            w("  };")
            w("  sub %s by %s;" % ("c", "c.alt"))
            w("} ss%02d;" % n)
        elif sec == "delete":
            w("feature ccmp {")
            w("  sub %s by NULL;" % r.choice(MARKS))
            w("  sub %s by %s %s;" % (r.choice(LIGS[:2]), "f", r.choice(["i", "f"])))
            w("} ccmp;")
        elif sec == "tables":
            which = r.sample(["head", "hhea", "vhea", "OS/2", "name", "BASE", "GDEF"], r.randint(2, 5))
            for t in which:
                if t == "head":
                    w("table head { FontRevision %s; } head;" % r.choice(["1.250", "2.001", "0.500", "12.345"]))
                elif t == "hhea":
                    w("table hhea { CaretOffset %d; Ascender %d; Descender %d; LineGap %d; } hhea;" % (_num(r), r.randint(600, 900), -r.randint(100, 300), r.randint(0, 200)))
                elif t == "vhea":
                    w("table vhea { VertTypoAscender %d; VertTypoDescender %d; VertTypoLineGap %d; } vhea;" % (r.randint(400, 600), -r.randint(400, 600), r.randint(0, 1000)))
                elif t == "vmtx":
                    w("table vmtx { VertOriginY %s %d; VertAdvanceY %s %d; } vmtx;" % (r.choice(L), r.randint(600, 900), r.choice(L), r.randint(800, 1100)))
                elif t == "OS/2":
                    w("table OS/2 {")
                    w("  FSType %d; Panose 2 15 0 0 2 2 8 2 9 4;" % r.choice([0, 4, 8]))
                    w("  TypoAscender %d; TypoDescender %d; TypoLineGap %d;" % (r.randint(600, 900), -r.randint(100, 300), r.randint(0, 200)))
                    w("  winAscent %d; winDescent %d; XHeight %d; CapHeight %d;" % (r.randint(700, 1000), r.randint(100, 300), r.randint(400, 550), r.randint(600, 750)))
                    w("  WeightClass %d; WidthClass %d;" % (r.choice([100, 400, 700, 950]), r.randint(1, 9)))
                    w('  Vendor "%s";' % r.choice(["ABCD", "X Y ", "ab"]))
                    w("  UnicodeRange %s;" % " ".join(str(v) for v in sorted(r.sample(range(0, 122), r.randint(1, 4)))))
                    w("  CodePageRange %s;" % " ".join(r.sample(["1252", "1250", "1251", "932", "437"], r.randint(1, 3))))
                    if r.random() < 0.5:
                        w("  LowerOpSize %d; UpperOpSize %d;" % (r.randint(6, 10), r.randint(11, 72)))
                    w("} OS/2;")
                elif t == "name":
                    w("table name {")
                    w('  nameid 9 "Designer %d";' % r.randint(1, 9))
                    w('  nameid 7 3 1 0x409 "Trade\\2122 mark";')
                    w('  nameid 8 1 "Mac \\a9 vendor";')
                    if r.random() < 0.5:
                        w('  nameid 11 1 0 0 "http://x.example/?a=1&b=2";')
                    w("} name;")
                elif t == "BASE":
                    w("table BASE {")
                    w("  HorizAxis.BaseTagList ideo romn;")
                    w("  HorizAxis.BaseScriptList latn romn %d 0, cyrl romn %d 0;" % (-r.randint(100, 200), -r.randint(100, 200)))
                    if r.random() < 0.5:
                        w("  VertAxis.BaseTagList ideo romn;")
                        w("  VertAxis.BaseScriptList latn ideo 0 %d;" % r.randint(100, 200))
                    w("} BASE;")
                elif t == "GDEF":
                    w("table GDEF {")
                    w("  GlyphClassDef [a-z A-N], [f_i f_f f_f_i f_l], [acutecomb gravecomb dotbelowcomb], ;")
                    w("  Attach %s %s;" % (r.choice(L), " ".join(str(v) for v in sorted(r.sample(range(0, 20), r.randint(1, 3))))))
                    w("  LigatureCaretByPos f_i %d;" % r.randint(100, 400))
                    w("  LigatureCaretByIndex f_f_i %d %d;" % (r.randint(1, 5), r.randint(6, 12)))
                    w("} GDEF;")
        elif sec == "anon":
            w("anon sbit {")
            w("  /* opaque */ 1 2 3 ; x y z")
            w("} sbit;")
        elif sec == "langs":
            if any(x.startswith("latn") for x in ls):
                w("feature locl {")
                w("  script latn;")
                w("  language %s%s;" % (r.choice(["TRK", "DEU", "ROM"]), r.choice(["", " exclude_dflt", " include_dflt", " exclude_dflt required", " required"])))
                w("  sub d by d.alt;")
                w("  language dflt;")
                w("  sub e by e.alt;")
                w("} locl;")
        elif sec == "stat":
            w("table STAT {")
            w('  ElidedFallbackName { name "Regular"; name 3 1 0x411 "\\30ec"; };')
            w('  DesignAxis wght 0 { name "Weight"; };')
            w('  DesignAxis opsz 1 { name "Optical"; };')
            w('  AxisValue { location wght %d; name "W%d"; %s};' % (r.choice([300, 400, 700]), r.randint(1, 9), r.choice(["", "flag ElidableAxisValueName; ", "flag OlderSiblingFontAttribute ElidableAxisValueName; "])))
            w('  AxisValue { location opsz %d %d %d; name "Text"; };' % (10, 8, 12))
            if r.random() < 0.5:
                w('  AxisValue { location wght 400 700; name "Linked"; };')
            w("} STAT;")
        elif sec == "ignore":
            w("feature calt {")
            w("  ignore sub %s' %s, %s %s';" % (r.choice(L), r.choice(L), r.choice(U), r.choice(L)))
            w("  sub %s' %s by %s;" % ("e", r.choice(L), "e.alt"))
            w("  ignore pos %s %s' %s;" % (r.choice(L), r.choice(L), r.choice(U)))
            w("} calt;")
        elif sec == "mixedclass":
            w("@MIX = [%s @LC %s];" % (r.choice(U), r.choice(ALTS)))
            w("feature tst3 {")
            w("  pos @MIX %d;" % _num(r))
            w("  pos [@UC %s] @MIX %d;" % (r.choice(MARKS), _num(r)))
            w("} tst3;")
    if later_smcp:
        w("feature smcp {")
        w("  sub a by A;")
        w("  sub [b c] by [B C];")
        w("} smcp;")
    return "\n".join(out) + "\n", labels
