"""With Options.notdef_glyph=False ("works fine as long as no unsupported glyphs are requested", per the option's
documentation) the subsetter puts the first retained glyph on glyph ID 0 and maps its characters to glyph ID 0 in cmap.
Glyph ID 0 means "missing glyph" in every cmap format, so the requested character is no longer supported by the subset
font: the saved cmap subtables read back empty and HarfBuzz finds no glyph for it. Input: Tests/ttx/data/TestTTF.ttf,
unicodes=[0x2E], notdef_glyph=False: the subset's glyph order is ['period'], U+002E is unmapped (original: gid 4).
Expected: every requested character is mapped to its glyph in the subset."""


def reproduce():
    import io
    import os

    import uharfbuzz as hb
    from fontTools import subset
    from fontTools.ttLib import TTFont

    path = os.path.join(os.environ.get("VERIF_REPO", "/repo"), "Tests", "ttx", "data", "TestTTF.ttf")
    with open(path, "rb") as f:
        original = f.read()
    g0 = hb.Font(hb.Face(original)).get_nominal_glyph(0x2E)
    if not g0 or TTFont(io.BytesIO(original)).getGlyphOrder()[g0] != "period":
        return None  # not the input this witness is about

    opts = subset.Options(notdef_glyph=False)
    font = subset.load_font(io.BytesIO(original), opts)
    s = subset.Subsetter(opts)
    s.populate(unicodes=[0x2E])
    s.subset(font)
    order = font.getGlyphOrder()
    out = io.BytesIO()
    subset.save_font(font, out, opts)
    data = out.getvalue()

    g1 = hb.Font(hb.Face(data)).get_nominal_glyph(0x2E)
    best = TTFont(io.BytesIO(data)).getBestCmap()
    if not g1 or 0x2E not in (best or {}):
        return "notdef_glyph=False, unicodes=[0x2E]: glyph order of the subset %r, HarfBuzz nominal glyph for U+002E %r, reloaded best cmap %r" % (order, g1, best)
    return None
