"""userNameToFileName: the '_' put in front of a reserved DOS name (con, prn, aux, nul, com1, ...) is added AFTER the name
was clipped to 255 characters, so the result can be 256 or more characters long (both implementations:
fontTools.misc.filenames and fontTools.ufoLib.filenames)."""


def reproduce():
    out = []
    from fontTools.misc import filenames as m
    from fontTools.ufoLib import filenames as u

    for mod in (m, u):
        name = "con." + "a" * 300
        fn = mod.userNameToFileName(name, existing=set(), suffix=".glif")
        if len(fn) > 255:
            out.append("%s.userNameToFileName('con.' + 'a'*300, suffix='.glif') is %d characters long" % (mod.__name__, len(fn)))
    return "; ".join(out) or None
