"""Generated designspaces with compatible master fonts (property C10).

A *spec* is small JSON-able data (so that it fits in a replay file):

  {"kind": "glyf" | "cff",
   "axes": [{"tag", "name", "min", "default", "max", "map": [[user, design], ...] | None}, ...],
   "masters": [{"loc": [design value per axis], "sparse": None | {...}}, ...]   # masters[0] is the default master
   "order": permutation of master indices = order of the <source> elements,
   "seed": int  (numeric skeleton: coordinates, advances, kerning, anchors, metrics are expanded from it),
   "nbase": int, "marks": bool, "composite": bool, "kern": "none" | "pairs" | "classes" | "both",
   "optimize": bool, "reload": bool, "omit_default_dims": bool}

Every varying quantity q (a point coordinate, an advance, a kerning value, an anchor
coordinate, a font-wide metric) is a fixed polynomial of the master's normalised design
location t (reference normalisation written here):
    q(t) = b + sum_a l_a t_a + sum_a q_a t_a^2 + sum_{a<b} c_ab t_a t_b      rounded to an integer,
so that intermediate and corner masters are not interpolations of the others.

Sparse masters follow what varLib's code accepts for TTFont sources (read from
varLib.__init__._add_gvar/_get_advance_metrics/_add_MVAR, merger.mergeTables and
Tests/varLib/data/master_ttx_interpolatable_ttf/SparseMasters-Medium.ttx):
  * "glyphs": the master contains only a subset of the glyphs (and only head, maxp, hmtx, post and outlines),
  * "empty":  some glyphs are present but empty while the default master's are not, advance 0xFFFF (documented sentinel),
  * "layout": no GPOS/GDEF tables,
  * "tables": no OS/2 and hhea tables; post underline fields hold the documented -0x8000 sentinel.

The reference axis arithmetic (piecewise-linear map, its inverse, normalisation) is
written here from the designspace / OpenType fvar+avar definitions; nothing of
fontTools.designspaceLib or varLib.models is used for it.
"""

import io
import math
import random

from hypothesis import strategies as st

QUANTUM = 1.0 / 16384

AXIS_NAMES = {"wght": "Weight", "wdth": "Width", "opsz": "Optical Size", "slnt": "Slant", "XTRA": "Extra", "ZZ01": "Custom One"}

USER_RANGES = {
    "wght": [(100, 400, 900), (200, 400, 700), (1, 400, 1000), (300, 350, 800)],
    "wdth": [(50, 100, 200), (75, 100, 125), (62.5, 100, 150)],
    "opsz": [(8, 14, 144), (6, 12, 72)],
    "slnt": [(-15, -5, 10), (-12, 0, 6)],
    "XTRA": [(0, 500, 1000), (-100, 0, 100), (0, 0.25, 1)],
    "ZZ01": [(-1, 0, 1), (10, 20, 40), (0, 100, 1000)],
}

DESIGN_TRIPLES = [(0, 500, 1000), (20, 90, 190), (-1, 0, 1), (34, 91, 215), (10, 40.5, 130), (0, 368, 1000), (-50, 10, 70)]

# interior map points per side as (from, to) in normalised units (0..1 on that side); slopes stay within [0.2, 5]
SIDE_MAPS = [
    [],
    [],
    [(0.5, 0.25)],
    [(0.5, 0.75)],
    [(0.25, 0.6)],
    [(0.8, 0.5)],
    [(1 / 3.0, 0.5)],
    [(0.6, 0.6)],
    [(0.25, 0.5), (0.75, 0.8)],
    [(0.3, 0.1), (0.6, 0.7)],
    [(0.2, 0.3), (0.5, 0.45), (0.8, 0.9)],
    [(0.4, 0.5), (0.7, 0.5)],  # flat segment: many-to-one, documented as valid by AxisDescriptor.get_validated_map
]

STOPS = [0.5, 0.25, 0.75, 1 / 3.0, 0.6, 0.2, 0.125, 0.9]


# ---------------------------------------------------------------------------
# reference axis arithmetic


def _r(v, nd=3):
    """Designspace files carry short decimals; keep generated numbers short."""
    w = round(float(v), nd)
    return int(w) if w == int(w) else w


def axis_map_points(axis):
    """Sorted (user, design) pairs of the axis map, or None."""
    if not axis.get("map"):
        return None
    return sorted((float(u), float(d)) for u, d in axis["map"])


def ref_map_forward(axis, u):
    """user -> design, piecewise linear through the map points (identity without a map).
    Outside the mapped range the designspace definition continues with slope 1."""
    pts = axis_map_points(axis)
    if not pts:
        return float(u)
    u = float(u)
    if u <= pts[0][0]:
        return u + pts[0][1] - pts[0][0]
    if u >= pts[-1][0]:
        return u + pts[-1][1] - pts[-1][0]
    for (u0, d0), (u1, d1) in zip(pts, pts[1:]):
        if u0 <= u <= u1:
            if u == u0:
                return d0
            if u == u1:
                return d1
            return d0 + (d1 - d0) * (u - u0) / (u1 - u0)
    raise AssertionError("unreachable")


def ref_map_backward(axis, d):
    """design -> user. On a flat (many-to-one) segment every user value of the segment is an
    inverse image; the middle of the segment is returned."""
    pts = axis_map_points(axis)
    if not pts:
        return float(d)
    d = float(d)
    if d <= pts[0][1]:
        return d + pts[0][0] - pts[0][1]
    if d >= pts[-1][1]:
        return d + pts[-1][0] - pts[-1][1]
    hits = []
    for (u0, d0), (u1, d1) in zip(pts, pts[1:]):
        if d0 <= d <= d1:
            if d0 == d1:
                hits.append((u0, u1))
            else:
                u = u0 + (u1 - u0) * (d - d0) / (d1 - d0)
                hits.append((u, u))
    lo = min(h[0] for h in hits)
    hi = max(h[1] for h in hits)
    return (lo + hi) / 2.0


def ref_normalize(v, lo, de, hi):
    """fvar-style normalisation of v against (lo, de, hi), clamped to the range."""
    v = min(max(float(v), lo), hi)
    if v == de:
        return 0.0
    if v < de:
        return (v - de) / (de - lo) if de != lo else 0.0
    return (v - de) / (hi - de) if hi != de else 0.0


def design_triple(axis):
    return tuple(ref_map_forward(axis, axis[k]) for k in ("min", "default", "max"))


def ref_user_to_normalized(axis, u):
    """The normalised coordinate the designspace prescribes for user value u:
    map to design space, then normalise against the design-space (min, default, max)."""
    lo, de, hi = design_triple(axis)
    return ref_normalize(ref_map_forward(axis, u), lo, de, hi)


def ref_local_slope(axis, u):
    """Largest slope d(normalised design)/d(normalised user) of the map segments touching u
    (1.0 without a map): amplification of the F2Dot14 input quantisation through avar."""
    pts = axis_map_points(axis)
    if not pts:
        return 1.0
    lo, de, hi = design_triple(axis)
    ulo, ude, uhi = float(axis["min"]), float(axis["default"]), float(axis["max"])
    s = 0.0
    for (u0, d0), (u1, d1) in zip(pts, pts[1:]):
        if u0 - 1e-9 <= u <= u1 + 1e-9 and u1 > u0:
            nu = ref_normalize(u1, ulo, ude, uhi) - ref_normalize(u0, ulo, ude, uhi)
            nd = ref_normalize(d1, lo, de, hi) - ref_normalize(d0, lo, de, hi)
            if nu > 0:
                s = max(s, nd / nu)
    return max(s, 1e-9) if s else 1.0


def float_inverse_overshoots_maximum(axis, d):
    """Known finding C10-F1: AxisDescriptor.map_backward evaluates user1 + (user2 - user1) * (v - design1) / (design2 - design1)
    in that order; at the upper end of a segment the result can be one ulp above user2, and load_designspace then
    rejects a master standing exactly at the axis maximum as "out-of-range".  This predicate characterises that input
    class with the same IEEE expression so that the generator can leave it out (counted)."""
    pts = axis_map_points(axis)
    if not pts:
        return False
    back = sorted((dd, u) for u, dd in pts)
    d = float(d)
    for (d1, u1), (d2, u2) in zip(back, back[1:]):
        if d1 <= d <= d2 and d1 != d2:
            u = u1 + (u2 - u1) * (d - d1) / (d2 - d1)
            return not (float(axis["min"]) <= u <= float(axis["max"]))
    return False


def master_normalized(spec, mi):
    return [ref_normalize(d, *design_triple(a)) for a, d in zip(spec["axes"], spec["masters"][mi]["loc"])]


def master_user_location(spec, mi):
    return {a["tag"]: ref_map_backward(a, d) for a, d in zip(spec["axes"], spec["masters"][mi]["loc"])}


# ---------------------------------------------------------------------------
# Hypothesis strategy for the structural part of a spec


@st.composite
def _axis(draw, tag):
    mn, df, mx = draw(st.sampled_from(USER_RANGES[tag]))
    axis = {"tag": tag, "name": AXIS_NAMES[tag], "min": mn, "default": df, "max": mx, "map": None}
    if draw(st.integers(0, 9)) < 5:
        dmn, ddf, dmx = draw(st.sampled_from(DESIGN_TRIPLES))
        neg = draw(st.sampled_from(SIDE_MAPS))
        pos = draw(st.sampled_from(SIDE_MAPS))
        pts = [(mn, dmn), (df, ddf), (mx, dmx)]
        for f, t in neg:  # measured from the default towards the minimum
            pts.append((_r(df - f * (df - mn)), _r(ddf - t * (ddf - dmn))))
        for f, t in pos:
            pts.append((_r(df + f * (mx - df)), _r(ddf + t * (dmx - ddf))))
        pts.sort()
        axis["map"] = [[u, d] for u, d in pts]
        if draw(st.integers(0, 5)) == 0:
            axis["map"].reverse()  # the order of <map> elements is free
    return axis


@st.composite
def specs(draw, max_masters=9):
    naxes = draw(st.sampled_from([1, 1, 1, 2, 2, 2, 2, 3, 3]))
    tags = draw(st.permutations(sorted(USER_RANGES)))[:naxes]
    axes = [draw(_axis(t)) for t in tags]
    triples = [design_triple(a) for a in axes]

    def at(ai, p):
        lo, de, hi = triples[ai]
        return _r(de + p * (hi - de) if p >= 0 else de + p * (de - lo))

    default = [at(i, 0.0) for i in range(naxes)]
    locs = [tuple(default)]

    def add(loc):
        loc = tuple(loc)
        if loc not in locs and len(locs) < max_masters:
            locs.append(loc)
            return True
        return False

    stops = []  # per axis: normalised positions that carry an on-axis master
    for i in range(naxes):
        mine = []
        want_min = draw(st.integers(0, 9)) < 8
        want_max = draw(st.integers(0, 9)) < 9 or not want_min
        if want_max:
            mine.append(1.0)
        if want_min:
            mine.append(-1.0)
        k = draw(st.sampled_from([0, 0, 1, 1, 2]))
        for _ in range(k):
            p = draw(st.sampled_from(STOPS)) * draw(st.sampled_from([1, 1, -1]))
            if p not in mine:
                mine.append(p)
        for p in mine:
            loc = list(default)
            loc[i] = at(i, p)
            add(loc)
        stops.append(mine)
    if naxes >= 2:
        # corners: extremes on two or more axes
        ncorner = draw(st.sampled_from([0, 1, 1, 2, 3, 4]))
        for _ in range(ncorner):
            loc = list(default)
            axes_in = draw(st.lists(st.integers(0, naxes - 1), min_size=2, max_size=naxes, unique=True))
            for i in axes_in:
                loc[i] = at(i, draw(st.sampled_from([1.0, 1.0, -1.0])))
            add(loc)
        # off-axis intermediates
        noff = draw(st.sampled_from([0, 0, 1, 1, 2]))
        for _ in range(noff):
            loc = list(default)
            axes_in = draw(st.lists(st.integers(0, naxes - 1), min_size=2, max_size=naxes, unique=True))
            for i in axes_in:
                p = draw(st.sampled_from(STOPS + [1.0])) * draw(st.sampled_from([1, 1, -1]))
                loc[i] = at(i, p)
            add(loc)
    kind = draw(st.sampled_from(["glyf", "glyf", "cff"]))
    nbase = draw(st.integers(2, 5))
    marks = draw(st.integers(0, 3)) > 0
    composite = kind == "glyf" and draw(st.booleans())
    kern = draw(st.sampled_from(["none", "pairs", "pairs", "classes", "both"]))
    masters = []
    for mi, loc in enumerate(locs):
        sparse = None
        if mi > 0 and draw(st.integers(0, 9)) < 2:
            mode = draw(st.sampled_from(["glyphs", "glyphs", "empty", "layout", "tables"]))
            sparse = {"mode": mode, "pick": draw(st.integers(0, 2**16))}
        masters.append({"loc": list(loc), "sparse": sparse})
    order = list(draw(st.permutations(range(len(masters)))))
    return {
        "kind": kind,
        "axes": axes,
        "masters": masters,
        "order": order,
        "seed": draw(st.integers(0, 2**32 - 1)),
        "nbase": nbase,
        "marks": marks,
        "composite": composite,
        "kern": kern,
        "optimize": draw(st.integers(0, 3)) > 0,
        "reload": draw(st.integers(0, 3)) > 0,
        "omit_default_dims": draw(st.booleans()),
        # class kerning whose two classes have the same size and alphabetically interleaving members
        "classmix": draw(st.booleans()),
        # 7..13-point contours whose masters are (rounded) affine deformations of the default: deltas vary smoothly along
        # the contour, so IUP optimisation has no forced point and must solve the circular problem
        "smooth": kind == "glyf" and draw(st.integers(0, 2)) > 0,
        # glyph pairs written in some masters only (the others fall back on class kerning or on nothing)
        "pairdrop": draw(st.integers(0, 2)) > 0,
    }


# ---------------------------------------------------------------------------
# numeric skeleton


def _var(rnd, naxes, base, amp, const_p=0.0):
    """Coefficients of one varying quantity."""
    if rnd.random() < const_p:
        return {"b": base, "l": [0] * naxes, "q": [0] * naxes, "c": []}
    lin = [rnd.choice([-1, 1]) * rnd.randint(max(1, amp // 4), amp) for _ in range(naxes)]
    quad = [rnd.randint(-amp // 3, amp // 3) for _ in range(naxes)]
    cross = [rnd.randint(-amp // 4, amp // 4) for a in range(naxes) for b in range(a + 1, naxes)]
    return {"b": base, "l": lin, "q": quad, "c": cross}


def _smooth_contours(rnd, naxes, ncont):
    """Contours of 7..13 on-curve points on a jittered circle; along every axis the whole glyph is scaled, sheared and shifted."""
    maps = []
    for _ in range(naxes):
        # mostly scaling (what weight and width masters are): any shear makes a local extreme a forced point
        sh = rnd.choice([0.0, 0.0, 0.0, 0.02, 0.12])
        maps.append((rnd.uniform(-0.3, 0.3), rnd.uniform(-sh, sh), rnd.uniform(-sh, sh), rnd.uniform(-0.2, 0.2), rnd.randint(-30, 30), rnd.randint(-20, 20)))
    out = []
    for c in range(ncont):
        npts = rnd.randint(7, 13)
        cx, cy, rad = 200 + 260 * c, 350, 250
        pts = []
        for i in range(npts):
            ang = 2 * math.pi * (i + rnd.uniform(-0.3, 0.3)) / npts
            r = rad * rnd.uniform(0.7, 1.25)
            bx, by = int(cx + r * math.cos(ang)), int(cy + r * math.sin(ang))
            lx = [int(round(a * (bx - 300) + b * (by - 350))) + e for a, b, _, _, e, _ in maps]
            ly = [int(round(c_ * (bx - 300) + d * (by - 350))) + f for _, _, c_, d, _, f in maps]
            zero = [0] * naxes
            pts.append({"x": {"b": bx, "l": lx, "q": zero, "c": []}, "y": {"b": by, "l": ly, "q": zero, "c": []}, "on": True})
        out.append({"pts": pts, "segs": None})
    return out


def ev(var, t):
    v = var["b"]
    n = len(t)
    for a in range(n):
        v += var["l"][a] * t[a] + var["q"][a] * t[a] * t[a]
    k = 0
    for a in range(n):
        for b in range(a + 1, n):
            if var["c"]:
                v += var["c"][k] * t[a] * t[b]
            k += 1
    return int(math.floor(v + 0.5))


METRIC_FIELDS = [
    # (MVAR tag, table, field, base, amplitude)
    ("hasc", "OS/2", "sTypoAscender", 780, 40),
    ("hdsc", "OS/2", "sTypoDescender", -220, 30),
    ("hlgp", "OS/2", "sTypoLineGap", 90, 30),
    ("hcla", "OS/2", "usWinAscent", 950, 60),
    ("hcld", "OS/2", "usWinDescent", 260, 40),
    ("xhgt", "OS/2", "sxHeight", 480, 40),
    ("cpht", "OS/2", "sCapHeight", 690, 40),
    ("strs", "OS/2", "yStrikeoutSize", 50, 24),
    ("stro", "OS/2", "yStrikeoutPosition", 290, 30),
    ("sbxs", "OS/2", "ySubscriptXSize", 650, 30),
    ("sbyo", "OS/2", "ySubscriptYOffset", 140, 30),
    ("spys", "OS/2", "ySuperscriptYSize", 600, 30),
    ("hcrs", "hhea", "caretSlopeRise", 1000, 0),
    ("hcrn", "hhea", "caretSlopeRun", 120, 60),
    ("hcof", "hhea", "caretOffset", -30, 24),
    ("unds", "post", "underlineThickness", 50, 24),
    ("undo", "post", "underlinePosition", -100, 40),
]


def expand(spec):
    """Deterministic numeric skeleton of a spec."""
    rnd = random.Random(spec["seed"])
    n = len(spec["axes"])
    bases = ["A", "B", "C", "D", "E"][: spec["nbase"]]
    marks = ["acutecomb", "dotbelowcomb"] if spec["marks"] else []
    names = [".notdef", "space"] + bases + marks
    glyphs = {}
    for name in names:
        if name == "space":
            glyphs[name] = {"contours": [], "adv": _var(rnd, n, 250, 60)}
            continue
        ncont = 1 if name in marks or name == ".notdef" else rnd.choice([1, 1, 2])
        contours = []
        if spec.get("smooth") and name in bases:
            glyphs[name] = {"contours": _smooth_contours(rnd, n, ncont + 1), "adv": _var(rnd, n, rnd.randint(400, 800), 70, 0.1)}
            continue
        for c in range(ncont):
            npts = rnd.randint(3, 6)
            if spec["kind"] == "cff":
                # segments: "L" uses one point, "C" three
                segs = []
                for _ in range(rnd.randint(2, 4)):
                    segs.append(rnd.choice(["L", "L", "C"]))
                npts = sum(1 if s == "L" else 3 for s in segs) + 1  # + moveTo
            else:
                segs = None
            cx, cy = (150 + 330 * c, 350) if name not in marks else (200, 600 if name == "acutecomb" else -120)
            rad = 260 if name not in marks else 90
            pts = []
            for i in range(npts):
                ang = 2 * math.pi * i / npts + 0.3 * c
                bx = int(cx + rad * math.cos(ang))
                by = int(cy + rad * math.sin(ang))
                amp = 36 if name not in marks else 16
                pts.append({"x": _var(rnd, n, bx, amp, 0.1), "y": _var(rnd, n, by, amp, 0.1), "on": rnd.random() < 0.6})
            if spec["kind"] == "glyf" and not any(p["on"] for p in pts):
                pts[0]["on"] = True
            contours.append({"pts": pts, "segs": segs})
        if name in marks and rnd.random() < 0.5:
            adv = _var(rnd, n, 0, 0, 1.0)  # zero-width mark in every master
        else:
            adv = _var(rnd, n, rnd.randint(400, 800), 70, 0.1)
        glyphs[name] = {"contours": contours, "adv": adv}
    comp = None
    if spec["composite"] and marks:
        comp = {
            "name": "Aacute",
            "adv": _var(rnd, n, 640, 70),
            "components": [
                {"base": "A", "dx": _var(rnd, n, 0, 0, 1.0), "dy": _var(rnd, n, 0, 0, 1.0)},
                {"base": "acutecomb", "dx": _var(rnd, n, 120, 40), "dy": _var(rnd, n, 160, 40)},
            ],
        }
        names.append("Aacute")
    elif spec["composite"]:
        comp = {
            "name": "Aacute",
            "adv": _var(rnd, n, 900, 70),
            "components": [
                {"base": "A", "dx": _var(rnd, n, 10, 20), "dy": _var(rnd, n, 0, 0, 1.0)},
                {"base": "B", "dx": _var(rnd, n, 620, 50), "dy": _var(rnd, n, -40, 30)},
            ],
        }
        names.append("Aacute")
    pairs = []
    classes = None
    if spec["kern"] in ("pairs", "both"):
        cand = [(a, b) for a in bases for b in bases]
        rnd.shuffle(cand)
        for a, b in cand[: rnd.randint(1, min(5, len(cand)))]:
            pairs.append({"l": a, "r": b, "v": _var(rnd, n, rnd.choice([-1, 1]) * rnd.randint(15, 70), 40, 0.1)})
        pairs.sort(key=lambda p: (p["l"], p["r"]))
        if spec.get("pairdrop") and len(spec["masters"]) > 1:
            # own generator, see classmix
            prnd = random.Random(spec["seed"] ^ 0xD209)
            nm = len(spec["masters"])
            for first in sorted({p["l"] for p in pairs}):
                mine = [p for p in pairs if p["l"] == first]
                if prnd.random() < 0.6:
                    # some masters have no glyph pair at all that starts with this glyph
                    out = prnd.sample(range(nm), prnd.randint(1, nm - 1))
                    for p in mine:
                        p["skip"] = sorted(out)
                else:
                    for p in mine:
                        p["skip"] = sorted(prnd.sample(range(nm), prnd.randint(0, nm - 1)))
            if not (spec["kern"] == "both" and len(bases) >= 2):
                # without class kerning every master keeps one pair: a master without a kern feature is another input class
                pairs[0]["skip"] = []
    if spec["kern"] in ("classes", "both") and len(bases) >= 2:
        k = max(1, len(bases) // 2)
        left, right = bases[:k], bases[k:]
        if spec.get("classmix"):
            # own generator: the main stream (and with it every spec written before this option existed) is unchanged
            order = list(bases)
            random.Random(spec["seed"] ^ 0xC1A55).shuffle(order)
            left, right = sorted(order[:k]), sorted(order[k : 2 * k])
        classes = {"L": left, "R": right, "v": _var(rnd, n, -rnd.randint(15, 70), 40), "v2": _var(rnd, n, rnd.randint(10, 50), 30)}
    anchors = None
    if marks:
        anchors = {"marks": {}, "bases": {}}
        anchors["marks"]["acutecomb"] = {"cls": "TOP", "x": _var(rnd, n, 200, 30), "y": _var(rnd, n, 520, 30)}
        anchors["marks"]["dotbelowcomb"] = {"cls": "BOT", "x": _var(rnd, n, 200, 30), "y": _var(rnd, n, -20, 30)}
        for b in bases:
            which = rnd.choice([["TOP"], ["TOP", "BOT"], ["TOP", "BOT"], ["BOT"]])
            anchors["bases"][b] = {c: {"x": _var(rnd, n, 300 + rnd.randint(-40, 40), 40, 0.1), "y": _var(rnd, n, 720 if c == "TOP" else -10, 40, 0.1)} for c in which}
    metrics = {}
    for tag, table, field, base, amp in METRIC_FIELDS:
        metrics[tag] = _var(rnd, n, base, amp, 0.3) if amp else {"b": base, "l": [0] * n, "q": [0] * n, "c": []}
    return {"names": names, "bases": bases, "marks": marks, "glyphs": glyphs, "comp": comp, "pairs": pairs, "classes": classes, "anchors": anchors, "metrics": metrics}


def master_plan(spec, exp, mi):
    """What master mi contains: (glyph names present, names emptied, has_layout, has_tables)."""
    sp = spec["masters"][mi].get("sparse")
    names = list(exp["names"])
    emptied = []
    layout = True
    tables = True
    if sp:
        rnd = random.Random(sp["pick"])
        cand = [g for g in names if g not in (".notdef", "space") and exp["glyphs"].get(g, {"contours": [1]})["contours"]]
        if sp["mode"] == "glyphs":
            keep = set(rnd.sample(cand, rnd.randint(1, max(1, len(cand) - 1))))
            if "Aacute" in keep:
                keep.update(c["base"] for c in exp["comp"]["components"])
            names = [g for g in names if g in keep or g == ".notdef"]
            layout = False
            tables = False
        elif sp["mode"] == "empty":
            simple = [g for g in cand if g != "Aacute"]
            used = set(c["base"] for c in exp["comp"]["components"]) if exp["comp"] else set()
            simple = [g for g in simple if g not in used] or simple[:0]
            if simple:
                emptied = rnd.sample(simple, rnd.randint(1, len(simple)))
            layout = False
        elif sp["mode"] == "layout":
            layout = False
        elif sp["mode"] == "tables":
            tables = False
    return names, emptied, layout, tables


def fea_text(exp, t, names, mi=None):
    out = ["languagesystem DFLT dflt;"]
    have = set(names)
    if exp["pairs"] or exp["classes"]:
        out.append("feature kern {")
        for p in exp["pairs"]:
            if p["l"] in have and p["r"] in have and mi not in p.get("skip", ()):
                out.append("  pos %s %s %d;" % (p["l"], p["r"], ev(p["v"], t)))
        if exp["classes"]:
            c = exp["classes"]
            out.append("  pos [%s] [%s] %d;" % (" ".join(c["L"]), " ".join(c["R"]), ev(c["v"], t)))
            out.append("  pos [%s] [%s] %d;" % (" ".join(c["R"]), " ".join(c["L"]), ev(c["v2"], t)))
        out.append("} kern;")
    if exp["anchors"]:
        a = exp["anchors"]
        for m, d in a["marks"].items():
            out.insert(1, "markClass %s <anchor %d %d> @%s;" % (m, ev(d["x"], t), ev(d["y"], t), d["cls"]))
        out.append("feature mark {")
        for b, d in a["bases"].items():
            parts = " ".join("<anchor %d %d> mark @%s" % (ev(v["x"], t), ev(v["y"], t), c) for c, v in d.items())
            out.append("  pos base %s %s;" % (b, parts))
        out.append("} mark;")
    return "\n".join(out) + "\n"


def master_numbers(spec, exp, mi):
    """Plain numbers of master mi (for reports): advances, kerning, anchors, metrics."""
    t = master_normalized(spec, mi)
    return {
        "t": t,
        "adv": {g: ev(d["adv"], t) for g, d in exp["glyphs"].items()},
        "pairs": {"%s %s" % (p["l"], p["r"]): ev(p["v"], t) for p in exp["pairs"]},
        "metrics": {tag: ev(v, t) for tag, v in exp["metrics"].items()},
    }


def build_master(spec, exp, mi):
    """-> (TTFont handed to varLib, bytes of a complete static font for the oracle, plan)"""
    from fontTools.fontBuilder import FontBuilder
    from fontTools.ttLib import TTFont

    t = master_normalized(spec, mi)
    names, emptied, layout, tables = master_plan(spec, exp, mi)
    is_ttf = spec["kind"] == "glyf"
    fb = FontBuilder(1000, isTTF=is_ttf)
    fb.setupGlyphOrder(names)
    cmap = {}
    for i, g in enumerate(exp["names"]):
        if g in names and g != ".notdef":
            cmap[{"space": 0x20, "acutecomb": 0x301, "dotbelowcomb": 0x323, "Aacute": 0xC1}.get(g, 0x41 + i)] = g
    fb.setupCharacterMap(cmap)
    adv = {}
    if is_ttf:
        from fontTools.pens.ttGlyphPen import TTGlyphPointPen
        from fontTools.ttLib.tables._g_l_y_f import Glyph

        glyphs = {}
        for g in names:
            if g == "Aacute":
                continue
            d = exp["glyphs"][g]
            adv[g] = ev(d["adv"], t)
            if g in emptied or not d["contours"]:
                glyphs[g] = Glyph()
                continue
            pen = TTGlyphPointPen(None)
            for c in d["contours"]:
                pen.beginPath()
                for p in c["pts"]:
                    pen.addPoint((ev(p["x"], t), ev(p["y"], t)), "line" if p["on"] else None)
                pen.endPath()
            glyphs[g] = pen.glyph(dropImpliedOnCurves=False)
        if "Aacute" in names:
            pen = TTGlyphPointPen({k: None for k in names})
            for comp in exp["comp"]["components"]:
                pen.addComponent(comp["base"], (1, 0, 0, 1, ev(comp["dx"], t), ev(comp["dy"], t)))
            glyphs["Aacute"] = pen.glyph()
            adv["Aacute"] = ev(exp["comp"]["adv"], t)
        fb.setupGlyf(glyphs)
        glyf = fb.font["glyf"]
        metrics = {}
        for g in names:
            gl = glyf[g]
            metrics[g] = (adv[g], getattr(gl, "xMin", 0) if gl.numberOfContours else 0)
        fb.setupHorizontalMetrics(metrics)
    else:
        from fontTools.pens.t2CharStringPen import T2CharStringPen

        cs = {}
        metrics = {}
        for g in names:
            d = exp["glyphs"][g]
            adv[g] = ev(d["adv"], t)
            pen = T2CharStringPen(adv[g], None)
            xs = []
            if g not in emptied:
                for c in d["contours"]:
                    pts = [(ev(p["x"], t), ev(p["y"], t)) for p in c["pts"]]
                    xs.extend(p[0] for p in pts)
                    pen.moveTo(pts[0])
                    i = 1
                    for s in c["segs"]:
                        if s == "L":
                            pen.lineTo(pts[i])
                            i += 1
                        else:
                            pen.curveTo(pts[i], pts[i + 1], pts[i + 2])
                            i += 3
                    pen.closePath()
            cs[g] = pen.getCharString()
            metrics[g] = (adv[g], min(xs) if xs else 0)
        fb.setupCFF("Gen-Master%d" % mi, {"FullName": "Gen Master %d" % mi}, cs, {})
        fb.setupHorizontalMetrics(metrics)
    mv = {tag: ev(v, t) for tag, v in exp["metrics"].items()}
    hhea = {f: mv[tag] for tag, tb, f, _, _ in METRIC_FIELDS if tb == "hhea"}
    os2 = {f: mv[tag] for tag, tb, f, _, _ in METRIC_FIELDS if tb == "OS/2"}
    post = {f: mv[tag] for tag, tb, f, _, _ in METRIC_FIELDS if tb == "post"}
    fb.setupHorizontalHeader(ascent=800, descent=-200, **hhea)
    fb.setupNameTable({"familyName": "Gen", "styleName": "Master%d" % mi})
    fb.setupOS2(**os2)
    fb.setupPost(keepGlyphNames=is_ttf, **post)
    if layout and (exp["pairs"] or exp["classes"] or exp["anchors"]):
        fb.addOpenTypeFeatures(fea_text(exp, t, names, mi))
    buf = io.BytesIO()
    fb.font.save(buf)
    data = buf.getvalue()
    # all masters of one designspace are handed over the same way: either compiled and reopened, or as built in memory
    # (mixing the two makes merger.mergeThings compare feaLib's str feature tags with decompiled Tag objects)
    font = TTFont(io.BytesIO(data)) if spec["reload"] else fb.font
    for g in emptied:
        # documented sentinel (varLib._get_advance_metrics): this glyph's advance does not take part in HVAR.
        # Set on the in-memory master only, as sparse-layer compilers do (the static font for the oracle keeps a real width)
        font["hmtx"].metrics[g] = (0xFFFF, font["hmtx"].metrics[g][1])
    if not tables:
        # a sparse master as ufo2ft/fontmake hand it over: outlines, hmtx, head, maxp, post only
        font["hmtx"].metrics  # decompile before hhea goes away
        if is_ttf:
            for g in font.getGlyphOrder():
                font["glyf"][g]
        else:
            font["CFF "].cff[0].CharStrings.keys()
        font["post"].underlinePosition = -0x8000
        font["post"].underlineThickness = -0x8000
        font["maxp"].numGlyphs
        font["head"].unitsPerEm
        for tag in ("OS/2", "hhea", "name", "cmap"):
            if tag in font:
                del font[tag]
    plan = {"names": names, "emptied": emptied, "layout": layout and "GPOS" in fb.font, "tables": tables, "adv": adv}
    return font, data, plan


def build_document(spec, fonts):
    from fontTools.designspaceLib import AxisDescriptor, DesignSpaceDocument, SourceDescriptor

    doc = DesignSpaceDocument()
    for a in spec["axes"]:
        ad = AxisDescriptor()
        ad.tag = a["tag"]
        ad.name = a["name"]
        ad.minimum, ad.default, ad.maximum = a["min"], a["default"], a["max"]
        if a.get("map"):
            ad.map = [(u, d) for u, d in a["map"]]
        doc.addAxis(ad)
    default = spec["masters"][0]["loc"]
    for mi in spec["order"]:
        m = spec["masters"][mi]
        sd = SourceDescriptor()
        sd.name = "master%d" % mi
        sd.familyName = "Gen"
        sd.styleName = "Master%d" % mi
        loc = {}
        for a, d, dd in zip(spec["axes"], m["loc"], default):
            if spec.get("omit_default_dims") and d == dd and mi != 0:
                continue  # a dimension left out of <location> means the axis default
            loc[a["name"]] = d
        sd.location = loc
        sd.font = fonts[mi]
        doc.addSource(sd)
    return doc
