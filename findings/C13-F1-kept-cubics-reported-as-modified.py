"""cu2qu.ufo.glyph_to_quadratic / glyphs_to_quadratic / fonts_to_quadratic with all_quadratic=False report a glyph as modified ("Return
True if the glyph was modified, else return False") and redraw it although every cubic segment was kept and the outline is unchanged:
_glyphs_to_quadratic tests `new_segments != segments`, where new_segments is a list of ("curve", list of points) and segments a tuple
of ("curve", tuple of points), which is always true. Input: one glyph whose only curve is the S-shaped cubic
(0,0) (0,100) (100,-100) (100,0), which no single quadratic approximates within max_err=1, so it stays a cubic: expected return value
False (and an empty set from fonts_to_quadratic), observed True / {'a'} with identical points before and after."""


def reproduce():
    from fontTools.cu2qu.ufo import fonts_to_quadratic, glyph_to_quadratic
    from fontTools.pens.pointPen import PointToSegmentPen, SegmentToPointPen
    from fontTools.pens.recordingPen import RecordingPointPen

    class Glyph:
        """the part of the defcon / ufoLib2 glyph protocol that cu2qu.ufo uses"""

        def __init__(self, name, contours):
            self.name = name
            self.rec = RecordingPointPen()
            for contour in contours:
                self.rec.beginPath()
                for pt, segmentType in contour:
                    self.rec.addPoint(pt, segmentType=segmentType, smooth=False)
                self.rec.endPath()

        def __len__(self):
            return sum(1 for op, _, _ in self.rec.value if op == "beginPath")

        def clearContours(self):
            self.rec = RecordingPointPen()

        def drawPoints(self, pen):
            self.rec.replay(pen)

        def draw(self, pen):
            self.drawPoints(PointToSegmentPen(pen))

        def getPen(self):
            return SegmentToPointPen(self.rec)

        def points(self):
            return [(tuple(a[0]), a[1]) for op, a, _ in self.rec.value if op == "addPoint"]

    contour = [((0, 0), "line"), ((0, 100), None), ((100, -100), None), ((100, 0), "curve"), ((50, -200), "line")]
    out = []
    g = Glyph("a", [contour])
    before = g.points()
    flag = glyph_to_quadratic(g, max_err=1.0, all_quadratic=False)
    if g.points() == before and any(t == "curve" for _, t in before) and flag:
        out.append("glyph_to_quadratic(all_quadratic=False) returned %r for a glyph whose cubic was kept: points before == points after == %r" % (flag, before))
    font = {"a": Glyph("a", [contour])}
    modified = fonts_to_quadratic([font], max_err=1.0, all_quadratic=False, remember_curve_type=False)
    if font["a"].points() == before and modified:
        out.append("fonts_to_quadratic(all_quadratic=False) returned %r, expected an empty set (nothing changed)" % (modified,))
    return "; ".join(out) or None
