"""Generator of STRUCTURED OpenType feature programs over a fixed glyph set, and
its own printer to feature-file text (C11).

A program is a JSON-able dict; nothing here imports fontTools.feaLib (the font
skeleton uses fontBuilder only).  vf.ref_layout interprets the same structure.

program = {
  "style": int,                         seed of purely syntactic printing choices
  "langsys": [[script, lang], ...],     languagesystem statements ([] = none written)
  "gdef": {"base": [...], "lig": [...], "mark": [...], "comp": [...]},
  "classes": [[name, [glyphs]], ...],   named glyph classes, in definition order
  "markclasses": [[name, [[glyphs, anchor], ...]], ...],
  "anchordefs": [[name, x, y], ...], "valuedefs": [[name, [xp, yp, xa, ya]], ...],
  "top": [ {"k": "lookup", "lookup": L} | {"k": "feature", "tag": t, "table": "GSUB"|"GPOS", "items": [...]} ],
}
feature items: {"k": "script", "tag"} | {"k": "language", "tag", "dflt": bool} |
               {"k": "anon", "lookup": L} | {"k": "block", "lookup": L} | {"k": "ref", "name": n}
lookup L = {"id": int, "name": str|None, "table", "type", "flag": F, "rules": [...]}
flag F   = {"rtl", "ib", "il", "im": bool, "mat": classname|None, "mfs": classname|None}
glyph set = {"g": [glyphs], "n": classname|None, "b": force brackets}
value    = {"v": [xp, yp, xa, ya], "f": "num"|"rec"|"ref", "n": name}
anchor   = None | {"x", "y", "n": name|None}
"""

import io
import random

LETTERS = [chr(c) for c in range(97, 123)] + [chr(c) for c in range(65, 79)]
ALTS = ["a.alt", "b.alt", "c.alt", "d.alt", "e.alt", "f.alt", "a.alt2", "b.alt2"]
LIGS = ["f_i", "f_f", "f_f_i", "f_l", "c_t", "s_t", "a_b"]
MARKS = ["acutecomb", "gravecomb", "circumflexcomb", "tildecomb", "dotbelowcomb", "cedillacomb", "ogonekcomb", "macronbelowcomb"]
OTHERS = ["space", "period", "hyphen"]
GLYPHS = [".notdef"] + LETTERS + ALTS + LIGS + MARKS + OTHERS
GID = {g: i for i, g in enumerate(GLYPHS)}
ADV = {g: 400 + 7 * i for i, g in enumerate(GLYPHS)}
for _i, _m in enumerate(MARKS):
    ADV[_m] = [0, 0, 110, 0, 130, 0, 0, 90][_i]

GSUB_TAGS = ["liga", "calt", "ccmp", "ss01", "ss02", "smcp", "salt", "rlig", "locl", "tst1", "dlig", "c2sc"]
GPOS_TAGS = ["kern", "mark", "mkmk", "curs", "dist", "abvm", "blwm", "tst2", "cpsp", "tst3"]
SCRIPTS = ["latn", "cyrl", "grek"]
LANGS = ["TRK ", "DEU ", "SRB ", "ROM ", "NLD "]

GSUB_TYPES = ["single", "multiple", "alternate", "ligature", "context", "reverse"]
GPOS_TYPES = ["spos", "pair", "cursive", "markbase", "marklig", "markmark", "cpos"]
ANYSUBST = ("single", "multiple", "ligature")

# Findings on the unchanged library that are excluded by construction (with counters); set to False to see them.
EXCLUDE_F1 = False  # inline contextual ligature rules sharing one ligature lookup (sequence prefix of another)
EXCLUDE_F3 = False  # Builder.set_script early return: script statement ignored when languagesystems == {(script, dflt)}
EXCLUDE_F4 = False  # `sub a' from [...]` without context is compiled as a plain (non-contextual) alternate lookup
EXCLUDE_F2 = False  # (repaired in /repo by a fix: commit; kept as a switch) asFea of `ignore pos a' b';` (several marked glyphs, no context) loses the marks

_skeleton = None


def skeleton_bytes():
    """The fixed font every program is compiled into (empty outlines, distinct advances)."""
    global _skeleton
    if _skeleton is None:
        from fontTools.fontBuilder import FontBuilder
        from fontTools.ttLib.tables._g_l_y_f import Glyph

        fb = FontBuilder(1000, isTTF=True)
        fb.setupGlyphOrder(list(GLYPHS))
        fb.setupCharacterMap({})
        fb.setupGlyf({g: Glyph() for g in GLYPHS})
        fb.setupHorizontalMetrics({g: (ADV[g], 0) for g in GLYPHS})
        fb.setupHorizontalHeader(ascent=800, descent=-200)
        fb.setupNameTable({"familyName": "VerifC11", "styleName": "Regular"})
        fb.setupOS2()
        fb.setupPost()
        buf = io.BytesIO()
        fb.save(buf)
        _skeleton = buf.getvalue()
    return _skeleton


# ---------------------------------------------------------------------------
# helpers shared with the reference


def zero_flag():
    return dict(rtl=False, ib=False, il=False, im=False, mat=None, mfs=None)


def flag_is_zero(f):
    return not (f["rtl"] or f["ib"] or f["il"] or f["im"] or f["mat"] or f["mfs"])


def flag_skips_nothing(f):
    return not (f["ib"] or f["il"] or f["im"] or f["mat"] or f["mfs"])


def gdef_class_map(program):
    m = {}
    for k, c in (("base", 1), ("lig", 2), ("mark", 3), ("comp", 4)):
        for g in program["gdef"][k]:
            m[g] = c
    return m


def class_glyphs(program, name):
    for n, gl in program["classes"]:
        if n == name:
            return gl
    raise KeyError(name)


def skips(program, clsmap, flag, glyph):
    """Does a lookup with this flag skip this glyph?  (OpenType LookupFlag semantics)"""
    c = clsmap.get(glyph, 0)
    if c == 1:
        return flag["ib"]
    if c == 2:
        return flag["il"]
    if c == 3:
        if flag["im"]:
            return True
        if flag["mfs"]:
            return glyph not in class_glyphs(program, flag["mfs"])
        if flag["mat"]:
            return glyph not in class_glyphs(program, flag["mat"])
    return False


def all_lookups(program):
    """Every lookup of the program in definition (file) order."""
    out = []
    for t in program["top"]:
        if t["k"] == "lookup":
            out.append(t["lookup"])
        else:
            for it in t["items"]:
                if it["k"] in ("anon", "block"):
                    out.append(it["lookup"])
    return out


# ---------------------------------------------------------------------------
# generation


class Gen:
    def __init__(self, rnd, excl=None):
        self.r = rnd
        self.excl = excl if excl is not None else {}
        self.next_id = 0
        self.names = 0

    def exclude(self, why):
        self.excl[why] = self.excl.get(why, 0) + 1

    # -- vocabulary --------------------------------------------------------
    def setup(self):
        r = self.r
        self.LET = r.sample(LETTERS, r.randint(6, 9))
        self.ALT = r.sample(ALTS, r.randint(2, 4))
        self.LIG = r.sample(LIGS, r.randint(2, 4))
        self.MK = r.sample(MARKS, r.randint(3, 5))
        self.OTH = r.sample(OTHERS, 1)
        self.NM = self.LET + self.ALT + self.LIG + self.OTH
        uncl = set(r.sample(self.LET, r.choice([0, 0, 1, 2])))
        if r.random() < 0.5:
            uncl.update(self.OTH)
        ligs = list(LIGS)
        base = [g for g in LETTERS + ALTS + OTHERS if g not in uncl]
        comp = []
        if r.random() < 0.15:
            g = r.choice(self.LIG)
            ligs.remove(g)
            base.append(g)
        if r.random() < 0.15:
            g = r.choice([x for x in OTHERS if x not in self.OTH])
            if g in base:
                base.remove(g)
            comp.append(g)
        self.P = P = dict(style=r.randrange(1 << 30), langsys=[], gdef=dict(base=base, lig=ligs, mark=list(MARKS), comp=comp))
        self.cls = gdef_class_map(P)
        # named classes
        P["classes"] = []
        pool = self.LET + self.ALT
        for i in range(r.randint(1, 3)):
            P["classes"].append(["c%d" % (i + 1), r.sample(pool, r.randint(2, 4))])
        # mark attachment classes: disjoint; mark filtering sets: arbitrary
        mk = list(self.MK)
        r.shuffle(mk)
        self.mat = []
        cut = r.randint(1, len(mk) - 1)
        for i, part in enumerate([mk[:cut], mk[cut:]][: r.randint(1, 2)]):
            part = part[: r.randint(1, len(part))]
            P["classes"].append(["ma%d" % (i + 1), sorted(part, key=GID.get)])
            self.mat.append("ma%d" % (i + 1))
        self.mfs = []
        seen_sets = []
        for i in range(r.randint(1, 2)):
            gl = r.sample(self.MK, r.randint(1, max(1, len(self.MK) - 1)))
            if set(gl) in seen_sets:  # equal sets are one and the same filtering set
                continue
            seen_sets.append(set(gl))
            P["classes"].append(["mf%d" % (i + 1), gl])
            self.mfs.append("mf%d" % (i + 1))
        # attachment mark classes (disjoint glyph sets)
        mk = list(self.MK)
        r.shuffle(mk)
        P["markclasses"] = []
        P["anchordefs"] = [["an%d" % (i + 1), r.randint(-50, 400), r.randint(-200, 700)] for i in range(r.randint(0, 2))]
        P["valuedefs"] = [["vr%d" % (i + 1), self.raw_value()] for i in range(r.randint(0, 2))]
        nmc = r.randint(1, min(3, len(mk)))
        parts = [[] for _ in range(nmc)]
        for i, g in enumerate(mk):
            parts[i % nmc].append(g)
        for i, part in enumerate(parts):
            defs = []
            if len(part) > 1 and r.random() < 0.5:
                k = r.randint(1, len(part) - 1)
                defs.append([part[:k], self.anchor(False)])
                defs.append([part[k:], self.anchor(False)])
            else:
                defs.append([part, self.anchor(False)])
            P["markclasses"].append([["TOP", "BOT", "MID"][i], defs])
        # language systems
        ls = []
        if r.random() < 0.75:
            if r.random() < 0.85:
                ls.append(["DFLT", "dflt"])
            for s in r.sample(SCRIPTS, r.randint(0, 2)):
                ls.append([s, "dflt"])
                for l in r.sample(LANGS, r.choice([0, 0, 1, 2])):
                    ls.append([s, l])
        if len(ls) == 1 and ls[0][0] != "DFLT" and EXCLUDE_F3:
            # `script S;` inside a feature is ignored (script stays DFLT, no new lookup) when the only
            # languagesystem is `S dflt` (finding F3)
            self.exclude("only-languagesystem-is-a-non-DFLT-script (finding F3)")
            ls.insert(0, ["DFLT", "dflt"])
        P["langsys"] = ls
        P["top"] = []

    def name(self, prefix="L"):
        self.names += 1
        return "%s%d" % (prefix, self.names)

    # -- small pieces --------------------------------------------------------
    def raw_value(self):
        r = self.r
        while True:
            v = [r.choice([0, 0, r.randint(-80, 80)]) for _ in range(4)]
            if v[0] or v[1] or v[2]:
                return v

    def value(self, allow_num=True):
        r = self.r
        if allow_num and r.random() < 0.4:
            n = r.choice([-1, 1]) * r.randint(1, 90)
            return dict(v=[0, 0, n, 0], f="num", n=None)
        if self.P["valuedefs"] and r.random() < 0.2:
            n, v = r.choice(self.P["valuedefs"])
            return dict(v=list(v), f="ref", n=n)
        return dict(v=self.raw_value(), f="rec", n=None)

    def anchor(self, allow_null=True, p_null=0.2):
        r = self.r
        if allow_null and r.random() < p_null:
            return None
        if self.P.get("anchordefs") and r.random() < 0.2:
            n, x, y = r.choice(self.P["anchordefs"])
            return dict(x=x, y=y, n=n)
        return dict(x=r.randint(-50, 400), y=r.randint(-200, 700), n=None)

    def flag(self, table, ltype):
        r = self.r
        f = zero_flag()
        if ltype in ("markbase", "marklig", "markmark"):
            # only mark-filtering flags make sense for attachment lookups
            x = r.random()
            if x < 0.25:
                f["mat"] = r.choice(self.mat)
            elif x < 0.5:
                f["mfs"] = r.choice(self.mfs)
            return f
        if r.random() < 0.4:
            return f
        for k in r.sample(["im", "il", "ib", "mat", "mfs", "im", "mat", "mfs"], r.choice([1, 1, 1, 2])):
            if k == "mat":
                f["mat"] = r.choice(self.mat)
            elif k == "mfs":
                f["mfs"] = r.choice(self.mfs)
            else:
                f[k] = True
        if ltype != "cursive" and r.random() < 0.06:
            f["rtl"] = True
        return f

    def usable(self, flag, pool):
        return [g for g in pool if not skips(self.P, self.cls, flag, g)]

    def gset(self, pool, kmin=1, kmax=3, named=True):
        """A glyph set drawn from pool; sometimes a named class that lies inside pool."""
        r = self.r
        if named and r.random() < 0.25:
            ok = [(n, gl) for n, gl in self.P["classes"] if kmin <= len(gl) <= max(kmax, 4) and all(g in pool for g in gl)]
            if ok:
                n, gl = r.choice(ok)
                return dict(g=list(gl), n=n, b=False)
        if r.random() < 0.12:
            # a bracketed class that mixes plain glyph names with a reference to a named class: [a @CLS u]
            cap = max(kmax, 4)
            ok = [(n, gl) for n, gl in self.P["classes"] if len(gl) < cap and all(g in pool for g in gl)]
            if ok:
                n, gl = r.choice(ok)
                rest = [g for g in pool if g not in gl]
                if rest:
                    extra = r.sample(rest, min(len(rest), r.randint(1, cap - len(gl))))
                    cut = r.randint(0, len(extra)) if r.random() < 0.4 else len(extra)
                    return dict(g=extra[:cut] + list(gl) + extra[cut:], n=None, b=False, nest=[cut, n])
        k = min(len(pool), r.randint(kmin, kmax))
        return dict(g=r.sample(pool, k), n=None, b=(k == 1 and r.random() < 0.15))

    def ctxsets(self, pool, lo, hi):
        return [self.gset(pool, 1, 3) for _ in range(self.r.randint(lo, hi))]

    def set_factory(self, pool):
        """Contextual lookups are written in three styles, which end up in different subtable formats:
        single glyphs only (format 1), classes from one partition (format 2), arbitrary sets (format 3)."""
        r = self.r
        mode = r.choice(["mixed", "mixed", "mixed", "glyphs", "glyphs", "classes"])
        if mode == "glyphs":
            return mode, lambda p=None, lo=1, hi=3: dict(g=[r.choice(p or pool)], n=None, b=False)
        if mode == "classes":
            sh = list(pool)
            r.shuffle(sh)
            parts = []
            while sh:
                k = r.choice([1, 1, 2, 3])
                parts.append(sh[:k])
                sh = sh[k:]

            def pick(p=None, lo=1, hi=3):
                ok = [x for x in parts if len(x) <= hi and (p is None or all(g in p for g in x))]
                if not ok:
                    return dict(g=[r.choice(p)], n=None, b=False)
                x = r.choice(ok)
                return dict(g=list(x), n=None, b=(len(x) == 1 and r.random() < 0.15))

            return mode, pick
        return mode, lambda p=None, lo=1, hi=3: self.gset(p or pool, lo, hi) if hi > 1 else dict(g=[r.choice(p or pool)], n=None, b=False)

    # -- lookups ---------------------------------------------------------------
    def lookup(self, table, ltype=None, name=None, nested=False, force_flag=None):
        r = self.r
        if ltype is None:
            ltype = r.choice(GSUB_TYPES if table == "GSUB" else GPOS_TYPES)
        for _attempt in range(6):
            flag = force_flag if force_flag is not None else self.flag(table, ltype)
            L = dict(id=None, name=name, table=table, type=ltype, flag=flag, rules=[])
            if name and r.random() < 0.1:
                L["ext"] = True  # `useExtension`: same meaning, Extension lookup type in the table
            ok = getattr(self, "g_" + ltype)(L, nested)
            if ok and L["rules"]:
                return L
            force_flag = zero_flag() if _attempt >= 2 else None
        raise RuntimeError("could not generate lookup of type %s" % ltype)

    def g_single(self, L, nested):
        r = self.r
        src_pool = self.usable(L["flag"], self.NM + self.MK)
        if len(src_pool) < 2:
            return False
        used = set()
        for _ in range(r.randint(1, 3)):
            pool = [g for g in src_pool if g not in used]
            if not pool:
                break
            s = self.gset(pool, 1, 3)
            used.update(s["g"])
            tpool = self.NM + (self.MK if r.random() < 0.2 else [])
            if len(s["g"]) > 1 and r.random() < 0.3:
                o = dict(g=[r.choice(tpool)], n=None, b=False)
            else:
                o = dict(g=[r.choice(tpool) for _ in s["g"]], n=None, b=False)
            L["rules"].append(dict(s=s, o=o))
        return True

    def g_multiple(self, L, nested):
        r = self.r
        src_pool = self.usable(L["flag"], self.NM + self.MK)
        if not src_pool:
            return False
        for g in r.sample(src_pool, min(len(src_pool), r.randint(1, 2))):
            L["rules"].append(dict(s=g, o=[r.choice(self.NM + self.MK) for _ in range(r.randint(2, 3))]))
        return True

    def g_alternate(self, L, nested):
        r = self.r
        src_pool = self.usable(L["flag"], self.NM)
        if not src_pool:
            return False
        for g in r.sample(src_pool, min(len(src_pool), r.randint(1, 2))):
            k = r.randint(2, 4)
            L["rules"].append(dict(s=g, o=dict(g=r.sample(self.NM, k), n=None, b=True)))
        return True

    def g_ligature(self, L, nested):
        r = self.r
        pool = self.usable(L["flag"], self.NM)
        mpool = self.usable(L["flag"], self.MK)
        if len(pool) < 2:
            return False
        seqs = {}
        rules = []
        for _ in range(r.randint(1, 3)):
            if rules and r.random() < 0.4:
                base = r.choice(rules)["s"]
                if len(base) >= 4:
                    continue
                comps = [dict(g=list(c["g"]), n=c["n"], b=c["b"]) for c in base] + [self.gset(pool, 1, 2, named=False)]
            else:
                n = r.randint(2, 3)
                comps = [self.gset(pool, 1, 2, named=(i > 0)) for i in range(n)]
                if mpool and r.random() < 0.25:
                    comps[r.randint(1, n - 1)] = self.gset(mpool, 1, 2, named=False)
            out = r.choice(self.LIG + self.ALT[:1])
            enum = _product([c["g"] for c in comps])
            if len(enum) > 8 or any(s in seqs for s in enum):
                continue
            for s in enum:
                seqs[s] = out
            rules.append(dict(s=comps, o=out))
        L["rules"] = rules
        return bool(rules)

    def _refs(self, table, types):
        """Named lookups defined so far that a contextual rule may reference."""
        return [l for l in self.defined if l["table"] == table and l["type"] in types and l["name"]]

    def g_context(self, L, nested):
        if nested:
            return False
        r = self.r
        flag = L["flag"]
        pool = self.usable(flag, self.NM + self.MK)
        nm = self.usable(flag, self.NM)
        if len(pool) < 3 or len(nm) < 2:
            return False
        refs = self._refs("GSUB", ("single", "alternate"))
        ligseqs = []
        mode, mk = self.set_factory(pool)
        L["style"] = mode
        for _ in range(r.randint(1, 3) if mode != "classes" else r.randint(5, 12)):
            kind = r.choice(["single", "single", "ligature", "multiple", "ref", "ref", "ref", "ignore", "alternate"])
            if mode == "classes" and kind in ("ligature", "multiple", "alternate"):
                kind = "single"
            if kind == "ref" and not refs:
                kind = "single"
            if L["rules"] and r.random() < 0.3:
                # same context as the rule before (feaLib merges such rules when they also share the lookups)
                pre = [dict(x) for x in L["rules"][-1]["pre"]]
                suf = [dict(x) for x in L["rules"][-1]["suf"]]
            else:
                pre = [mk() for _ in range(r.randint(0, 2))]
                suf = [mk() for _ in range(r.randint(0, 2))]
            if not pre and not suf and r.random() < 0.8:
                (pre if r.random() < 0.5 else suf).append(mk())
            if kind == "alternate" and not pre and not suf and EXCLUDE_F4:
                self.exclude("contextual-alternate-rule-without-context (finding F4)")
                suf.append(mk())
            rule = dict(pre=pre, suf=suf, ignore=False, inline=None)
            if kind == "single":
                s = mk()
                o = [r.choice(self.NM) for _ in s["g"]] if (len(s["g"]) == 1 or r.random() < 0.7) else [r.choice(self.NM)]
                rule["inp"] = [dict(s=s, lk=[])]
                rule["inline"] = dict(k="single", o=dict(g=o, n=None, b=False))
            elif kind == "multiple":
                rule["inp"] = [dict(s=mk(pool, 1, 1), lk=[])]
                rule["inline"] = dict(k="multiple", o=[r.choice(self.NM) for _ in range(r.randint(2, 3))])
            elif kind == "alternate":
                rule["inp"] = [dict(s=mk(nm, 1, 1), lk=[])]
                rule["inline"] = dict(k="alternate", o=dict(g=r.sample(self.NM, r.randint(2, 3)), n=None, b=True))
            elif kind == "ligature":
                comps = [mk(nm, 1, 2) for _ in range(r.randint(2, 3))]
                for c in comps:
                    c["n"] = None
                    del c["g"][2:]
                enum = _product([c["g"] for c in comps])
                # feaLib shares one ligature lookup between the inline ligature rules of a contextual lookup;
                # a shared entry that extends another rule's sequence would be applied beyond that rule's
                # marked glyphs (see sensitivity/C11.md, finding F1): excluded by construction
                clash = any(_is_prefix(a, b) or _is_prefix(b, a) or a == b for a in enum for b in ligseqs)
                if clash and EXCLUDE_F1:
                    self.exclude("context-inline-ligature-sequences-prefix-of-each-other")
                    continue
                ligseqs.extend(enum)
                rule["inp"] = [dict(s=c, lk=[]) for c in comps]
                rule["inline"] = dict(k="ligature", o=r.choice(self.LIG))
            elif kind == "ref":
                n = r.randint(1, 3)
                inp = [dict(s=mk(), lk=[]) for _ in range(n)]
                for pos in r.sample(range(n), r.randint(1, n)):
                    for l in r.sample(refs, min(len(refs), r.choice([1, 1, 2]))):
                        inp[pos]["lk"].append(l["name"])
                rule["inp"] = inp
            else:
                n = r.randint(1, 2)
                rule["inp"] = [dict(s=mk(), lk=[]) for _ in range(n)]
                rule["ignore"] = True
            L["rules"].append(rule)
        if all(x["ignore"] for x in L["rules"]):
            s = mk()
            L["rules"].append(dict(pre=[], suf=[], ignore=False, inp=[dict(s=s, lk=[])], inline=dict(k="single", o=dict(g=[r.choice(self.NM)], n=None, b=False))))
        return True

    def g_reverse(self, L, nested):
        if nested:
            return False
        r = self.r
        pool = self.usable(L["flag"], self.NM + self.MK)
        if len(pool) < 3:
            return False
        for _ in range(r.randint(1, 2)):
            s = self.gset(pool, 1, 3)
            o = [r.choice(self.NM) for _ in s["g"]] if (len(s["g"]) == 1 or r.random() < 0.7) else [r.choice(self.NM)]
            pre = self.ctxsets(pool, 0, 2)
            suf = self.ctxsets(pool, 0, 2)
            if not pre and not suf:
                suf.append(self.gset(pool, 1, 3))
            L["rules"].append(dict(pre=pre, suf=suf, s=s, o=dict(g=o, n=None, b=False)))
        return True

    def g_spos(self, L, nested):
        r = self.r
        pool = self.usable(L["flag"], self.NM + self.MK)
        if not pool:
            return False
        used = set()
        for _ in range(r.randint(1, 3)):
            p2 = [g for g in pool if g not in used]
            if not p2:
                break
            s = self.gset(p2, 1, 3)
            used.update(s["g"])
            L["rules"].append(dict(s=s, v=self.value()))
        return True

    def g_pair(self, L, nested):
        r = self.r
        pool = self.usable(L["flag"], self.NM + (self.MK if r.random() < 0.2 else []))
        if len(pool) < 3:
            return False
        rules = []
        seen = set()
        spec_v2 = r.random() < 0.3
        for _ in range(r.choice([0, 1, 2, 3])):
            if r.random() < 0.25:
                a = self.gset(pool, 2, 3)
                b = self.gset(pool, 1, 2)
                rule = dict(a=a, b=b, cls=False, enum=True)
            else:
                rule = dict(a=dict(g=[r.choice(pool)], n=None, b=False), b=dict(g=[r.choice(pool)], n=None, b=False), cls=False, enum=False)
            rule["v1"] = self.value()
            rule["v2"] = self.value(False) if spec_v2 else None
            rules.append(rule)
        # class pairs: first classes identical or disjoint, second classes identical or disjoint, no combination
        # twice: then all class rules fit one class matrix whatever the subtable partitioning
        if not rules or r.random() < 0.6:
            cls_v2 = r.random() < 0.25
            firsts, seconds = [], []
            free1 = list(pool)
            free2 = list(pool)
            combos = set()
            for _ in range(r.randint(1, 3)):
                if firsts and r.random() < 0.4:
                    a = r.choice(firsts)
                else:
                    if not free1:
                        continue
                    a = self.gset(free1, 1, 3, named=False)
                    free1 = [g for g in free1 if g not in a["g"]]
                    firsts.append(a)
                if seconds and r.random() < 0.4:
                    b = r.choice(seconds)
                else:
                    if not free2:
                        continue
                    b = self.gset(free2, 1, 3, named=False)
                    free2 = [g for g in free2 if g not in b["g"]]
                    seconds.append(b)
                key = (tuple(a["g"]), tuple(b["g"]))
                if key in combos:
                    continue
                combos.add(key)
                a = dict(a)
                b = dict(b)
                # a one-glyph class must be written in brackets on at least one side, otherwise it is a specific pair
                if len(a["g"]) == 1 and len(b["g"]) == 1:
                    a["b"] = True
                rules.append(dict(a=a, b=b, cls=True, enum=False, v1=self.value(), v2=self.value(False) if cls_v2 else None))
        L["rules"] = rules
        return bool(rules)

    def g_cursive(self, L, nested):
        if nested:
            return False
        r = self.r
        pool = self.usable(L["flag"], self.NM)
        if len(pool) < 2:
            return False
        used = set()
        for _ in range(r.randint(1, 3)):
            p2 = [g for g in pool if g not in used]
            if not p2:
                break
            s = self.gset(p2, 1, 3)
            used.update(s["g"])
            en, ex = self.anchor(True, 0.25), self.anchor(True, 0.25)
            if en is None and ex is None:
                ex = self.anchor(False)
            L["rules"].append(dict(s=s, entry=en, exit=ex))
        return True

    def _markparts(self):
        r = self.r
        mcs = [n for n, _ in self.P["markclasses"]]
        return [[self.anchor(False), mc] for mc in r.sample(mcs, r.randint(1, min(2, len(mcs))))]

    def g_markbase(self, L, nested):
        r = self.r
        pool = list(self.NM)
        used = set()
        for _ in range(r.randint(1, 2)):
            p2 = [g for g in pool if g not in used]
            if not p2:
                break
            s = self.gset(p2, 1, 3)
            if not s["g"]:
                break
            used.update(s["g"])
            L["rules"].append(dict(s=s, marks=self._markparts()))
        return bool(L["rules"])

    def g_markmark(self, L, nested):
        r = self.r
        pool = list(self.MK)
        used = set()
        for _ in range(r.randint(1, 2)):
            p2 = [g for g in pool if g not in used]
            if not p2:
                break
            s = self.gset(p2, 1, 3, named=False)
            used.update(s["g"])
            L["rules"].append(dict(s=s, marks=self._markparts()))
        return True

    def g_marklig(self, L, nested):
        r = self.r
        pool = list(self.LIG + self.LET[:2])
        used = set()
        for _ in range(r.randint(1, 2)):
            p2 = [g for g in pool if g not in used]
            if not p2:
                break
            s = self.gset(p2, 1, 2, named=False)
            if not s["g"]:
                break
            used.update(s["g"])
            comps = []
            for _c in range(r.randint(1, 3)):
                comps.append(self._markparts() if r.random() < 0.8 else [])
            if not any(comps):
                comps[-1] = self._markparts()
            L["rules"].append(dict(s=s, comps=comps))
        return True

    def g_cpos(self, L, nested):
        if nested:
            return False
        r = self.r
        flag = L["flag"]
        pool = self.usable(flag, self.NM + self.MK)
        if len(pool) < 3:
            return False
        refs = self._refs("GPOS", ("spos", "pair", "markbase"))
        mode, mk = self.set_factory(pool)
        L["style"] = mode
        for _ in range(r.randint(1, 3) if mode != "classes" else r.randint(5, 12)):
            kind = r.choice(["value", "value", "ref", "ref", "ignore"])
            if kind == "ref" and not refs:
                kind = "value"
            if L["rules"] and r.random() < 0.3:
                pre = [dict(x) for x in L["rules"][-1]["pre"]]
                suf = [dict(x) for x in L["rules"][-1]["suf"]]
            else:
                pre = [mk() for _ in range(r.randint(0, 2))]
                suf = [mk() for _ in range(r.randint(0, 2))]
            if not pre and not suf and r.random() < 0.8:
                (pre if r.random() < 0.5 else suf).append(mk())
            n = r.randint(1, 3)
            inp = [dict(s=mk(), lk=[], v=None) for _ in range(n)]
            rule = dict(pre=pre, suf=suf, inp=inp, ignore=False)
            if kind == "value":
                for pos in r.sample(range(n), r.randint(1, n)):
                    inp[pos]["v"] = self.value()
            elif kind == "ref":
                for pos in r.sample(range(n), r.randint(1, n)):
                    for l in r.sample(refs, min(len(refs), r.choice([1, 1, 2]))):
                        if l["type"] == "markbase" and not any(self.cls.get(g) == 3 for g in inp[pos]["s"]["g"]):
                            continue
                        inp[pos]["lk"].append(l["name"])
                if not any(x["lk"] for x in inp):
                    inp[0]["v"] = self.value()
            else:
                if n > 1 and not pre and not suf and EXCLUDE_F2:
                    self.exclude("ignore-pos-rule-with-several-marked-glyphs-and-no-context (finding F2)")
                    del inp[1:]
                rule["ignore"] = True
            L["rules"].append(rule)
        if all(x["ignore"] for x in L["rules"]):
            L["rules"].append(dict(pre=[], suf=[mk()], ignore=False, inp=[dict(s=mk(), lk=[], v=self.value())]))
        return True

    # -- program -----------------------------------------------------------------
    def program(self):
        r = self.r
        self.setup()
        P = self.P
        self.defined = []  # lookups defined so far (file order)
        nfeat = r.randint(2, 4)
        tables = [r.choice(["GSUB", "GPOS"]) for _ in range(nfeat)]
        if r.random() < 0.7:
            tables[0] = "GSUB"
            tables[-1] = "GPOS"
        gs = r.sample(GSUB_TAGS, nfeat)
        gp = r.sample(GPOS_TAGS, nfeat)
        # standalone lookups first (contextual rules reference them)
        for _ in range(r.randint(0, 3)):
            table = r.choice(tables)
            t = r.choice(["single", "single", "alternate", "ligature", "multiple", "reverse"] if table == "GSUB" else ["spos", "pair", "markbase", "spos", "markmark", "cursive"])
            self.add_top_lookup(table, t)
        for i in range(nfeat):
            if r.random() < 0.25:
                self.add_top_lookup(tables[i], None)
            P["top"].append(self.feature(tables[i], gs[i] if tables[i] == "GSUB" else gp[i]))
        return P

    def add_top_lookup(self, table, ltype):
        L = self.lookup(table, ltype, name=self.name(), nested=False)
        self.register(L)
        self.P["top"].append(dict(k="lookup", lookup=L))

    def register(self, L):
        L["id"] = self.next_id
        self.next_id += 1
        self.defined.append(L)

    def feature(self, table, tag):
        r = self.r
        items = []
        sections = [None]
        declared = {}
        for s, l in self.P["langsys"]:
            declared.setdefault(s, [])
            if l != "dflt":
                declared[s].append(l)
        scripts = [s for s in declared if s != "DFLT"]
        if scripts and r.random() < 0.4:
            for s in r.sample(scripts, r.randint(1, len(scripts))):
                sections.append(("script", s))
                langs = list(declared[s])
                if r.random() < 0.3:
                    extra = [l for l in LANGS if l not in langs]
                    langs.append(r.choice(extra))
                for l in r.sample(langs, r.randint(0, len(langs))):
                    sections.append(("language", l, r.random() < 0.7))
        prev = None  # previous anonymous lookup (for merge avoidance)
        chain = 0
        has_cursive = False
        for sec in sections:
            if sec is not None:
                if sec[0] == "script":
                    items.append(dict(k="script", tag=sec[1]))
                else:
                    items.append(dict(k="language", tag=sec[1], dflt=sec[2]))
                prev = None
            n = r.randint(1, 3) if sec is None else r.randint(0, 2)
            if sec is None and len(sections) > 1 and r.random() < 0.3:
                n = 0
            for _ in range(n):
                x = r.random()
                named = [l for l in self.defined if l["table"] == table and l["name"] and not (l["type"] == "cursive" and has_cursive)]
                if x < 0.2 and named:
                    l = r.choice(named)
                    items.append(dict(k="ref", name=l["name"]))
                    has_cursive = has_cursive or l["type"] == "cursive"
                    prev = None
                    continue
                types = GSUB_TYPES if table == "GSUB" else GPOS_TYPES
                t = r.choice(types)
                if t == "cursive" and has_cursive:
                    t = "spos"
                if prev is not None and prev["type"] in ANYSUBST and chain == 0 and flag_is_zero(prev["flag"]) and r.random() < 0.35:
                    # deliberately write a neighbour that feaLib folds into the same lookup (single + multiple/ligature)
                    t2 = r.choice(["ligature", "multiple"]) if prev["type"] == "single" else "single"
                    done = False
                    for _try in range(6):
                        try:
                            cand = self.lookup(table, t2, force_flag=zero_flag())
                        except RuntimeError:
                            break
                        if not flag_is_zero(cand["flag"]):
                            continue
                        i1, o1 = _io_sets(prev)
                        i2, o2 = _io_sets(cand)
                        if not (i1 & i2) and not (o1 & i2):
                            cand["merge"] = True
                            self.register(cand)
                            items.append(dict(k="anon", lookup=cand))
                            prev = cand
                            chain = 1
                            done = True
                            break
                    if done:
                        continue
                if x < 0.45:
                    L = self.lookup(table, t, name=self.name())
                    self.register(L)
                    items.append(dict(k="block", lookup=L))
                    prev = None
                else:
                    L = self.lookup(table, t)
                    L = self.avoid_merge(prev, L, table, chain)
                    if L is None:
                        continue
                    chain = chain + 1 if (prev is not None and prev["type"] in ANYSUBST and L["type"] in ANYSUBST and prev["flag"] == L["flag"]) else 0
                    self.register(L)
                    items.append(dict(k="anon", lookup=L))
                    prev = L
                has_cursive = has_cursive or L["type"] == "cursive"
        if not any(it["k"] in ("anon", "block", "ref") for it in items):
            L = self.lookup(table, "single" if table == "GSUB" else "spos")
            self.register(L)
            items.insert(0, dict(k="anon", lookup=L))
        return dict(k="feature", tag=tag, table=table, items=items)

    def avoid_merge(self, prev, L, table, chain):
        """feaLib (like makeotf) continues the current lookup when the next rule has the same type and flag;
        it additionally folds single substitutions into a neighbouring multiple/ligature lookup.  Two adjacent
        anonymous groups are only emitted when that cannot change the meaning."""
        if prev is None or prev["flag"] != L["flag"]:
            return L
        pt, lt = prev["type"], L["type"]
        if pt == lt:
            # same type, same flag: it would be the same lookup; make the flag differ instead
            alt = self.flag(table, lt)
            if alt == prev["flag"]:
                return None
            try:
                L2 = self.lookup(table, lt, force_flag=alt)
            except RuntimeError:
                return None
            return L2 if L2["flag"] != prev["flag"] else None
        if pt in ANYSUBST and lt in ANYSUBST and "single" in (pt, lt):
            i1, o1 = _io_sets(prev)
            i2, o2 = _io_sets(L)
            if chain == 0 and flag_is_zero(L["flag"]) and not (i1 & i2) and not (o1 & i2):
                L["merge"] = True  # feaLib folds this group into the previous lookup
                return L
            self.exclude("adjacent-single-and-multiple/ligature-rules-that-would-merge-with-different-meaning")
            return None
        return L


def _io_sets(L):
    i, o = set(), set()
    for rule in L["rules"]:
        if L["type"] == "single":
            i.update(rule["s"]["g"])
            o.update(rule["o"]["g"])
        elif L["type"] == "multiple":
            i.add(rule["s"])
            o.update(rule["o"])
        else:
            for c in rule["s"]:
                i.update(c["g"])
            o.add(rule["o"])
    return i, o


def _product(lists):
    out = [()]
    for l in lists:
        out = [p + (g,) for p in out for g in l]
    return out


def _is_prefix(a, b):
    return len(a) < len(b) and tuple(b[: len(a)]) == tuple(a)


def gen_program(seed, excl=None):
    return Gen(random.Random(seed), excl).program()


# ---------------------------------------------------------------------------
# printer


class Printer:
    def __init__(self, program):
        self.P = program
        self.r = random.Random(program["style"])
        self.out = []

    def kw(self, *alts):
        return self.r.choice(alts)

    def gs(self, s, force=False):
        if s.get("n"):
            return "@" + s["n"]
        g = s["g"]
        if len(g) == 1 and not s.get("b") and not force:
            return g[0]
        nest = s.get("nest")
        if nest:
            i, n = nest
            gl = dict(self.P["classes"]).get(n)
            if gl and list(g[i : i + len(gl)]) == list(gl):  # still intact (some rules trim their sets afterwards)
                toks = _ranges(g[:i], self.r) + ["@" + n] + _ranges(g[i + len(gl) :], self.r)
                self.nested_class_refs = getattr(self, "nested_class_refs", 0) + 1
                return "[" + " ".join(toks) + "]"
        return "[" + " ".join(_ranges(g, self.r)) + "]"

    def anchor(self, a):
        if a is None:
            return "<anchor NULL>"
        if a.get("n"):
            return "<anchor %s>" % a["n"]
        return "<anchor %d %d>" % (a["x"], a["y"])

    def value(self, v):
        if v["f"] == "num":
            return "%d" % v["v"][2]
        if v["f"] == "ref":
            return "<%s>" % v["n"]
        return "<%d %d %d %d>" % tuple(v["v"])

    def flag(self, f):
        if flag_is_zero(f):
            return "lookupflag 0;"
        parts = []
        for k, w in (("rtl", "RightToLeft"), ("ib", "IgnoreBaseGlyphs"), ("il", "IgnoreLigatures"), ("im", "IgnoreMarks")):
            if f[k]:
                parts.append(w)
        if f["mat"]:
            parts.append("MarkAttachmentType @%s" % f["mat"])
        if f["mfs"]:
            parts.append("UseMarkFilteringSet @%s" % f["mfs"])
        if self.r.random() < 0.3:
            self.r.shuffle(parts)
        if not f["mat"] and not f["mfs"] and self.r.random() < 0.2:
            return "lookupflag %d;" % (1 * f["rtl"] + 2 * f["ib"] + 4 * f["il"] + 8 * f["im"])
        return "lookupflag %s;" % " ".join(parts)

    def ctx(self, sets):
        return "".join(self.gs(s) + " " for s in sets)

    def rules(self, L, ind):
        w = lambda s: self.out.append(ind + s)
        t = L["type"]
        sub = lambda: self.kw("sub", "sub", "substitute")
        pos = lambda: self.kw("pos", "pos", "position")
        for rule in L["rules"]:
            if t == "single":
                s, o = rule["s"], rule["o"]
                if len(s["g"]) == 1 and not s.get("n") and not s.get("b"):
                    w("%s %s by %s;" % (sub(), s["g"][0], o["g"][0]))
                else:
                    w("%s %s by %s;" % (sub(), self.gs(s, True), o["g"][0] if len(o["g"]) == 1 and len(s["g"]) > 1 else self.gs(o, True)))
            elif t == "multiple":
                w("%s %s by %s;" % (sub(), rule["s"], " ".join(rule["o"])))
            elif t == "alternate":
                w("%s %s from %s;" % (sub(), rule["s"], self.gs(rule["o"], True)))
            elif t == "ligature":
                w("%s %s by %s;" % (sub(), " ".join(self.gs(c) for c in rule["s"]), rule["o"]))
            elif t == "context":
                self.ctxrule(rule, ind, "sub")
            elif t == "reverse":
                s, o = rule["s"], rule["o"]
                tgt = o["g"][0] if len(o["g"]) == 1 and (len(s["g"]) > 1 or not (s.get("n") or s.get("b"))) else self.gs(o, True)
                w("%s %s%s' %sby %s;" % (self.kw("rsub", "reversesub"), self.ctx(rule["pre"]), self.gs(s), self.ctx(rule["suf"]), tgt))
            elif t == "spos":
                w("%s %s %s;" % (pos(), self.gs(rule["s"]), self.value(rule["v"])))
            elif t == "pair":
                a, b = rule["a"], rule["b"]
                pre = self.kw("enum ", "enumerate ") if rule["enum"] else ""
                ga = self.gs(a, rule["enum"] and len(a["g"]) == 1)
                gb = self.gs(b)
                if rule["v2"] is not None:
                    w("%s%s %s %s %s %s;" % (pre, pos(), ga, self.value(rule["v1"]), gb, self.value(rule["v2"])))
                elif self.r.random() < 0.25:
                    w("%s%s %s %s %s <NULL>;" % (pre, pos(), ga, self.value(rule["v1"]), gb))
                else:
                    w("%s%s %s %s %s;" % (pre, pos(), ga, gb, self.value(rule["v1"])))
            elif t == "cursive":
                w("%s cursive %s %s %s;" % (pos(), self.gs(rule["s"]), self.anchor(rule["entry"]), self.anchor(rule["exit"])))
            elif t in ("markbase", "markmark"):
                word = "base" if t == "markbase" else "mark"
                parts = " ".join("%s mark @%s" % (self.anchor(a), mc) for a, mc in rule["marks"])
                w("%s %s %s %s;" % (pos(), word, self.gs(rule["s"]), parts))
            elif t == "marklig":
                comps = []
                for comp in rule["comps"]:
                    if comp:
                        comps.append(" ".join("%s mark @%s" % (self.anchor(a), mc) for a, mc in comp))
                    else:
                        comps.append("<anchor NULL>")
                w("%s ligature %s %s;" % (pos(), self.gs(rule["s"]), (" ligComponent ").join(comps)))
            elif t == "cpos":
                self.ctxrule(rule, ind, "pos")
            else:
                raise ValueError(t)

    def ctxrule(self, rule, ind, word):
        w = lambda s: self.out.append(ind + s)
        word = {"sub": self.kw("sub", "substitute"), "pos": self.kw("pos", "position")}[word]
        if rule["ignore"]:
            w("ignore %s %s%s%s;" % (word, self.ctx(rule["pre"]), " ".join(self.gs(x["s"]) + "'" for x in rule["inp"]), (" " + self.ctx(rule["suf"]).rstrip()) if rule["suf"] else ""))
            return
        mid = []
        for x in rule["inp"]:
            s = self.gs(x["s"]) + "'"
            for n in x["lk"]:
                s += " lookup %s" % n
            if x.get("v") is not None:
                s += " " + self.value(x["v"])
            mid.append(s)
        tail = ""
        inl = rule.get("inline")
        if inl:
            if inl["k"] == "single":
                s = rule["inp"][0]["s"]
                o = inl["o"]
                if len(o["g"]) == 1 and (len(s["g"]) > 1 or not (s.get("n") or s.get("b"))):
                    tail = " by %s" % o["g"][0]
                else:
                    tail = " by %s" % self.gs(o, True)
            elif inl["k"] == "multiple":
                tail = " by %s" % " ".join(inl["o"])
            elif inl["k"] == "ligature":
                tail = " by %s" % inl["o"]
            elif inl["k"] == "alternate":
                tail = " from %s" % self.gs(inl["o"], True)
        w("%s %s%s%s%s;" % (word, self.ctx(rule["pre"]), " ".join(mid), (" " + self.ctx(rule["suf"]).rstrip()) if rule["suf"] else "", tail))

    def lookup_block(self, L, ind, cur_flag):
        """cur_flag: flag in force before the block (None = unknown)."""
        w = lambda s: self.out.append(ind + s)
        w("lookup %s %s{" % (L["name"], "useExtension " if L.get("ext") else ""))
        if cur_flag is None or cur_flag != L["flag"] or self.r.random() < 0.15:
            w("  " + self.flag(L["flag"]))
        self.rules(L, ind + "  ")
        w("} %s;" % L["name"])

    def text(self):
        P = self.P
        w = self.out.append
        if self.r.random() < 0.3:
            w("# generated by vf.gen_fea")
        for s, l in P["langsys"]:
            w("languagesystem %s %s;" % (s, l.strip()))
        for n, gl in P["classes"]:
            w("@%s = [%s];" % (n, " ".join(_ranges(gl, self.r))))
        for n, x, y in P["anchordefs"]:
            w("anchorDef %d %d %s;" % (x, y, n))
        for n, v in P["valuedefs"]:
            w("valueRecordDef <%d %d %d %d> %s;" % (tuple(v) + (n,)))
        for n, defs in P["markclasses"]:
            for gl, a in defs:
                w("markClass %s %s @%s;" % (self.gs(dict(g=gl, n=None, b=False)), self.anchor(a), n))
        g = P["gdef"]
        part = lambda k: ("[" + " ".join(_ranges(g[k], self.r)) + "]") if g[k] else ""
        w("table GDEF {")
        w("  GlyphClassDef %s, %s, %s, %s;" % (part("base"), part("lig"), part("mark"), part("comp")))
        w("} GDEF;")
        for t in P["top"]:
            if t["k"] == "lookup":
                self.lookup_block(t["lookup"], "", zero_flag())
                continue
            w("feature %s {" % t["tag"])
            cur = zero_flag()
            for it in t["items"]:
                if it["k"] == "script":
                    w("  script %s;" % it["tag"])
                    cur = None
                elif it["k"] == "language":
                    w("  language %s%s;" % (it["tag"].strip(), "" if it["dflt"] and self.r.random() < 0.7 else (" include_dflt" if it["dflt"] else " exclude_dflt")))
                    cur = None
                elif it["k"] == "ref":
                    w("  lookup %s;" % it["name"])
                elif it["k"] == "block":
                    self.lookup_block(it["lookup"], "  ", cur)
                    cur = None
                else:
                    L = it["lookup"]
                    if cur is None or cur != L["flag"]:
                        w("  " + self.flag(L["flag"]))
                        cur = L["flag"]
                    self.rules(L, "  ")
            w("} %s;" % t["tag"])
        return "\n".join(self.out) + "\n"


def _ranges(glyphs, rnd):
    """Glyph list as tokens; runs of consecutive single lowercase letters are sometimes written a-d."""
    out = []
    i = 0
    n = len(glyphs)
    while i < n:
        j = i
        while j + 1 < n and len(glyphs[j]) == 1 and len(glyphs[j + 1]) == 1 and glyphs[j].islower() and glyphs[j + 1].islower() and ord(glyphs[j + 1]) == ord(glyphs[j]) + 1:
            j += 1
        if j - i >= 2 and rnd.random() < 0.5:
            out.append("%s-%s" % (glyphs[i], glyphs[j]))
            i = j + 1
        else:
            out.append(glyphs[i])
            i += 1
    return out


def print_program(program):
    return Printer(program).text()
