NOT_YET = {}
reg("C15", "exploration",
    "Exhaustive enumeration of the small domains (all F2Dot14, all 255UShort, T2/CFF/T1 integer ranges, all eexec keys, all uni/u glyph names; all well-formed 4-char tags in the thorough tier) plus seeded generation over the large ones, each value checked by decode(encode(v))==v, by the canonical-size rule of the format and by an independent reference decoder.",
    "Reference decoders written from the CFF/Type 2, WOFF2, gvar and Type 1 specifications are trusted; large domains (16.16, reals, base128, point sets, delta runs) are sampled, not exhausted.",
    "exhaustive enumeration + property-based round-trip with independent reference decoders", "DESIGN.md section 2 C15")
