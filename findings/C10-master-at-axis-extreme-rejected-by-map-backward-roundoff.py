"""designspaceLib.AxisDescriptor.map_backward is not exact at the points of the axis map: it evaluates
user1 + (user2 - user1) * (v - design1) / (design2 - design1) (and v + user0 - design0 below the first point) in floating point, so for
v equal to a mapped design value the result can be one ulp off the mapped user value. varLib.load_designspace (used by varLib.build)
compares that result with axis.minimum/maximum and rejects a master standing exactly on the axis maximum (or minimum) as
"out-of-range". Input: axis wght 100/400/1000 with <map> 100->20, 400->154.4, 1000->212 and a master at design 212 (the mapped image of
the maximum): map_backward(212) is 1000.0000000000001 instead of 1000 and the designspace cannot be built; likewise axis wdth
62.5/100/125 with map 62.5->34.57, 100->81.2, 125->190 and a master at 34.57: 62.49999999999999 instead of 62.5."""


def reproduce():
    from fontTools import varLib
    from fontTools.designspaceLib import AxisDescriptor, DesignSpaceDocument, SourceDescriptor
    from fontTools.varLib.errors import VarLibValidationError

    out = []
    cases = [
        ("wght", "Weight", (100, 400, 1000), [(100, 20), (400, 154.4), (1000, 212)]),
        ("wdth", "Width", (62.5, 100, 125), [(62.5, 34.57), (100, 81.2), (125, 190)]),
    ]
    for tag, name, (lo, de, hi), amap in cases:
        axis = AxisDescriptor(tag=tag, name=name, minimum=lo, default=de, maximum=hi, map=list(amap))
        # expectation: the map itself (user u <-> design d), no arithmetic involved
        bad = [(d, u, axis.map_backward(d)) for u, d in amap if axis.map_backward(d) != u]
        doc = DesignSpaceDocument()
        doc.addAxis(axis)
        for i, (u, d) in enumerate(amap):
            doc.addSource(SourceDescriptor(filename="m%d.ttf" % i, name="m%d" % i, familyName="W", styleName="m%d" % i, location={name: d}))
        rejected = None
        try:
            varLib.load_designspace(doc)
        except VarLibValidationError as e:
            if "out-of-range" in str(e):
                rejected = str(e)[:95] + "..."
        if bad or rejected:
            d, u, got = bad[0] if bad else (None, None, None)
            out.append("axis %s %r map %r: map_backward(%r) = %r instead of %r%s" % (
                tag, (lo, de, hi), amap, d, got, u, "; load_designspace rejects the master on that map point: " + rejected if rejected else ""))
    return "; ".join(out) or None
