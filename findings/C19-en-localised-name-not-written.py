"""designspaceLib: the 'en' entry of SourceDescriptor.localisedFamilyName and of InstanceDescriptor.localisedFamilyName /
localisedStyleName / localisedStyleMapFamilyName / localisedStyleMapStyleName is never written (the writer skips the code
'en' as "already stored in the element attribute", but the attribute is written from the separate field familyName /
styleName / ..., which may be None or different, and the reader never fills the 'en' entry from the attribute). 'en' is
the default language of setFamilyName()/setStyleName(), so instance.setStyleName("Demi") is silently lost.
Expected: fromstring(tostring(doc)) returns the same localised dictionaries; observed: the 'en' keys are gone."""


def reproduce():
    from fontTools.designspaceLib import DesignSpaceDocument

    doc = DesignSpaceDocument()
    doc.addAxisDescriptor(name="Weight", tag="wght", minimum=100, default=400, maximum=900)
    src = doc.addSourceDescriptor(name="m", filename="m.ufo", designLocation={"Weight": 400})
    src.setFamilyName("Famille", "fr")
    src.setFamilyName("Family")  # languageCode defaults to "en"
    inst = doc.addInstanceDescriptor(name="i", designLocation={"Weight": 400})
    inst.setFamilyName("Family")
    inst.setStyleName("Demi")
    inst.setStyleName("Demigras", "fr")
    inst.setStyleMapFamilyName("Family Demi")
    inst.setStyleMapStyleName("regular")
    expected = {
        "source.localisedFamilyName": {"en": "Family", "fr": "Famille"},
        "instance.localisedFamilyName": {"en": "Family"},
        "instance.localisedStyleName": {"en": "Demi", "fr": "Demigras"},
        "instance.localisedStyleMapFamilyName": {"en": "Family Demi"},
        "instance.localisedStyleMapStyleName": {"en": "regular"},
    }
    doc2 = DesignSpaceDocument.fromstring(doc.tostring())
    got = {"source.localisedFamilyName": dict(doc2.sources[0].localisedFamilyName)}
    for k in ("localisedFamilyName", "localisedStyleName", "localisedStyleMapFamilyName", "localisedStyleMapStyleName"):
        got["instance." + k] = dict(getattr(doc2.instances[0], k))
    out = ["%s written as %r, read back as %r" % (k, expected[k], got[k]) for k in expected if got[k] != expected[k]]
    return "; ".join(out) or None
