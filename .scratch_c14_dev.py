import sys, time, json
sys.path.insert(0, "/verif")
from vf import runner
runner.bootstrap()
from props import c14
gen, kind, mode, n, seed = sys.argv[1], sys.argv[2], sys.argv[3], int(sys.argv[4]), int(sys.argv[5])
t0=time.time()
acc = c14.run_job(dict(gen=gen, kind=kind, mode=mode, name="x", n=n, seed=seed))
print("evals", acc.evals, "nontrivial", len(acc.nontrivial), "time %.1f" % (time.time() - t0))
for k, v in acc._bucket_counts.items(): print("BUCKET", v, k)
seen=set()
for f in acc.failures:
    key=(f["clause"],f["kind"],f["where"])
    if key in seen: continue
    seen.add(key)
    g = c14.shrink(f, "%s|%s|%s"%key, "quick", 1, budget_s=15) or f
    print("FAIL", key, g["detail"][:500]); print("   case", json.dumps(g["case"])[:900])
