"""Rounding-budget model for property C08 (instancing preserves the remaining design space).

Everything here reads the ORIGINAL variable font (through the fontTools object model, i.e. the
table readers, never the instancer) and answers: by how much may a value of the instanced
font legitimately differ from the original's value at the corresponding location?

Model (derived from the data formats, not from the instancer's code path):

* the instance stores integers: one rounding (<= 0.5) for the deltas that were folded into
  the default value, and one rounding (<= 0.5, weighted by a scalar <= 1) for each variation
  (tuple variation / VarStore region) of the original that still *contributes* at the sampled
  location.  A variation contributes when every axis it uses has a non-zero scalar at the
  sampled coordinate or - for a restricted axis - at the new default coordinate (the share of
  the variation folded into the new default has to be cancelled by variations that are active
  wherever the remaining factors are), and at least one of its axes is not pinned.  A variation
  over several axes of which k are restricted splits into up to 2^k separately rounded groups
  (see Situation.contributes).
* normalised coordinates and region coordinates are stored as F2Dot14: the original at user
  value u and the instance at user value u evaluate at old-space coordinates that differ by a
  few 1/16384, more through a steep avar segment.  The effect is bounded by
  sum(|delta| * slope of the tent) * eps(axis).

No instancer code is used; the tent function is the OpenType one, written out here.
"""

F2DOT14 = 1.0 / 16384.0
EDGE = 2.5 * F2DOT14  # "non-zero scalar" is decided with this much slack on the tent's support


def tent_near_support(v, lo, peak, hi, slack=EDGE):
    """True unless the per-axis scalar of tent (lo, peak, hi) is certainly 0 within `slack` of v."""
    if peak == 0:
        return True
    if lo > peak or peak > hi:
        return True  # malformed: axis ignored by the OpenType algorithm
    if lo < 0 < hi:
        return True
    return lo - slack <= v <= hi + slack


def tent_is_malformed(axes):
    for lo, peak, hi in axes.values():
        if peak == 0:
            continue
        if lo > peak or peak > hi or (lo < 0 < hi):
            return True
    return False


def tent_slope(lo, peak, hi):
    """Largest |d scalar / d coordinate| of a well-formed tent; a zero-width side that is not at
    the end of the axis counts as a jump (returned as None)."""
    s = 0.0
    jump = False
    if peak > lo:
        s = max(s, 1.0 / (peak - lo))
    elif abs(peak) < 1.0 and peak != 0:
        jump = True
    if hi > peak:
        s = max(s, 1.0 / (hi - peak))
    elif abs(peak) < 1.0 and peak != 0:
        jump = True
    return None if jump else s


class Situation:
    """One (limits, sampled location) pair expressed in the original's normalised space."""

    def __init__(self, axis_tags, Lnorm, Dnorm, limited, pinned, eps):
        self.tags = axis_tags
        self.L = Lnorm  # tag -> normalised coordinate of the sampled full location
        self.D = Dnorm  # tag -> normalised coordinate of the new default (full location)
        self.limited = limited  # tags with any limit (pin, drop, range)
        self.pinned = pinned  # tags pinned or dropped
        self.eps = eps  # tag -> coordinate uncertainty in old normalised units

    def contributes(self, axes):
        """axes: tag -> (lo, peak, hi).  -> (units, quantisation factor sum(slope*eps)).

        units = number of separately rounded variations of the instance that stem from this variation
        and can be active at the sampled location.  Instancing rewrites the variation axis by axis:
        an untouched axis keeps its tent; a pinned axis turns into a constant factor; a restricted
        axis a turns into [a constant share g_a = scalar at the new default, if non-zero] + [tents on the
        new axis whose scalars sum to <= 1 at any point, present where the old tent is non-zero or where
        the constant share has to be cancelled].  The product over the axes gives up to 2^k groups
        (k restricted axes), each rounded on its own and weighted by <= 1; the group made of constant
        shares only is folded into the default value when no untouched axis is left (that rounding is
        the budget's leading 0.5)."""
        units = 1
        q = 0.0
        untouched = False
        all_gain = True
        for tag, (lo, peak, hi) in axes.items():
            if peak == 0:
                continue
            atL = tent_near_support(self.L.get(tag, 0.0), lo, peak, hi)
            if tag in self.pinned:
                if not atL:
                    return 0, 0.0
            elif tag in self.limited:
                g = 1 if tent_near_support(self.D.get(tag, 0.0), lo, peak, hi) else 0
                p = 1 if (atL or g) else 0
                if g + p == 0:
                    return 0, 0.0
                units *= g + p
                if not g:
                    all_gain = False
            else:
                untouched = True
                if not atL:
                    return 0, 0.0
            sl = tent_slope(lo, peak, hi)
            if sl is None:
                q = float("inf")
            else:
                q += sl * self.eps.get(tag, 4 * F2DOT14)
        if all_gain and not untouched:
            units -= 1
        return units, q


def count_budget(situation, variations, per_round=0.5, per_var=0.5):
    """variations: iterable of (axes, maxabs delta).  -> (budget, number of rounding units)."""
    n = 0
    q = 0.0
    for axes, maxabs in variations:
        if not maxabs:
            continue
        units, qf = situation.contributes(axes)
        if not units and not qf:
            continue
        n += units
        if qf == float("inf"):
            q += maxabs
        else:
            q += maxabs * qf
    return per_round + per_var * n + q, n


# ---------------------------------------------------------------------------
# data extraction from the original font


def region_axes(region, axis_tags):
    out = {}
    for tag, ra in zip(axis_tags, region.VarRegionAxis):
        if ra.PeakCoord != 0:
            out[tag] = (ra.StartCoord, ra.PeakCoord, ra.EndCoord)
    return out


class StoreModel:
    """ItemVariationStore of the original: regions as tag->tent dicts, items as delta rows."""

    def __init__(self, store, axis_tags):
        self.regions = [region_axes(r, axis_tags) for r in store.VarRegionList.Region]
        self.vardata = []
        for vd in store.VarData:
            self.vardata.append((list(vd.VarRegionIndex), [list(row) for row in vd.Item]))
        self.malformed = any(tent_is_malformed(r) for r in self.regions)

    def item_variations(self, varidx):
        """-> list of (axes, |delta|) for one VariationIndex (empty if out of range / none)."""
        if varidx is None or varidx == 0xFFFFFFFF:
            return []
        outer, inner = varidx >> 16, varidx & 0xFFFF
        if outer >= len(self.vardata):
            return []
        ris, items = self.vardata[outer]
        if inner >= len(items):
            return []
        return [(self.regions[ri], abs(d)) for ri, d in zip(ris, items[inner]) if d]

    def all_variations(self):
        """-> list of (axes, max |delta| over every item) per region that is used at all."""
        best = {}
        for ris, items in self.vardata:
            for row in items:
                for ri, d in zip(ris, row):
                    if d:
                        best[ri] = max(best.get(ri, 0), abs(d))
        return [(self.regions[ri], m) for ri, m in sorted(best.items())]


def gvar_variations(gvar, name):
    """-> list of (axes, max |delta| over the explicit deltas) of one glyph."""
    out = []
    for tv in gvar.variations.get(name) or []:
        m = 0
        for c in tv.coordinates:
            if c is None:
                continue
            m = max(m, abs(c[0]), abs(c[1]))
        out.append((dict(tv.axes), m))
    return out


def cff2_glyph_blends(charstring, num_regions_of, default_vsindex):
    """Walk a CFF2 charstring program (no subroutine calls expected after desubroutinising by the
    caller; callsubr/callgsubr make the result None).
    -> (vsindex used, number of blended operands, per-region sum |delta|, per-region max |delta|)"""
    vsindex = default_vsindex
    nblend = 0
    sums = {}
    maxs = {}
    stack = []
    for tok in charstring.program:
        if isinstance(tok, str):
            if tok in ("callsubr", "callgsubr"):
                return None
            if tok == "vsindex":
                vsindex = int(stack[-1])
                stack = []
            elif tok == "blend":
                n = int(stack[-1])
                R = num_regions_of(vsindex)
                deltas = stack[len(stack) - 1 - n * R : len(stack) - 1]
                for j in range(n):
                    for k in range(R):
                        d = abs(deltas[j * R + k])
                        if d:
                            sums[k] = sums.get(k, 0) + d
                            maxs[k] = max(maxs.get(k, 0), d)
                nblend += n
                stack = stack[: len(stack) - 1 - n * R]
            else:
                stack = []
        else:
            stack.append(tok)
    return vsindex, nblend, sums, maxs


# ---------------------------------------------------------------------------
# evaluation (OpenType tent function, written out; used for the phantom-point advance model)


def tent_scalar(v, lo, peak, hi):
    if peak == 0:
        return 1.0
    if lo > peak or peak > hi:
        return 1.0
    if lo < 0 < hi:
        return 1.0
    if v < lo or v > hi:
        return 0.0
    if v == peak:
        return 1.0
    if v < peak:
        return (v - lo) / (peak - lo)
    return (hi - v) / (hi - peak)


def region_scalar(axes, loc):
    s = 1.0
    for tag, (lo, peak, hi) in axes.items():
        s *= tent_scalar(loc.get(tag, 0.0), lo, peak, hi)
        if s == 0.0:
            return 0.0
    return s


def gvar_phantom_deltas(gvar, name):
    """-> list of (axes, d advance width, d advance height) from the four phantom points of a glyph's
    own tuple variations (phantom points get no inferred deltas: unreferenced = 0)."""
    out = []
    for tv in gvar.variations.get(name) or []:
        c = tv.coordinates
        if len(c) < 4:
            continue
        g = lambda p, k: (p[k] if p is not None else 0)
        dw = g(c[-3], 0) - g(c[-4], 0)
        dh = g(c[-2], 1) - g(c[-1], 1)
        out.append((dict(tv.axes), dw, dh))
    return out
