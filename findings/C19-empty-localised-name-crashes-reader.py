"""designspaceLib: a localised name whose text is the empty string is written as an empty element
(<labelname xml:lang="fr"></labelname>) and the reader then raises AttributeError ('NoneType' object has no attribute
'decode': tostr(element.text) with text None) instead of returning ''. Affects the axis <labelname> and the localised
<familyname>/<stylename>/<stylemapfamilyname>/<stylemapstylename> of sources and instances; the readers of axis-label
and location-label <labelname> use `text or ""` and are fine. Expected: fromstring(tostring(doc)) returns {'fr': ''}."""


def reproduce():
    from fontTools.designspaceLib import DesignSpaceDocument

    def base():
        doc = DesignSpaceDocument()
        doc.addAxisDescriptor(name="Weight", tag="wght", minimum=100, default=400, maximum=900)
        return doc

    out = []

    doc = base()
    doc.axes[0].labelNames = {"fr": ""}
    try:
        got = DesignSpaceDocument.fromstring(doc.tostring()).axes[0].labelNames
        if got != {"fr": ""}:
            out.append("axis labelNames {'fr': ''} read back as %r" % (got,))
    except AttributeError as e:
        out.append("axis labelNames {'fr': ''}: fromstring(tostring()) raises AttributeError: %s" % e)

    doc = base()
    doc.addInstanceDescriptor(name="i", familyName="F", styleName="S", designLocation={"Weight": 400}, localisedStyleName={"fr": ""})
    try:
        got = DesignSpaceDocument.fromstring(doc.tostring()).instances[0].localisedStyleName
        if got != {"fr": ""}:
            out.append("instance localisedStyleName {'fr': ''} read back as %r" % (got,))
    except AttributeError as e:
        out.append("instance localisedStyleName {'fr': ''}: fromstring(tostring()) raises AttributeError: %s" % e)
    return "; ".join(out) or None
