#!/bin/bash
# tools/seedprep.sh <ID>... : scratch worktree /tmp/seed-<ID> of /repo HEAD + /tmp/seedout/<ID>/prop.json (property text only)
for id in "$@"; do
  git -C /repo worktree remove --force /tmp/seed-$id 2>/dev/null
  rm -rf /tmp/seed-$id /tmp/seedout/$id
  git -C /repo worktree add -q --detach /tmp/seed-$id HEAD || exit 2
  mkdir -p /tmp/seedout/$id/1 /tmp/seedout/$id/2
  python3 - "$id" <<'PY'
import json, sys
for l in open('/verif/properties.jsonl'):
    p = json.loads(l)
    if p['id'] == sys.argv[1]:
        json.dump(p, open('/tmp/seedout/%s/prop.json' % p['id'], 'w'), indent=1)
PY
done
git -C /repo worktree list
