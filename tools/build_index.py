#!/usr/bin/env python3
"""Builds vf/corpus_index.json: which corpus files are complete fonts, with cheap
attributes used to select inputs. Run on the unchanged tree; the index only lists
inputs, every check still loads/compiles them from /repo at run time."""
import io, json, os, sys, time, multiprocessing
sys.path.insert(0, "/verif")
from vf import runner
runner.bootstrap()
from fontTools.ttLib import TTFont, TTCollection

T = runner.TESTS

def attrs(font):
    tags = sorted(font.keys())
    d = dict(tables=[t for t in tags if t != "GlyphOrder"], numGlyphs=len(font.getGlyphOrder()))
    d["variable"] = "fvar" in font
    if "fvar" in font:
        d["axes"] = [(a.axisTag, a.minValue, a.defaultValue, a.maxValue) for a in font["fvar"].axes]
    if "head" in font:
        d["upem"] = font["head"].unitsPerEm
    return d

def one(path):
    rel = os.path.relpath(path, T)
    out = []
    t0 = time.time()
    try:
        if path.endswith(".ttx"):
            txt = open(path, "rb").read(4000)
            f = TTFont()
            f.importXML(path)
            need = {"head", "maxp"}
            if not need.issubset(f.keys()):
                return [dict(id="ttx:" + rel, ok=False, why="incomplete")]
            buf = io.BytesIO()
            f.save(buf)
            g = TTFont(io.BytesIO(buf.getvalue()))
            for t in g.keys():
                g[t]
            d = attrs(g)
            d.update(id="ttx:" + rel, ok=True, size=len(buf.getvalue()), secs=round(time.time() - t0, 2))
            out.append(d)
        elif path.endswith((".ttc", ".otc")):
            c = TTCollection(path)
            for i, f in enumerate(c.fonts):
                d = attrs(f)
                d.update(id="bin:%s#%d" % (rel, i), ok=True, size=os.path.getsize(path), secs=0)
                out.append(d)
        else:
            f = TTFont(path)
            for t in f.keys():
                f[t]
            d = attrs(f)
            d.update(id="bin:" + rel, ok=True, size=os.path.getsize(path), flavor=f.flavor, secs=round(time.time() - t0, 2))
            out.append(d)
    except Exception as e:
        out.append(dict(id=("ttx:" if path.endswith(".ttx") else "bin:") + rel, ok=False, why="%s: %s" % (type(e).__name__, str(e)[:100])))
    return out

paths = []
for dp, dn, fn in os.walk(T):
    dn.sort()
    for f in sorted(fn):
        if f.endswith((".ttx", ".ttf", ".otf", ".ttc", ".otc", ".woff", ".woff2")):
            paths.append(os.path.join(dp, f))
with multiprocessing.Pool(16) as p:
    res = p.map(one, paths, chunksize=4)
items = [x for r in res for x in r]
ok = [x for x in items if x["ok"]]
bad = [x for x in items if not x["ok"]]
json.dump(dict(fonts=ok, skipped=bad), open("/verif/vf/corpus_index.json", "w"), indent=0, sort_keys=True)
print(len(ok), "fonts;", len(bad), "skipped")
import collections
print(collections.Counter(x["why"].split(":")[0] for x in bad))
