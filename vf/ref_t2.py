"""Reference Type 2 charstring interpreter, written from Adobe Technical Note #5177
("The Type 2 Charstring Format") and the OpenType CFF2 charstring chapter.
Nothing from fontTools is used here.

A program is either
  * a token list: numbers (int / float), operator names (str) and, directly after
    'hintmask' / 'cntrmask', one bytes object holding the mask, or
  * bytes: the encoded charstring (decoded here, section 3.2 of the note).
Subroutines are sequences of such programs; the bias follows section 4.7
(107 / 1131 / 32768 by subroutine count).

run() executes a program and returns a Result:
  ops        pen-style op list [("moveTo", ((x, y),)), ("lineTo", ...), ("curveTo", (p1, p2, p3)),
             ("closePath", ())]
  width      nominalWidthX + operand, or defaultWidthX when no width operand is present (CFF only)
  has_width  whether a width operand was present
  max_depth  maximum operand-stack depth reached (subroutine numbers included)
  max_path_depth  maximum depth seen when a line/curve operator was executed
  problems   list of (kind, detail): violations of operator arity / ordering / limits
  trace      the executed tokens with subroutine calls expanded (a subroutine-free program)
  forms      set of labels "op/form" describing which argument-count form each operator used
"""

import struct

STACK_LIMIT = {"cff": 48, "cff2": 513}
SUBR_NESTING_LIMIT = 10
MAX_STEMS = 96

OPS1 = {
    1: "hstem",
    3: "vstem",
    4: "vmoveto",
    5: "rlineto",
    6: "hlineto",
    7: "vlineto",
    8: "rrcurveto",
    10: "callsubr",
    11: "return",
    14: "endchar",
    15: "vsindex",
    16: "blend",
    18: "hstemhm",
    19: "hintmask",
    20: "cntrmask",
    21: "rmoveto",
    22: "hmoveto",
    23: "vstemhm",
    24: "rcurveline",
    25: "rlinecurve",
    26: "vvcurveto",
    27: "hhcurveto",
    29: "callgsubr",
    30: "vhcurveto",
    31: "hvcurveto",
}
OPS2 = {
    0: "dotsection",
    3: "and",
    4: "or",
    5: "not",
    9: "abs",
    10: "add",
    11: "sub",
    12: "div",
    14: "neg",
    15: "eq",
    18: "drop",
    20: "put",
    21: "get",
    22: "ifelse",
    23: "random",
    24: "mul",
    26: "sqrt",
    27: "dup",
    28: "exch",
    29: "index",
    30: "roll",
    34: "hflex",
    35: "flex",
    36: "hflex1",
    37: "flex1",
}
CFF2_FORBIDDEN = {"endchar", "return", "dotsection", "and", "or", "not", "abs", "add", "sub", "div", "neg", "eq", "drop", "put", "get", "ifelse", "random", "mul", "sqrt", "dup", "exch", "index", "roll"}
CFF_FORBIDDEN = {"blend", "vsindex"}
HINT_OPS = {"hstem", "vstem", "hstemhm", "vstemhm"}
MASK_OPS = {"hintmask", "cntrmask"}
MOVE_OPS = {"rmoveto", "hmoveto", "vmoveto"}
PATH_OPS = {"rlineto", "hlineto", "vlineto", "rrcurveto", "hhcurveto", "vvcurveto", "hvcurveto", "vhcurveto", "rcurveline", "rlinecurve", "flex", "hflex", "hflex1", "flex1"}


class T2Error(Exception):
    pass


def subr_bias(n):
    if n < 1240:
        return 107
    if n < 33900:
        return 1131
    return 32768


class _Src:
    """Token source over a token list or over bytes."""

    def __init__(self, prog):
        self.prog = prog
        self.pos = 0
        self.is_bytes = isinstance(prog, (bytes, bytearray))

    def next(self):
        """-> (kind, value) with kind 'num' | 'op' | None at the end"""
        p = self.prog
        if self.pos >= len(p):
            return None, None
        if not self.is_bytes:
            t = p[self.pos]
            self.pos += 1
            if isinstance(t, str):
                if t == "ignore":  # fontTools' name for 12 0
                    t = "dotsection"
                return "op", t
            if isinstance(t, (bytes, bytearray)):
                raise T2Error("mask bytes outside hintmask/cntrmask")
            return "num", t
        b0 = p[self.pos]
        self.pos += 1
        if b0 == 28:
            v = struct.unpack(">h", bytes(p[self.pos : self.pos + 2]))[0]
            self.pos += 2
            return "num", v
        if b0 == 12:
            b1 = p[self.pos]
            self.pos += 1
            if b1 not in OPS2:
                raise T2Error("reserved operator 12 %d" % b1)
            return "op", OPS2[b1]
        if b0 < 32:
            if b0 not in OPS1:
                raise T2Error("reserved operator %d" % b0)
            return "op", OPS1[b0]
        if b0 <= 246:
            return "num", b0 - 139
        if b0 <= 250:
            v = (b0 - 247) * 256 + p[self.pos] + 108
            self.pos += 1
            return "num", v
        if b0 <= 254:
            v = -(b0 - 251) * 256 - p[self.pos] - 108
            self.pos += 1
            return "num", v
        raw = struct.unpack(">i", bytes(p[self.pos : self.pos + 4]))[0]
        self.pos += 4
        if raw & 0xFFFF == 0:
            return "num", raw >> 16
        return "num", raw / 65536.0

    def mask(self, n):
        p = self.prog
        if not self.is_bytes:
            if self.pos >= len(p) or not isinstance(p[self.pos], (bytes, bytearray)):
                raise T2Error("mask operator without mask bytes")
            m = bytes(p[self.pos])
            self.pos += 1
            return m
        m = bytes(p[self.pos : self.pos + n])
        if len(m) != n:
            raise T2Error("mask runs past the end of the charstring")
        self.pos += n
        return m


class Result:
    def __init__(self):
        self.ops = []
        self.width = None
        self.has_width = False
        self.width_operand = None
        self.max_depth = 0
        self.max_path_depth = 0
        self.depth_by_op = {}
        self.problems = []
        self.trace = []
        self.forms = set()
        self.nstems = 0
        self.used_local = set()
        self.used_global = set()
        self.ended = False
        self.seac = None

    def problem_kinds(self):
        return sorted(set(k for k, _ in self.problems))


class _Interp:
    def __init__(self, lsubrs, gsubrs, fmt, default_width, nominal_width, num_regions, scalars):
        self.lsubrs = lsubrs or []
        self.gsubrs = gsubrs or []
        self.fmt = fmt
        self.limit = STACK_LIMIT[fmt]
        self.default_width = default_width
        self.nominal_width = nominal_width
        self.num_regions = num_regions
        self.scalars = scalars
        self.r = Result()
        self.stack = []
        self.x = 0
        self.y = 0
        self.open = False
        self.width_done = fmt == "cff2"
        self.seen_move = False
        self.seen_path = False
        self.seen_mask = False
        self.vsindex = 0
        self.vsindex_set = False
        self.seen_blend = False
        self.first_op = True
        self.transient = {}
        self.nesting = 0

    # -- helpers -----------------------------------------------------------
    def bad(self, kind, detail=""):
        if len(self.r.problems) < 40:
            self.r.problems.append((kind, detail))

    def push(self, v):
        self.stack.append(v)
        n = len(self.stack)
        if n > self.r.max_depth:
            self.r.max_depth = n
            if n > self.limit:
                self.bad("stack-overflow", "depth %d > %d" % (n, self.limit))

    def take_width(self, expect_odd):
        """Called by the first stack-clearing operator (CFF): an extra bottom operand is the width."""
        if self.width_done:
            return
        self.width_done = True
        n = len(self.stack)
        if (n % 2 == 1) != expect_odd:
            w = self.stack.pop(0)
            self.r.has_width = True
            self.r.width_operand = w
            self.r.width = self.nominal_width + w
        else:
            self.r.width = self.default_width

    def clear(self):
        a = self.stack
        self.stack = []
        return a

    def close(self):
        if self.open:
            self.r.ops.append(("closePath", ()))
            self.open = False

    def move(self, dx, dy):
        self.close()
        self.x += dx
        self.y += dy
        self.r.ops.append(("moveTo", ((self.x, self.y),)))
        self.open = True
        self.seen_move = True

    def need_move(self, op):
        if not self.open:
            self.bad("path-without-moveto", op)
            # keep going the way most interpreters do: implicit moveto at the current point
            self.r.ops.append(("moveTo", ((self.x, self.y),)))
            self.open = True
        self.seen_path = True

    def line(self, dx, dy):
        self.x += dx
        self.y += dy
        self.r.ops.append(("lineTo", ((self.x, self.y),)))

    def curve(self, a, b, c, d, e, f):
        x1, y1 = self.x + a, self.y + b
        x2, y2 = x1 + c, y1 + d
        self.x, self.y = x2 + e, y2 + f
        self.r.ops.append(("curveTo", ((x1, y1), (x2, y2), (self.x, self.y))))

    # -- execution -----------------------------------------------------------
    def run(self, prog):
        src = _Src(prog)
        while not self.r.ended:
            kind, tok = src.next()
            if kind is None:
                return "end"
            if kind == "num":
                self.push(tok)
                self.r.trace.append(tok)
                continue
            op = tok
            if self.fmt == "cff2" and op in CFF2_FORBIDDEN:
                self.bad("operator-not-in-cff2", op)
            if self.fmt == "cff" and op in CFF_FORBIDDEN:
                self.bad("operator-not-in-cff", op)
            if op in ("callsubr", "callgsubr"):
                self.call(op)
                continue
            if op == "return":
                if self.nesting == 0:
                    self.bad("return-outside-subr")
                return "return"
            self.r.trace.append(op)
            if op in MASK_OPS:
                self.do_mask(op, src)
            else:
                self.do_op(op)
            self.first_op = False
        return "endchar"

    def call(self, op):
        if not self.stack:
            self.bad("arity", "%s without subr number" % op)
            return
        n = self.stack.pop()
        self.r.trace.pop()
        subrs = self.lsubrs if op == "callsubr" else self.gsubrs
        if isinstance(n, float):
            if n != int(n):
                self.bad("arity", "%s with non-integer %r" % (op, n))
                return
            n = int(n)
        idx = n + subr_bias(len(subrs))
        if not 0 <= idx < len(subrs):
            self.bad("subr-index", "%s %d (biased %d) of %d" % (op, n, idx, len(subrs)))
            return
        (self.r.used_local if op == "callsubr" else self.r.used_global).add(idx)
        if self.nesting >= SUBR_NESTING_LIMIT:
            self.bad("subr-nesting", "deeper than %d" % SUBR_NESTING_LIMIT)
            return
        self.nesting += 1
        how = self.run(subrs[idx])
        self.nesting -= 1
        if how == "end" and self.fmt == "cff" and not self.r.ended:
            self.bad("subr-without-return", "%s %d" % (op, idx))

    def do_mask(self, op, src):
        if self.fmt == "cff":
            self.take_width(False)
        args = self.clear()
        if args:
            # implied vstem(hm): only directly after the stem declarations
            if self.seen_move or self.seen_mask:
                self.bad("arity", "%s with %d operands after masks or path start" % (op, len(args)))
            if len(args) % 2:
                self.bad("arity", "%s with odd operand count %d" % (op, len(args)))
            self.r.nstems += len(args) // 2
            self.r.forms.add(op + "/implicit-vstem")
        else:
            self.r.forms.add(op + "/plain")
        if self.r.nstems == 0:
            self.bad("mask-without-stems", op)
        if self.r.nstems > MAX_STEMS:
            self.bad("too-many-stems", str(self.r.nstems))
        if op == "cntrmask" and self.seen_move:
            self.bad("order", "cntrmask after path start")
        nbytes = (self.r.nstems + 7) // 8
        m = src.mask(nbytes)
        if len(m) != nbytes:
            self.bad("mask-length", "%s has %d mask bytes, %d stems need %d" % (op, len(m), self.r.nstems, nbytes))
        self.r.forms.add("mask-bytes=%d" % len(m))
        self.r.trace.append(m)
        self.seen_mask = True

    def do_op(self, op):
        r = self.r
        st = self.stack
        if op in HINT_OPS:
            if self.fmt == "cff":
                self.take_width(False)
            args = self.clear()
            if len(args) < 2 or len(args) % 2:
                self.bad("arity", "%s with %d operands" % (op, len(args)))
            if self.seen_move or self.seen_mask:
                self.bad("order", "%s after masks or path start" % op)
            r.nstems += len(args) // 2
            if r.nstems > MAX_STEMS:
                self.bad("too-many-stems", str(r.nstems))
            r.forms.add("%s/%s" % (op, "1" if len(args) == 2 else "n"))
            return
        if op in MOVE_OPS:
            want = 2 if op == "rmoveto" else 1
            if self.fmt == "cff":
                self.take_width(want == 1)
            args = self.clear()
            if len(args) != want:
                self.bad("arity", "%s with %d operands" % (op, len(args)))
                args = (args + [0, 0])[:want]
            r.forms.add(op)
            if op == "rmoveto":
                self.move(args[0], args[1])
            elif op == "hmoveto":
                self.move(args[0], 0)
            else:
                self.move(0, args[0])
            return
        if op == "endchar":
            if self.fmt == "cff":
                self.take_width(False)
            args = self.clear()
            if len(args) == 4:
                r.seac = tuple(args)
                r.forms.add("endchar/seac")
            elif args:
                self.bad("arity", "endchar with %d operands" % len(args))
            else:
                r.forms.add("endchar")
            self.close()
            r.ended = True
            return
        if op in PATH_OPS:
            depth = len(st)
            if depth > r.max_path_depth:
                r.max_path_depth = depth
            if depth > r.depth_by_op.get(op, 0):
                r.depth_by_op[op] = depth
            if not self.width_done:
                # a path operator as first stack-clearing operator: no width is taken (note 5177, 4.1)
                self.bad("order", "%s before any moveto" % op)
                self.width_done = True
                r.width = self.default_width
            args = self.clear()
            self.need_move(op)
            getattr(self, "p_" + op)(args)
            return
        if op == "vsindex":
            if len(st) != 1 or not isinstance(st[-1], int):
                self.bad("arity", "vsindex with %d operands" % len(st))
            if self.seen_blend or self.vsindex_set or not self.first_op:
                self.bad("order", "vsindex must be first and at most once")
            a = self.clear()
            self.vsindex = a[-1] if a else 0
            self.vsindex_set = True
            r.forms.add("vsindex")
            return
        if op == "blend":
            self.seen_blend = True
            if not st or not isinstance(st[-1], int) or st[-1] < 1:
                self.bad("arity", "blend without positive count")
                self.clear()
                return
            n = st.pop()
            k = self.num_regions(self.vsindex) if callable(self.num_regions) else self.num_regions[self.vsindex]
            need = n * (k + 1)
            if len(st) < need:
                self.bad("arity", "blend %d needs %d operands, stack has %d" % (n, need, len(st)))
                self.clear()
                return
            base = len(st) - need
            vals = st[base : base + n]
            deltas = st[base + n :]
            sc = self.scalars.get(self.vsindex) if isinstance(self.scalars, dict) else self.scalars
            out = []
            for i in range(n):
                v = vals[i]
                if sc:
                    for j in range(k):
                        v = v + sc[j] * deltas[i * k + j]
                out.append(v)
            del st[base:]
            st.extend(out)
            r.forms.add("blend/%s" % ("1" if n == 1 else "n"))
            return
        if op == "dotsection":
            r.forms.add("dotsection")
            return
        self.arith(op)

    # -- path operators (section 4.1) ------------------------------------------
    def p_rlineto(self, a):
        if len(a) < 2 or len(a) % 2:
            self.bad("arity", "rlineto with %d operands" % len(a))
            a = a[: len(a) // 2 * 2]
        self.r.forms.add("rlineto/%s" % ("1" if len(a) == 2 else "n"))
        for i in range(0, len(a), 2):
            self.line(a[i], a[i + 1])

    def _alt_line(self, a, horiz, op):
        if not a:
            self.bad("arity", "%s without operands" % op)
        self.r.forms.add("%s/%s" % (op, "odd" if len(a) % 2 else "even"))
        if len(a) == 1:
            self.r.forms.add("%s/1" % op)
        for v in a:
            if horiz:
                self.line(v, 0)
            else:
                self.line(0, v)
            horiz = not horiz

    def p_hlineto(self, a):
        self._alt_line(a, True, "hlineto")

    def p_vlineto(self, a):
        self._alt_line(a, False, "vlineto")

    def p_rrcurveto(self, a):
        if len(a) < 6 or len(a) % 6:
            self.bad("arity", "rrcurveto with %d operands" % len(a))
            a = a[: len(a) // 6 * 6]
        self.r.forms.add("rrcurveto/%s" % ("1" if len(a) == 6 else "n"))
        for i in range(0, len(a), 6):
            self.curve(*a[i : i + 6])

    def p_hhcurveto(self, a):
        if len(a) < 4 or len(a) % 4 > 1:
            self.bad("arity", "hhcurveto with %d operands" % len(a))
            return
        dy1 = 0
        self.r.forms.add("hhcurveto/%s%s" % ("dy1+" if len(a) % 4 else "", "1" if len(a) < 8 else "n"))
        if len(a) % 4:
            dy1 = a[0]
            a = a[1:]
        for i in range(0, len(a), 4):
            dxa, dxb, dyb, dxc = a[i : i + 4]
            self.curve(dxa, dy1, dxb, dyb, dxc, 0)
            dy1 = 0

    def p_vvcurveto(self, a):
        if len(a) < 4 or len(a) % 4 > 1:
            self.bad("arity", "vvcurveto with %d operands" % len(a))
            return
        dx1 = 0
        self.r.forms.add("vvcurveto/%s%s" % ("dx1+" if len(a) % 4 else "", "1" if len(a) < 8 else "n"))
        if len(a) % 4:
            dx1 = a[0]
            a = a[1:]
        for i in range(0, len(a), 4):
            dya, dxb, dyb, dyc = a[i : i + 4]
            self.curve(dx1, dya, dxb, dyb, 0, dyc)
            dx1 = 0

    def _alt_curve(self, a, horiz, op):
        n = len(a)
        if n < 4 or n % 8 not in (0, 1, 4, 5):
            self.bad("arity", "%s with %d operands" % (op, n))
            return
        self.r.forms.add("%s/%s" % (op, {0: "8n", 1: "8n+1", 4: "4+8n", 5: "4+8n+1"}[n % 8]))
        self.r.forms.add("%s/%s" % (op, "single" if n in (4, 5) else "multi"))
        i = 0
        while n - i >= 4:
            d1, d2, d3, d4 = a[i : i + 4]
            i += 4
            last = 0
            if n - i == 1:
                last = a[i]
                i += 1
            if horiz:
                # starts horizontal, ends vertical: dx1 dx2 dy2 dy3 (dx3 = last)
                self.curve(d1, 0, d2, d3, last, d4)
            else:
                # starts vertical, ends horizontal: dy1 dx2 dy2 dx3 (dy3 = last)
                self.curve(0, d1, d2, d3, d4, last)
            horiz = not horiz

    def p_hvcurveto(self, a):
        self._alt_curve(a, True, "hvcurveto")

    def p_vhcurveto(self, a):
        self._alt_curve(a, False, "vhcurveto")

    def p_rcurveline(self, a):
        if len(a) < 8 or len(a) % 6 != 2:
            self.bad("arity", "rcurveline with %d operands" % len(a))
            return
        self.r.forms.add("rcurveline/%s" % ("1" if len(a) == 8 else "n"))
        for i in range(0, len(a) - 2, 6):
            self.curve(*a[i : i + 6])
        self.line(a[-2], a[-1])

    def p_rlinecurve(self, a):
        if len(a) < 8 or len(a) % 2:
            self.bad("arity", "rlinecurve with %d operands" % len(a))
            return
        self.r.forms.add("rlinecurve/%s" % ("1" if len(a) == 8 else "n"))
        for i in range(0, len(a) - 6, 2):
            self.line(a[i], a[i + 1])
        self.curve(*a[-6:])

    def p_flex(self, a):
        if len(a) != 13:
            self.bad("arity", "flex with %d operands" % len(a))
            return
        self.r.forms.add("flex")
        self.curve(*a[0:6])
        self.curve(*a[6:12])

    def p_hflex(self, a):
        if len(a) != 7:
            self.bad("arity", "hflex with %d operands" % len(a))
            return
        self.r.forms.add("hflex")
        dx1, dx2, dy2, dx3, dx4, dx5, dx6 = a
        self.curve(dx1, 0, dx2, dy2, dx3, 0)
        self.curve(dx4, 0, dx5, -dy2, dx6, 0)

    def p_hflex1(self, a):
        if len(a) != 9:
            self.bad("arity", "hflex1 with %d operands" % len(a))
            return
        self.r.forms.add("hflex1")
        dx1, dy1, dx2, dy2, dx3, dx4, dx5, dy5, dx6 = a
        self.curve(dx1, dy1, dx2, dy2, dx3, 0)
        self.curve(dx4, 0, dx5, dy5, dx6, -(dy1 + dy2 + dy5))

    def p_flex1(self, a):
        if len(a) != 11:
            self.bad("arity", "flex1 with %d operands" % len(a))
            return
        dx1, dy1, dx2, dy2, dx3, dy3, dx4, dy4, dx5, dy5, d6 = a
        dx = dx1 + dx2 + dx3 + dx4 + dx5
        dy = dy1 + dy2 + dy3 + dy4 + dy5
        self.curve(dx1, dy1, dx2, dy2, dx3, dy3)
        if abs(dx) == abs(dy):
            self.r.forms.add("flex1/tie")
        if abs(dx) > abs(dy):
            self.r.forms.add("flex1/horizontal")
            self.curve(dx4, dy4, dx5, dy5, d6, -dy)
        else:
            self.r.forms.add("flex1/vertical")
            self.curve(dx4, dy4, dx5, dy5, -dx, d6)

    # -- arithmetic / storage operators (section 4.5 - 4.6) ----------------------
    def arith(self, op):
        st = self.stack
        need = {"and": 2, "or": 2, "not": 1, "abs": 1, "add": 2, "sub": 2, "div": 2, "neg": 1, "eq": 2, "drop": 1, "put": 2, "get": 1, "ifelse": 4, "random": 0, "mul": 2, "sqrt": 1, "dup": 1, "exch": 2, "index": 1, "roll": 2}
        if op not in need:
            self.bad("unknown-operator", op)
            self.clear()
            return
        if len(st) < need[op]:
            self.bad("arity", "%s with %d operands" % (op, len(st)))
            self.clear()
            return
        self.r.forms.add("arith/" + op)
        if op == "random":
            self.bad("nondeterministic", "random")
            self.push(0.5)
            return
        if op in ("not", "abs", "neg", "sqrt", "dup", "drop", "get", "index"):
            a = st.pop()
            if op == "not":
                self.push(int(not a))
            elif op == "abs":
                self.push(abs(a))
            elif op == "neg":
                self.push(-a)
            elif op == "sqrt":
                self.push(a**0.5 if a >= 0 else 0)
            elif op == "dup":
                self.push(a)
                self.push(a)
            elif op == "get":
                self.push(self.transient.get(int(a), 0))
            elif op == "index":
                i = int(a)
                if i < 0:
                    i = 0
                if i >= len(st):
                    self.bad("arity", "index %d beyond the stack" % i)
                    self.push(0)
                else:
                    self.push(st[-1 - i])
            return
        if op == "ifelse":
            v2 = st.pop()
            v1 = st.pop()
            s2 = st.pop()
            s1 = st.pop()
            self.push(s1 if v1 <= v2 else s2)
            return
        if op == "roll":
            j = int(st.pop())
            n = int(st.pop())
            if n < 0 or n > len(st):
                self.bad("arity", "roll %d beyond the stack" % n)
                return
            if n:
                seg = st[-n:]
                j %= n
                st[-n:] = seg[-j:] + seg[:-j] if j else seg
            return
        b = st.pop()
        a = st.pop()
        if op == "and":
            self.push(int(bool(a) and bool(b)))
        elif op == "or":
            self.push(int(bool(a) or bool(b)))
        elif op == "add":
            self.push(a + b)
        elif op == "sub":
            self.push(a - b)
        elif op == "mul":
            self.push(a * b)
        elif op == "div":
            if b == 0:
                self.bad("div-by-zero")
                self.push(0)
            else:
                q = a / b
                self.push(int(q) if q == int(q) else q)
        elif op == "eq":
            self.push(int(a == b))
        elif op == "put":
            self.transient[int(b)] = a
        elif op == "exch":
            self.push(b)
            self.push(a)


def run(program, lsubrs=None, gsubrs=None, fmt="cff", default_width=None, nominal_width=0, num_regions=None, scalars=None):
    """Execute a charstring. num_regions: callable vsindex -> count, or a list; scalars: None (default
    instance), a list of per-region scalars, or a dict vsindex -> list."""
    it = _Interp(lsubrs, gsubrs, fmt, default_width, nominal_width, num_regions, scalars)
    try:
        how = it.run(program)
    except (T2Error, IndexError, struct.error, TypeError, ValueError) as e:
        it.bad("malformed", "%s: %s" % (type(e).__name__, e))
        how = "error"
    r = it.r
    if fmt == "cff":
        if not r.ended and how != "error":
            it.bad("no-endchar", "charstring ends without endchar")
        it.close()
    else:
        if it.stack:
            it.bad("operands-left", "%d operands on the stack at the end" % len(it.stack))
        it.close()
    return r


def check(program, lsubrs=None, gsubrs=None, fmt="cff", num_regions=None):
    """Stack-depth and operator-arity check. Returns (problems, max_depth, result)."""
    r = run(program, lsubrs, gsubrs, fmt, default_width=0, nominal_width=0, num_regions=num_regions)
    return r.problems, r.max_depth, r


def encode_number(v):
    """Reference Type 2 operand encoder (shortest form), used to cross-check byte lengths."""
    if isinstance(v, float) and v != int(v):
        raw = int(round(v * 65536))
        return b"\xff" + struct.pack(">i", raw)
    v = int(v)
    if -107 <= v <= 107:
        return bytes([v + 139])
    if 108 <= v <= 1131:
        v -= 108
        return bytes([(v >> 8) + 247, v & 0xFF])
    if -1131 <= v <= -108:
        v = -v - 108
        return bytes([(v >> 8) + 251, v & 0xFF])
    if -32768 <= v <= 32767:
        return b"\x1c" + struct.pack(">h", v)
    raise T2Error("integer %d outside the Type 2 operand range" % v)


_OPCODE = {}
for _k, _v in OPS1.items():
    _OPCODE[_v] = bytes([_k])
for _k, _v in OPS2.items():
    _OPCODE[_v] = bytes([12, _k])
_OPCODE["ignore"] = bytes([12, 0])


def encode(program):
    """Reference encoder for a token list (used to build the expected byte code)."""
    out = []
    for t in program:
        if isinstance(t, str):
            out.append(_OPCODE[t])
        elif isinstance(t, (bytes, bytearray)):
            out.append(bytes(t))
        else:
            out.append(encode_number(t))
    return b"".join(out)
