"""Hypothesis strategies for C19 (design sources: designspace documents, GLIF
glyph records, UFO contents, plist trees, glyph/layer name sequences, axis maps).

Everything generated here is a *JSON-able spec* (dicts, lists, str, int, float,
bool, None, bytes); props/c19.py turns a spec into library objects.  Types that
JSON cannot carry are tagged:
    {"$date": [Y, M, D, h, m, s, us]}   datetime
    {"$tuple": [...]}                   tuple
    {"$data": b"..."}                   plistlib.Data wrapper
    {"$bytearray": b"..."}              bytearray
Dict keys never start with "$".

Text domain: any Unicode scalar value that XML 1.0 can carry, minus carriage
return (XML parsers normalise a literal CR): no surrogates, no C0 controls other
than TAB and LF, no U+FFFE/U+FFFF.
"""

from hypothesis import strategies as st

# ---------------------------------------------------------------------------
# text

_XML_CHAR = st.characters(exclude_categories=("Cs", "Cc"), exclude_characters="￾￿")
_AWKWARD = [
    "<", ">", "&", '"', "'", "]]>", "<!--", "-->", "&amp;", "&#10;", "&lt;", "<![CDATA[", "?>", "<?xml",
    " ", "  ", "\t", "\n", "\n\n", "\u00a0", "\u2028", "\u2029", "\u3000", "\u200b", "\u200d", "\ufeff",
    "\u0301", "e\u0301", "\u00e9", "\U0001F600", "\U00010000", "\U0010FFFD", "\ufffd", "\ufdd0", "\ud7ff", "\ue000",
    "%s", "%d", "{0}", "\\", "/", "\u00df", "\u0130", "\u0131", "\u01c5", "\u05d0", "\u0639", "\u65e5\u672c\u8a9e", "\u202e", "0", "-1", "true",
]
_SIMPLE_ALPHA = "abcdefghijklmnopqrstuvwxyzABCDEFGHIJKLMNOPQRSTUVWXYZ0123456789 ._-"


def xml_text(min_size=0, max_size=12):
    simple = st.text(alphabet=_SIMPLE_ALPHA, min_size=min_size, max_size=max_size)
    anychar = st.text(alphabet=_XML_CHAR, min_size=min_size, max_size=max_size)
    pieces = st.lists(
        st.one_of(st.sampled_from(_AWKWARD), st.text(alphabet=_SIMPLE_ALPHA, min_size=1, max_size=4)),
        min_size=max(1, min_size),
        max_size=5,
    ).map("".join)
    if min_size > 0:
        pieces = pieces.filter(lambda s: len(s) >= min_size)
    return st.one_of(simple, simple, anychar, pieces)


def name_text(max_size=10):
    """Non-empty label / name text."""
    return xml_text(min_size=1, max_size=max_size)


_IDENT_ALPHA = "".join(chr(c) for c in range(0x20, 0x7F))


def identifier():
    return st.one_of(
        st.text(alphabet="abcdefABCDEF0123456789", min_size=1, max_size=10),
        st.text(alphabet=_IDENT_ALPHA, min_size=1, max_size=24),
        st.text(alphabet=_IDENT_ALPHA, min_size=99, max_size=100),
    )


_COLOR_PART = ["0", "1", "0.5", ".25", "1.0", "0.333", "0.0", " 1", "0.75 "]


def color():
    return st.tuples(st.lists(st.sampled_from(_COLOR_PART), min_size=4, max_size=4), st.sampled_from([",", ", "])).map(
        lambda t: t[1].join(t[0])
    )


# ---------------------------------------------------------------------------
# plist value trees


def finite_float():
    return st.one_of(
        st.floats(allow_nan=False, allow_infinity=False),
        st.floats(min_value=-1e6, max_value=1e6, allow_nan=False),
        st.sampled_from([0.0, -0.0, 1.0, -1.0, 0.1, 1e22, 1e-7, 1.5e300, 5e-324, 2.0**53, 123456789.125, 1e16, 0.30000000000000004]),
        st.integers(-5000, 5000).map(float),
    )


def plist_int():
    return st.one_of(
        st.integers(-1000, 1000),
        st.integers(-(2**63), 2**64 - 1),
        st.sampled_from([0, 1, -1, 2**31 - 1, 2**31, -(2**31) - 1, 2**32, 2**53 + 1, 2**63 - 1, 2**63, 2**64 - 1, -(2**63)]),
    )


def plist_date():
    return st.tuples(
        st.one_of(st.integers(1, 9999), st.integers(1900, 2100)),
        st.integers(1, 12),
        st.integers(1, 28),
        st.integers(0, 23),
        st.integers(0, 59),
        st.integers(0, 59),
        st.sampled_from([0, 0, 0, 1, 500000, 999999]),
    ).map(lambda t: {"$date": list(t)})


def plist_bytes():
    return st.one_of(
        st.binary(max_size=12),
        st.binary(min_size=40, max_size=120),
        st.sampled_from([b"", b"\x00", b"abc", b"<string>", b"\xff" * 57, b"a" * 58]),
    )


def plist_key():
    return xml_text(0, 8).filter(lambda s: not s.startswith("$"))


def plist_scalar(with_data_wrapper=False):
    opts = [
        st.booleans(),
        plist_int(),
        finite_float(),
        xml_text(0, 14),
        plist_bytes(),
        plist_date(),
    ]
    if with_data_wrapper:
        opts.append(plist_bytes().map(lambda b: {"$data": b}))
        opts.append(plist_bytes().map(lambda b: {"$bytearray": b}))
    return st.one_of(*opts)


def plist_tree(max_leaves=14, with_data_wrapper=False, tuples=True):
    def extend(children):
        lst = st.lists(children, max_size=5)
        opts = [lst, st.dictionaries(plist_key(), children, max_size=5)]
        if tuples:
            opts.append(lst.map(lambda l: {"$tuple": l}))
        return st.one_of(*opts)

    return st.recursive(plist_scalar(with_data_wrapper), extend, max_leaves=max_leaves)


def plist_dict(max_leaves=8, min_size=0):
    """A lib-like dictionary (reverse-DNS style keys mixed with awkward keys)."""
    key = st.one_of(
        st.sampled_from(["com.example.key", "public.foo", "org.test.deep", "a", "Z", "k e y"]),
        plist_key().filter(lambda s: len(s) > 0),
    )
    return st.dictionaries(key, plist_tree(max_leaves=max_leaves, tuples=False), min_size=min_size, max_size=4)


@st.composite
def plist_case(draw):
    mode = draw(st.sampled_from(["builtin", "builtin", "builtin", "nobuiltin"]))
    tree = draw(plist_tree(with_data_wrapper=True))
    return {
        "tree": tree,
        "sort_keys": draw(st.booleans()),
        "pretty": draw(st.booleans()),
        "mode": mode,
        "indent": draw(st.integers(0, 4)),
    }


# ---------------------------------------------------------------------------
# designspace documents


def ds_num():
    return st.one_of(
        st.integers(-1000, 2000),
        st.integers(-1000, 2000).map(float),
        st.integers(-2_000_000, 2_000_000).map(lambda k: k / 1000),
        st.floats(min_value=-1e6, max_value=1e6, allow_nan=False).map(lambda x: x if (abs(x) >= 1e-3 or x == 0) else x * 1e6 + 1),
        st.sampled_from([0, -0.0, 0.5, 1e-7, 123456.654321, 0.0000005, 999.9999995, 0.1234565, 1e15 + 0.5, 400, 700, -1e-7]),
    )


def _fmt6(v):
    """Value after the designspace writer's number formatting (used for uniqueness only)."""
    return float(int(v)) if v == int(v) else float("%.6f" % v)


def ds_triple():
    return st.lists(ds_num(), min_size=3, max_size=3).map(sorted)


LANGS = ["fr", "de", "ja", "fa-IR", "zh-Hant", "nl", "x-klingon", "en-GB", "en"]


def label_names(allow_en=True):
    langs = LANGS if allow_en else [l for l in LANGS if l != "en"]
    return st.dictionaries(st.sampled_from(langs), name_text(), max_size=3)


_FILE_SEG = st.text(alphabet="abcdefghijklmnopqrstuvwxyzABCDEFGHIJKLMNOPQRSTUVWXYZ0123456789 _-éü", min_size=1, max_size=8).filter(
    lambda s: s.strip() == s
)


def rel_filename(ext=".ufo"):
    return st.tuples(st.sampled_from(["", "", "masters/", "../", "../../x/", "sub/dir/", "/abs/path/"]), _FILE_SEG).map(
        lambda t: t[0] + t[1] + ext
    )


def simple_filename(ext=".ufo"):
    return _FILE_SEG.map(lambda s: s + ext)


def opt(strategy, p_none=0.5):
    return st.one_of(st.none(), strategy) if p_none >= 0.5 else st.one_of(strategy, strategy, st.none())


@st.composite
def _axis_labels(draw, lo, hi):
    n = draw(st.integers(0, 3))
    out = []
    for _ in range(n):
        kind = draw(st.sampled_from([1, 2, 3, 2]))
        lab = {
            "name": draw(name_text()),
            "userValue": draw(ds_num()),
            "userMinimum": None,
            "userMaximum": None,
            "linkedUserValue": None,
            "elidable": draw(st.booleans()),
            "olderSibling": draw(st.booleans()),
            "labelNames": draw(label_names()),
        }
        if kind == 2:
            a, v, b = draw(ds_triple())
            lab["userValue"] = v
            which = draw(st.sampled_from(["both", "both", "min", "max"]))
            if which in ("both", "min"):
                lab["userMinimum"] = a
            if which in ("both", "max"):
                lab["userMaximum"] = b
        elif kind == 3:
            lab["linkedUserValue"] = draw(ds_num())
        out.append(lab)
    return out


@st.composite
def _axis(draw, name, tag, v5, force_default_in_map, want=None):
    want = want or (lambda feature, strategy: v5 and draw(strategy))
    discrete = want("discrete", st.integers(0, 3).map(lambda i: i == 0))
    ax = {
        "name": name,
        "tag": tag,
        "hidden": draw(st.booleans()),
        "labelNames": draw(label_names()),
        "map": [],
        "axisOrdering": None,
        "axisLabels": [],
    }
    if discrete:
        vals = draw(st.lists(ds_num(), min_size=1, max_size=4, unique_by=_fmt6))
        ax["kind"] = "discrete"
        ax["values"] = vals
        ax["default"] = draw(st.sampled_from(vals))
        if draw(st.booleans()):
            outs = draw(st.lists(ds_num(), min_size=len(vals), max_size=len(vals)))
            ax["map"] = [[a, b] for a, b in zip(vals, outs)]
    else:
        lo, d, hi = draw(ds_triple())
        ax["kind"] = "range"
        ax["minimum"], ax["default"], ax["maximum"] = lo, d, hi
        if draw(st.booleans()):
            ins = draw(st.lists(ds_num(), min_size=1, max_size=4, unique_by=_fmt6))
            if force_default_in_map and all(float(i) != float(d) for i in ins):
                # the default itself (not merely a value that prints like it) is a map input
                ins = [i for i in ins if _fmt6(i) != _fmt6(d)] + [d]
            ins = sorted(ins)
            outs = sorted(draw(st.lists(ds_num(), min_size=len(ins), max_size=len(ins))))
            ax["map"] = [[a, b] for a, b in zip(ins, outs)]
    if want("ordering", st.booleans()):
        ax["axisOrdering"] = draw(st.integers(0, 9))
    if want("axisLabels", st.booleans()):
        ax["axisLabels"] = draw(_axis_labels(0, 1))
    return ax


def _loc_value(anisotropic):
    if anisotropic:
        return st.one_of(ds_num(), ds_num(), st.lists(ds_num(), min_size=2, max_size=2))
    return ds_num()


@st.composite
def _location(draw, axis_names, anisotropic=False, allow_empty=True):
    names = draw(st.lists(st.sampled_from(axis_names), unique=True, min_size=0 if allow_empty else 1, max_size=len(axis_names)))
    return {n: draw(_loc_value(anisotropic)) for n in names}


@st.composite
def _v4_glyphs(draw, axis_names, glyph_names):
    out = {}
    for gname in draw(st.lists(st.sampled_from(glyph_names), unique=True, min_size=1, max_size=2)):
        data = {}
        if draw(st.booleans()):
            data["mute"] = True
        if draw(st.booleans()):
            data["unicodes"] = draw(st.lists(st.integers(0, 0x10FFFF), min_size=1, max_size=3))
        if draw(st.booleans()):
            data["note"] = draw(name_text())
        if draw(st.booleans()):
            data["instanceLocation"] = draw(_location(axis_names, anisotropic=True))
        if draw(st.booleans()):
            masters = []
            for _ in range(draw(st.integers(1, 2))):
                m = {"font": draw(opt(name_text())), "location": draw(opt(_location(axis_names)))}
                if draw(st.booleans()):
                    m["glyphName"] = draw(st.sampled_from(glyph_names))
                masters.append(m)
            data["masters"] = masters
        out[gname] = data
    return out


@st.composite
def designspace_doc(draw):
    v5 = draw(st.integers(0, 2)) != 0
    if v5:
        fmt = draw(st.sampled_from([None, None, "5.0", "5.1", "4.1", "4.0"]))
    else:
        fmt = draw(st.sampled_from(["4.0", "4.1", "4.1", "4.1", None]))
    # a document whose declared format is < 5 and that uses no v5 feature is written
    # in the pre-5 style (locations filled with defaults, instance glyphs kept)
    # v5 documents either mix the format-5 features freely or use exactly one of them (so that each
    # feature on its own has to trigger the format upgrade of a document declared as 4.x)
    V5_FEATURES = ["discrete", "ordering", "axisLabels", "locationLabels", "localisedFamilyName", "variableFonts", "instanceUserLocation", "instanceLocationLabel", "axisMappings"]
    single = draw(st.sampled_from(V5_FEATURES)) if v5 and draw(st.integers(0, 2)) == 0 else None
    if single is not None:
        fmt = draw(st.sampled_from(["4.0", "4.1", "4.1", None]))

    def want(feature, strategy):
        if not v5:
            return False
        if single is not None:
            return feature == single or (single == "instanceLocationLabel" and feature == "locationLabels")
        return draw(strategy)

    n_axes = draw(st.integers(1, 3))
    axis_names = draw(st.lists(name_text(8), min_size=n_axes, max_size=n_axes, unique=True))
    tags = draw(st.lists(st.sampled_from(["wght", "wdth", "opsz", "slnt", "ital", "XXXX", "CNTR", "A b ", "1234"]), min_size=n_axes, max_size=n_axes, unique=True))
    axes = [draw(_axis(n, t, v5, force_default_in_map=True, want=want)) for n, t in zip(axis_names, tags)]
    glyph_names = ["a", "A", "dollar", "a.alt", "uni0041", "é", "f_f_i"]
    doc = {
        "formatVersion": fmt,
        "elidedFallbackName": draw(opt(name_text())) if v5 and single is None else None,
        "axes": axes,
        "axisMappings": [],
        "locationLabels": [],
        "rules": [],
        "rulesProcessingLast": False,
        "sources": [],
        "variableFonts": [],
        "instances": [],
        "lib": draw(st.one_of(st.just({}), plist_dict())),
    }
    # axis mappings (5.1)
    if want("axisMappings", st.integers(0, 3).map(lambda i: i == 0)):
        groups = draw(st.lists(opt(name_text()), min_size=1, max_size=3))
        for gd in groups:
            for _ in range(draw(st.integers(1, 2))):
                doc["axisMappings"].append(
                    {
                        "inputLocation": draw(_location(axis_names)),
                        "outputLocation": draw(_location(axis_names)),
                        "description": draw(opt(name_text())),
                        "groupDescription": gd,
                    }
                )
    # location labels
    if want("locationLabels", st.booleans()):
        lnames = draw(st.lists(name_text(), min_size=1, max_size=3, unique=True))
        for ln in lnames:
            doc["locationLabels"].append(
                {
                    "name": ln,
                    "userLocation": draw(_location(axis_names)),
                    "elidable": draw(st.booleans()),
                    "olderSibling": draw(st.booleans()),
                    "labelNames": draw(label_names()),
                }
            )
    # rules
    if draw(st.booleans()):
        for _ in range(draw(st.integers(1, 3))):
            csets = []
            for _ in range(draw(st.integers(0, 2))):
                conds = []
                for an in draw(st.lists(st.sampled_from(axis_names), max_size=len(axis_names), unique=True)):
                    which = draw(st.sampled_from(["both", "min", "max"]))
                    a, b = sorted(draw(st.lists(ds_num(), min_size=2, max_size=2)))
                    c = {"name": an, "minimum": a if which != "max" else None, "maximum": b if which != "min" else None}
                    if draw(st.integers(0, 4)) == 0:
                        # a condition may simply omit the unused bound
                        c = {k: v for k, v in c.items() if v is not None}
                    conds.append(c)
                csets.append(conds)
            subs = draw(st.lists(st.tuples(st.sampled_from(glyph_names), name_text()).map(list), min_size=0 if csets else 1, max_size=3))
            doc["rules"].append({"name": draw(opt(name_text(), 0.2)), "conditionSets": csets, "subs": subs})
        doc["rulesProcessingLast"] = draw(st.booleans())
    # sources
    for i in range(draw(st.integers(1 if single == "localisedFamilyName" else 0, 3))):
        s = {
            "filename": draw(opt(rel_filename(), 0.2)),
            "path_rel": None,
            "name": draw(opt(name_text().filter(lambda s: not s.startswith("temp_master")), 0.2)),
            "location": draw(_location(axis_names)),
            "layerName": draw(opt(name_text())),
            "familyName": draw(opt(name_text())),
            "styleName": draw(opt(name_text())),
            "localisedFamilyName": draw(label_names(allow_en=False).filter(bool) if single else label_names()) if want("localisedFamilyName", st.booleans()) else {},
            "mutedGlyphNames": draw(st.lists(st.sampled_from(glyph_names), max_size=2)),
        }
        for flag in ("copyLib", "copyInfo", "copyGroups", "copyFeatures", "muteKerning", "muteInfo"):
            s[flag] = draw(st.sampled_from([False, False, True]))
        if draw(st.integers(0, 4)) == 0:
            s["path_rel"] = draw(st.tuples(st.sampled_from(["", "masters/", "deep/er/"]), simple_filename()).map("".join))
        doc["sources"].append(s)
    # variable fonts
    if want("variableFonts", st.integers(0, 2).map(lambda i: i == 0)):
        for vn in draw(st.lists(name_text(), min_size=1, max_size=2, unique=True)):
            subsets = []
            for ax in draw(st.lists(st.sampled_from(axes), min_size=1, max_size=len(axes), unique_by=lambda a: a["name"])):
                if ax["kind"] == "discrete" or draw(st.integers(0, 2)) == 0:
                    subsets.append({"kind": "value", "name": ax["name"], "userValue": draw(ds_num())})
                else:
                    full = draw(st.sampled_from(["all", "none", "partial"]))
                    a, d, b = draw(ds_triple())
                    sub = {"kind": "range", "name": ax["name"], "userMinimum": None, "userDefault": None, "userMaximum": None}
                    if full == "all":
                        sub.update(userMinimum=a, userDefault=d, userMaximum=b)
                    elif full == "partial":
                        keys = draw(st.lists(st.sampled_from(["userMinimum", "userDefault", "userMaximum"]), min_size=1, max_size=2, unique=True))
                        for k, v in zip(("userMinimum", "userDefault", "userMaximum"), (a, d, b)):
                            if k in keys:
                                sub[k] = v
                    subsets.append(sub)
            doc["variableFonts"].append(
                {"name": vn, "filename": draw(opt(simple_filename(".ttf"))), "axisSubsets": subsets, "lib": draw(st.one_of(st.just({}), plist_dict(4)))}
            )
    # instances
    label_name_pool = [l["name"] for l in doc["locationLabels"]]
    for i in range(draw(st.integers(1 if (single in ("instanceUserLocation", "instanceLocationLabel") or not v5) else 0, 3))):
        inst = {
            "filename": draw(opt(rel_filename())),
            "name": draw(opt(name_text())),
            "locationLabel": None,
            "designLocation": {},
            "userLocation": {},
            "familyName": draw(opt(name_text())),
            "styleName": draw(opt(name_text())),
            "postScriptFontName": draw(opt(name_text())),
            "styleMapFamilyName": draw(opt(name_text())),
            "styleMapStyleName": draw(opt(st.sampled_from(["regular", "bold", "italic", "bold italic"]))),
            "lib": draw(st.one_of(st.just({}), plist_dict(4))),
            "glyphs": {},
            "kerning": draw(st.sampled_from([True, True, True, False])),
            "info": draw(st.sampled_from([True, True, True, False])),
        }
        for k in ("localisedFamilyName", "localisedStyleName", "localisedStyleMapFamilyName", "localisedStyleMapStyleName"):
            inst[k] = draw(label_names()) if draw(st.integers(0, 2)) == 0 else {}
        if label_name_pool and want("instanceLocationLabel", st.integers(0, 2).map(lambda i: i == 0)):
            inst["locationLabel"] = draw(st.sampled_from(label_name_pool))
        else:
            names = draw(st.lists(st.sampled_from(axis_names), unique=True, min_size=1 if single == "instanceUserLocation" else 0, max_size=len(axis_names)))
            for n in names:
                if want("instanceUserLocation", st.integers(0, 2).map(lambda i: i == 0)):
                    inst["userLocation"][n] = draw(ds_num())
                else:
                    inst["designLocation"][n] = draw(_loc_value(True))
        if not v5 and draw(st.booleans()):
            inst["glyphs"] = draw(_v4_glyphs(axis_names, glyph_names))
        doc["instances"].append(inst)
    return {"doc": doc, "via": draw(st.sampled_from(["string", "string", "string", "str-unicode", "file", "file"]))}


# ---------------------------------------------------------------------------
# GLIF glyph records


def glif_num():
    return st.one_of(
        st.integers(-2000, 2000),
        st.integers(-2000, 2000).map(float),
        st.integers(-200000, 200000).map(lambda k: k / 100),
        st.floats(allow_nan=False, allow_infinity=False, width=64),
        st.sampled_from([0, 1, -1, 0.0, -0.0, 1.0, 1e22, 1e-7, 0.1, 2**40, -(2**63), 123456789.123456789, 1e16]),
    )


def glyph_name():
    return st.one_of(
        st.sampled_from(["a", "A", ".notdef", "a.alt", "A_B.sc", "uni0041", "con", "CON", "é", "é", "İ", "f_f_i", "space", "a b", "<&>\"'"]),
        name_text(12),
    )


@st.composite
def _contour(draw, fmt):
    """A contour whose point-type sequence is legal for the GLIF spec."""
    kind = draw(st.sampled_from(["closed", "closed", "open", "offonly", "empty"]))
    segs = []  # list of (n_offcurves, oncurve type)
    pts = []
    if kind == "empty":
        types = []
    elif kind == "offonly":
        types = [None] * draw(st.integers(1, 5))
    else:
        n = draw(st.integers(1, 5))
        types = []
        for i in range(n):
            t = draw(st.sampled_from(["line", "curve", "qcurve", "curve"]))
            if t == "curve":
                k = draw(st.integers(0, 2))
            elif t == "qcurve":
                k = draw(st.integers(0, 4))
            else:
                k = 0
            segs.append((k, t))
        if kind == "open":
            # first point is a move; no off-curves may precede it
            types.append("move")
            for k, t in segs[1:]:
                types.extend([None] * k)
                types.append(t)
        else:
            for k, t in segs:
                types.extend([None] * k)
                types.append(t)
            # rotate so that the contour may start anywhere (off-curves that wrap
            # around precede the first on-curve cyclically, which is legal when that
            # on-curve is a curve/qcurve)
            r = draw(st.integers(0, len(types) - 1)) if types else 0
            types = types[r:] + types[:r]
    for t in types:
        p = {
            "x": draw(glif_num()),
            "y": draw(glif_num()),
            "type": t,
            "smooth": draw(st.booleans()) if t is not None else False,
            "name": draw(st.one_of(st.none(), st.none(), name_text(6), st.just(""))),
            "identifier": None,
        }
        pts.append(p)
    return {"t": "contour", "identifier": None, "points": pts}


@st.composite
def _component(draw):
    tr = draw(
        st.one_of(
            st.just([1, 0, 0, 1, 0, 0]),
            st.tuples(st.just(1), st.just(0), st.just(0), st.just(1), glif_num(), glif_num()).map(list),
            st.lists(glif_num(), min_size=6, max_size=6),
            st.just([1.0, 0.0, 0.0, 1.0, 0.0, 0.0]),
        )
    )
    return {"t": "component", "base": draw(glyph_name()), "transformation": tr, "identifier": None}


@st.composite
def _guideline(draw):
    kind = draw(st.sampled_from(["x", "y", "xy"]))
    g = {}
    if kind in ("x", "xy"):
        g["x"] = draw(glif_num())
    if kind in ("y", "xy"):
        g["y"] = draw(glif_num())
    if kind == "xy":
        g["angle"] = draw(st.one_of(st.integers(0, 360), st.floats(min_value=0, max_value=360, allow_nan=False), st.sampled_from([0, 360, 0.0, 359.999])))
    if draw(st.booleans()):
        g["name"] = draw(name_text(8))
    if draw(st.booleans()):
        g["color"] = draw(color())
    return g


@st.composite
def glyph_record(draw, fmt=None, small=False):
    if fmt is None:
        fmt = draw(st.sampled_from([1, 2, 2]))
    g = {
        "name": draw(glyph_name()),
        "format": fmt,
        "width": draw(st.one_of(st.none(), glif_num(), st.just(0))),
        "height": draw(st.one_of(st.none(), st.none(), glif_num(), st.just(0))),
        "unicodes": draw(st.lists(st.one_of(st.integers(0, 0x10FFFF), st.sampled_from([0x41, 0x61, 0, 0x1F600, 0x10FFFF])), max_size=4)),
        "note": draw(st.one_of(st.none(), _note())),
        "lib": draw(st.one_of(st.none(), st.just({}), plist_dict(5), st.fixed_dictionaries({"public.markColor": color()}))),
        "image": None,
        "guidelines": [],
        "anchors": [],
        "outline": [],
    }
    n_el = draw(st.integers(0, 2 if small else 4))
    for _ in range(n_el):
        g["outline"].append(draw(st.one_of(_contour(fmt), _contour(fmt), _component())))
    if fmt == 1:
        # GLIF 1 stores anchors as named single-move contours: anchors must be named, and a
        # generated single named move contour would be indistinguishable from an anchor
        for el in g["outline"]:
            if el["t"] == "contour" and len(el["points"]) == 1 and el["points"][0]["type"] == "move" and el["points"][0]["name"] is not None:
                el["points"][0]["name"] = None
        for _ in range(draw(st.integers(0, 2))):
            g["anchors"].append({"x": draw(glif_num()), "y": draw(glif_num()), "name": draw(name_text(6))})
    else:
        for _ in range(draw(st.integers(0, 3))):
            a = {"x": draw(glif_num()), "y": draw(glif_num())}
            if draw(st.booleans()):
                a["name"] = draw(st.one_of(name_text(6), st.just("")))
            if draw(st.booleans()):
                a["color"] = draw(color())
            g["anchors"].append(a)
        for _ in range(draw(st.integers(0, 2))):
            g["guidelines"].append(draw(_guideline()))
        if draw(st.integers(0, 2)) == 0:
            img = {"fileName": draw(st.one_of(simple_filename(".png"), name_text(8)))}
            keys = ["xScale", "xyScale", "yxScale", "yScale", "xOffset", "yOffset"]
            for k in draw(st.lists(st.sampled_from(keys), unique=True, max_size=6)):
                img[k] = draw(st.one_of(glif_num(), st.sampled_from([0, 1, 1.0, 0.0])))
            if draw(st.booleans()):
                img["color"] = draw(color())
            g["image"] = img
        # identifiers: unique over points, contours, components, anchors, guidelines
        slots = []
        for el in g["outline"]:
            slots.append(el)
            if el["t"] == "contour":
                slots.extend(el["points"])
        slots.extend(g["anchors"])
        slots.extend(g["guidelines"])
        chosen = [s for s in slots if draw(st.integers(0, 2)) == 0]
        ids = draw(st.lists(identifier(), min_size=len(chosen), max_size=len(chosen), unique=True))
        for s, i in zip(chosen, ids):
            s["identifier"] = i
    return g


def _note():
    line = xml_text(1, 10).filter(lambda s: s.strip() == s and s != "" and "\n" not in s)
    clean = st.lists(line, min_size=1, max_size=3).map("\n".join)
    # a note whose lines carry ASCII indentation / blank lines (normalised by the format)
    messy = st.lists(st.tuples(st.sampled_from(["", " ", "\t", "   "]), line, st.sampled_from(["", " ", "\n"])).map("".join), min_size=1, max_size=3).map(
        "\n".join
    )
    return st.one_of(clean, clean, messy)


@st.composite
def glif_case(draw):
    return {"glyph": draw(glyph_record()), "validate": draw(st.sampled_from([True, True, False]))}


@st.composite
def glyphset_case(draw):
    ufo = draw(st.sampled_from([3, 3, 2, 1]))
    n = draw(st.integers(1, 5))
    glyphs = []
    seen = set()
    for _ in range(n):
        g = draw(glyph_record(fmt=None if ufo == 3 else 1, small=True))
        if g["name"] in seen:
            continue
        seen.add(g["name"])
        glyphs.append(g)
    return {"ufo": ufo, "glyphs": glyphs}


# ---------------------------------------------------------------------------
# UFO contents

PNG_SIG = b"\x89PNG\r\n\x1a\n"

_INT_LISTS = {
    "openTypeHeadFlags": list(range(0, 15)),
    "openTypeOS2Selection": [1, 2, 3, 4, 7, 8, 9],
    "openTypeOS2UnicodeRanges": list(range(0, 128)),
    "openTypeOS2CodePageRanges": list(range(0, 64)),
    "openTypeOS2Type": [0, 1, 2, 3, 8, 9],
}
_NONNEG_INT = {"versionMinor", "woffMajorVersion", "woffMinorVersion", "openTypeOS2WeightClass", "openTypeHeadLowestRecPPEM", "openTypeOS2WinAscent", "openTypeOS2WinDescent"}


def info_number():
    return st.one_of(st.integers(-2000, 4000), st.integers(-200000, 400000).map(lambda k: k / 100), st.integers(-2000, 2000).map(float))


def _woff_text_record():
    return st.fixed_dictionaries(
        {"text": xml_text(0, 10)},
        optional={"language": st.sampled_from(["en", "fr", "ja"]), "dir": st.sampled_from(["ltr", "rtl"]), "class": name_text(5)},
    )


def _woff_text_list(min_size=0):
    return st.lists(_woff_text_record(), min_size=min_size, max_size=2)


@st.composite
def _head_created(draw):
    import calendar

    y = draw(st.integers(1, 9999))
    m = draw(st.integers(1, 12))
    d = draw(st.integers(1, calendar.monthrange(y, m)[1]))
    return "%04d/%02d/%02d %02d:%02d:%02d" % (y, m, d, draw(st.integers(0, 23)), draw(st.integers(0, 59)), draw(st.integers(0, 59)))


@st.composite
def _info_guidelines(draw):
    gs = draw(st.lists(_guideline(), min_size=1, max_size=3))
    chosen = [g for g in gs if draw(st.booleans())]
    ids = draw(st.lists(identifier(), min_size=len(chosen), max_size=len(chosen), unique=True))
    for g, i in zip(chosen, ids):
        g["identifier"] = i
    return gs


def info_value(attr, typ):
    """Strategy for a UFO 3 fontinfo value. `typ` is the type entry of the library's
    attribute table (used only to pick the generator family)."""
    if attr == "styleMapStyleName":
        return st.sampled_from(["regular", "italic", "bold", "bold italic"])
    if attr == "openTypeHeadCreated":
        return _head_created()
    if attr == "openTypeOS2WidthClass":
        return st.integers(1, 9)
    if attr == "postscriptWindowsCharacterSet":
        return st.integers(1, 20)
    if attr in _NONNEG_INT:
        return st.integers(0, 5000)
    if attr == "unitsPerEm":
        return st.one_of(st.integers(0, 4096), st.sampled_from([1000, 2048, 1000.0, 1024.5]))
    if attr in _INT_LISTS:
        return st.lists(st.sampled_from(_INT_LISTS[attr]), unique=True, max_size=6).map(sorted)
    if attr == "openTypeOS2Panose":
        return st.lists(st.integers(0, 20), min_size=10, max_size=10)
    if attr == "openTypeOS2FamilyClass":
        return st.tuples(st.integers(0, 14), st.integers(0, 15)).map(list)
    if attr in ("postscriptBlueValues", "postscriptFamilyBlues"):
        return st.integers(0, 7).flatmap(lambda n: st.lists(info_number(), min_size=2 * n, max_size=2 * n))
    if attr in ("postscriptOtherBlues", "postscriptFamilyOtherBlues"):
        return st.integers(0, 5).flatmap(lambda n: st.lists(info_number(), min_size=2 * n, max_size=2 * n))
    if attr in ("postscriptStemSnapH", "postscriptStemSnapV"):
        return st.lists(info_number(), max_size=12)
    if attr == "openTypeGaspRangeRecords":
        rec = st.fixed_dictionaries({"rangeMaxPPEM": st.integers(0, 65535), "rangeGaspBehavior": st.lists(st.sampled_from([0, 1, 2, 3]), unique=True, max_size=4).map(sorted)})
        return st.lists(rec, max_size=3).map(lambda l: sorted(l, key=lambda r: r["rangeMaxPPEM"]))
    if attr == "openTypeNameRecords":
        rec = st.fixed_dictionaries(
            {"nameID": st.integers(0, 300), "platformID": st.integers(0, 4), "encodingID": st.integers(0, 10), "languageID": st.integers(0, 0x1000), "string": xml_text(0, 12)}
        )
        return st.lists(rec, max_size=3)
    if attr == "woffMetadataUniqueID":
        return st.fixed_dictionaries({"id": xml_text(0, 10)})
    if attr == "woffMetadataVendor":
        return st.fixed_dictionaries({"name": xml_text(0, 8)}, optional={"url": xml_text(0, 8), "dir": st.sampled_from(["ltr", "rtl"]), "class": name_text(4)})
    if attr == "woffMetadataCredits":
        credit = st.fixed_dictionaries({"name": xml_text(0, 8)}, optional={"url": xml_text(0, 8), "role": name_text(5), "dir": st.sampled_from(["ltr", "rtl"]), "class": name_text(4)})
        return st.fixed_dictionaries({"credits": st.lists(credit, min_size=1, max_size=2)})
    if attr == "woffMetadataDescription":
        return st.fixed_dictionaries({"text": _woff_text_list()}, optional={"url": xml_text(0, 8)})
    if attr == "woffMetadataLicense":
        return st.fixed_dictionaries({}, optional={"url": xml_text(0, 8), "text": _woff_text_list(), "id": name_text(5)})
    if attr in ("woffMetadataCopyright", "woffMetadataTrademark"):
        return st.fixed_dictionaries({"text": _woff_text_list()})
    if attr == "woffMetadataLicensee":
        return st.fixed_dictionaries({"name": xml_text(0, 8)}, optional={"dir": st.sampled_from(["ltr", "rtl"]), "class": name_text(4)})
    if attr == "woffMetadataExtensions":
        item = st.fixed_dictionaries({"names": _woff_text_list(), "values": _woff_text_list()}, optional={"id": name_text(4)})
        ext = st.fixed_dictionaries({"items": st.lists(item, max_size=2)}, optional={"names": _woff_text_list(), "id": name_text(4)})
        return st.lists(ext, min_size=1, max_size=2)
    if attr == "guidelines":
        return _info_guidelines()
    if typ is str:
        return xml_text(0, 14)
    if typ is bool:
        return st.booleans()
    if typ is int:
        return st.integers(-2000, 4000)
    if isinstance(typ, tuple):
        return info_number()
    raise KeyError("no generator for fontinfo attribute %r (%r)" % (attr, typ))


def _info_table():
    from fontTools.ufoLib import fontInfoAttributesVersion3ValueData

    return {a: d.get("type") for a, d in fontInfoAttributesVersion3ValueData.items()}


@st.composite
def font_info(draw, max_attrs=14):
    table = _info_table()
    attrs = draw(st.lists(st.sampled_from(sorted(table)), unique=True, max_size=max_attrs))
    return {a: draw(info_value(a, table[a])) for a in attrs}


_KGLYPHS = ["A", "B", "a", "b", "V", "T", "o", "period", "a.alt", "é", "uni0041", "space"]


@st.composite
def groups_and_kerning(draw):
    groups = {}
    for side in ("public.kern1.", "public.kern2."):
        pool = list(_KGLYPHS)
        for gn in draw(st.lists(name_text(6), max_size=3, unique=True)):
            k = draw(st.integers(0, min(3, len(pool))))
            members = [pool.pop(draw(st.integers(0, len(pool) - 1))) for _ in range(k)]
            groups[side + gn] = members
    for gn in draw(st.lists(name_text(6).filter(lambda s: not s.startswith("public.")), max_size=2, unique=True)):
        groups[gn] = draw(st.lists(st.sampled_from(_KGLYPHS), max_size=4))
    if draw(st.integers(0, 3)) == 0:
        groups["public.other"] = draw(st.lists(st.sampled_from(_KGLYPHS), max_size=3))
    firsts = _KGLYPHS + [g for g in groups if g.startswith("public.kern1.")]
    seconds = _KGLYPHS + [g for g in groups if g.startswith("public.kern2.")]
    pairs = draw(st.lists(st.tuples(st.sampled_from(firsts), st.sampled_from(seconds)), unique=True, max_size=6))
    val = st.one_of(st.integers(-300, 300), st.integers(-30000, 30000).map(lambda k: k / 100), st.sampled_from([0, -0.0, 100.0, 1e-3]))
    kerning = [[a, b, draw(val)] for a, b in pairs]
    return groups, kerning


def features_text():
    return st.one_of(
        st.just(""),
        st.sampled_from(["languagesystem DFLT dflt;\n", "feature liga {\n  sub f i by f_i;\n} liga;\n", "# é comment\n@a = [a b];\n"]),
        xml_text(1, 30).filter(lambda s: not s.startswith("﻿")),
    )


def layer_name():
    return st.one_of(
        st.sampled_from(["foreground", "background", "Background", "BACKGROUND", "public.background", "Layer 1", ".hidden", "con", "a/b", "../up", "é", "x" * 120, "x" * 119 + "y", "glyphs", "A" * 130, "a:b", "a_b", "b_ackground", "x" * 260, "x" * 259 + "y", "con", "aux.x"]),
        name_text(12),
    )


def data_name():
    seg = st.text(alphabet="abcdefghijklmnopqrstuvwxyzABCDEFGHIJKLMNOPQRSTUVWXYZ0123456789 _-.é", min_size=1, max_size=10).filter(
        lambda s: s.strip(" .") == s and s != ""
    )
    return st.lists(seg, min_size=1, max_size=3).map("/".join)


@st.composite
def ufo_case(draw):
    groups, kerning = draw(groups_and_kerning())
    layers = []
    names = draw(st.lists(layer_name().filter(lambda s: s != "public.default"), min_size=0, max_size=3, unique=True))
    if names and draw(st.booleans()):
        base = draw(st.sampled_from(names))
        alias = "".join(c.lower() + "_" if c != c.lower() else c for c in base)
        if alias == base:
            alias = "".join({"/": ":", ":": "*", ".": "."}.get(c, c) for c in base)
        if alias == base:
            alias = base[:1].upper() + base[1:]
        if alias not in names and alias != "public.default" and (alias.isascii() or len(alias) <= 40):
            names.append(alias)
    # derived names that want the same directory as an earlier layer (case / illegal-character aliases)
    for _ in range(draw(st.integers(0, 2))):
        if names:
            cand = draw(_one_name(names))
            storable = cand and (cand.isascii() or len(cand) <= 40) and all((ord(c) >= 32 or c in "\t\n") and not 0xD800 <= ord(c) <= 0xDFFF and c not in "\ufffe\uffff" for c in cand)
            if storable and cand not in names and cand != "public.default":
                names.append(cand)
    default_name = draw(st.sampled_from(["public.default", "public.default", "foreground-default", "Main"]))
    names = [n for n in names if n != default_name]
    for ln in [default_name] + names:
        gs = []
        seen = set()
        for _ in range(draw(st.integers(0, 2))):
            g = draw(glyph_record(small=True))
            if g["name"] not in seen:
                seen.add(g["name"])
                gs.append(g)
        layers.append(
            {
                "name": ln,
                "default": ln == default_name,
                "glyphs": gs,
                "color": draw(opt(color())),
                "lib": draw(st.one_of(st.just({}), plist_dict(3))),
            }
        )
    order = draw(st.permutations(list(range(len(layers))))) if draw(st.booleans()) else None
    data_names = draw(st.lists(data_name(), max_size=3, unique_by=lambda s: s.lower()))
    # a data path must not be both a file and a directory prefix of another
    ok = []
    for n in data_names:
        if not any(o.lower().startswith(n.lower() + "/") or n.lower().startswith(o.lower() + "/") for o in ok):
            ok.append(n)
    images = draw(st.lists(st.text(alphabet="abcdefgXYZ0123456789_-", min_size=1, max_size=8).map(lambda s: s + ".png"), max_size=2, unique_by=lambda s: s.lower()))
    return {
        "structure": draw(st.sampled_from(["package", "package", "zip", "fs"])),
        "info": draw(font_info()),
        "groups": groups,
        "kerning": kerning,
        "lib": draw(st.one_of(st.just({}), plist_dict(6), st.fixed_dictionaries({"public.glyphOrder": st.lists(glyph_name(), max_size=4)}))),
        "features": draw(features_text()),
        "layers": layers,
        "layerOrder": list(order) if order is not None else None,
        "data": {n: draw(st.binary(max_size=40)) for n in ok},
        "images": {n: PNG_SIG + draw(st.binary(max_size=20)) for n in images},
    }


# UFO 1 / UFO 2 data for the up-conversion clause ------------------------------------

_V2_FLOAT_TO_INT = [
    "openTypeHeadLowestRecPPEM", "openTypeHheaAscender", "openTypeHheaDescender", "openTypeHheaLineGap", "openTypeHheaCaretOffset",
    "openTypeOS2TypoAscender", "openTypeOS2TypoDescender", "openTypeOS2TypoLineGap", "openTypeOS2WinAscent", "openTypeOS2WinDescent",
    "openTypeOS2SubscriptXSize", "openTypeOS2SubscriptYSize", "openTypeOS2SubscriptXOffset", "openTypeOS2SubscriptYOffset",
    "openTypeOS2SuperscriptXSize", "openTypeOS2SuperscriptYSize", "openTypeOS2SuperscriptXOffset", "openTypeOS2SuperscriptYOffset",
    "openTypeOS2StrikeoutSize", "openTypeOS2StrikeoutPosition", "openTypeVheaVertTypoAscender", "openTypeVheaVertTypoDescender",
    "openTypeVheaVertTypoLineGap", "openTypeVheaCaretOffset",
]
_V2_NONNEG = ["versionMinor", "openTypeHeadLowestRecPPEM", "openTypeOS2WinAscent", "openTypeOS2WinDescent"]
_V1_PLAIN = ["familyName", "styleName", "versionMajor", "versionMinor", "year", "copyright", "trademark", "unitsPerEm", "ascender", "descender", "capHeight", "xHeight", "italicAngle", "note"]
_V1_RENAMED = [
    "styleMapFamilyName", "openTypeNameDesigner", "openTypeNameDesignerURL", "openTypeNameManufacturer", "openTypeNameManufacturerURL",
    "openTypeNameLicense", "openTypeNameLicenseURL", "openTypeNameVersion", "openTypeNameUniqueID", "openTypeNameDescription",
    "openTypeNamePreferredFamilyName", "openTypeNamePreferredSubfamilyName", "openTypeNameCompatibleFullName", "postscriptWeightName",
    "openTypeOS2WeightClass", "openTypeOS2VendorID", "postscriptUniqueID", "postscriptFontName", "macintoshFONDFamilyID", "macintoshFONDName",
    "postscriptDefaultWidthX", "postscriptSlantAngle", "postscriptFullName", "styleMapStyleName", "openTypeOS2WidthClass", "postscriptWindowsCharacterSet",
]


def _frac_not_half():
    """A float whose fractional part is clearly not .5 (rounding direction unambiguous)."""
    return st.tuples(st.integers(-3000, 3000), st.sampled_from([0.0, 0.1, 0.25, 0.4, 0.49, 0.51, 0.75, 0.9])).map(lambda t: t[0] + t[1])


@st.composite
def upconvert_case(draw):
    version = draw(st.sampled_from([2, 2, 1]))
    table = _info_table()
    info = {}
    if version == 2:
        attrs = draw(st.lists(st.sampled_from(_V2_FLOAT_TO_INT + _V2_NONNEG + ["unitsPerEm", "familyName", "openTypeOS2Panose", "italicAngle", "postscriptIsFixedPitch", "openTypeOS2WeightClass", "note", "year"]), unique=True, max_size=10))
        for a in attrs:
            if a in _V2_FLOAT_TO_INT:
                info[a] = draw(st.one_of(st.integers(-3000, 3000), _frac_not_half()))
            elif a == "versionMinor":
                info[a] = draw(st.integers(-50, 50))
            elif a == "unitsPerEm":
                info[a] = draw(st.one_of(st.integers(-4000, 4000), st.sampled_from([-1000.0, 1000.0, -1024.5, 2048.25, 0])))
            elif a == "openTypeOS2Panose":
                info[a] = draw(st.lists(st.integers(0, 20), min_size=10, max_size=10))
            else:
                info[a] = draw(info_value(a, table[a]))
    else:
        attrs = draw(st.lists(st.sampled_from(_V1_PLAIN + _V1_RENAMED), unique=True, max_size=10))
        for a in attrs:
            if a == "versionMinor":
                info[a] = draw(st.integers(-50, 50))
            elif a == "unitsPerEm":
                info[a] = draw(st.one_of(st.integers(-4000, 4000), st.sampled_from([-1000.0, 1000.0, 2048.25])))
            else:
                info[a] = draw(info_value(a, table[a]))
    # groups and kerning in the UFO 1/2 conventions
    sufx = draw(st.lists(st.text(alphabet="abcdefgXYZ_09", min_size=1, max_size=5), min_size=0, max_size=4, unique=True))
    groups = {}
    poolL, poolR = list(_KGLYPHS), list(_KGLYPHS)
    left_groups, right_groups, plain_groups = [], [], []
    for s in sufx:
        kind = draw(st.sampled_from(["L", "R", "LR", "plainL", "plainR", "other"]))
        if "L" in kind and kind != "plainL":
            k = draw(st.integers(0, min(2, len(poolL))))
            groups["@MMK_L_" + s] = [poolL.pop(draw(st.integers(0, len(poolL) - 1))) for _ in range(k)]
            left_groups.append("@MMK_L_" + s)
        if "R" in kind and kind != "plainR":
            k = draw(st.integers(0, min(2, len(poolR))))
            groups["@MMK_R_" + s] = [poolR.pop(draw(st.integers(0, len(poolR) - 1))) for _ in range(k)]
            right_groups.append("@MMK_R_" + s)
        if kind == "plainL":
            k = draw(st.integers(0, min(2, len(poolL))))
            groups["grp_" + s] = [poolL.pop(draw(st.integers(0, len(poolL) - 1))) for _ in range(k)]
            plain_groups.append(("L", "grp_" + s))
        if kind == "plainR":
            k = draw(st.integers(0, min(2, len(poolR))))
            groups["grp_" + s] = [poolR.pop(draw(st.integers(0, len(poolR) - 1))) for _ in range(k)]
            plain_groups.append(("R", "grp_" + s))
        if kind == "other":
            groups["misc_" + s] = draw(st.lists(st.sampled_from(_KGLYPHS), max_size=3))
    firsts = _KGLYPHS + left_groups + [g for side, g in plain_groups if side == "L"]
    seconds = _KGLYPHS + right_groups + [g for side, g in plain_groups if side == "R"]
    pairs = draw(st.lists(st.tuples(st.sampled_from(firsts), st.sampled_from(seconds)), unique=True, max_size=6))
    kerning = [[a, b, draw(st.one_of(st.integers(-300, 300), st.sampled_from([12.5, -0.25, 100.0])))] for a, b in pairs]
    glyphs = draw(st.lists(st.sampled_from(_KGLYPHS), unique=True, max_size=4))
    return {"version": version, "info": info, "groups": groups, "kerning": kerning, "glyphs": glyphs, "lib": draw(st.one_of(st.just({}), plist_dict(3))), "features": draw(features_text()) if version == 2 else ""}


# ---------------------------------------------------------------------------
# glyph / layer name sequences

RESERVED = ["con", "prn", "aux", "nul", "clock$", "com1", "com5", "com9", "lpt1", "lpt4", "lpt9", "CON", "Con", "cOn", "AUX", "NUL", "Com1", "LPT9"]
_CASEY = ["a", "A", "ae", "AE", "Ae", "aE", "a_", "A_", "é", "É", "é", "É", "ß", "ẞ", "ss", "SS", "ı", "I", "i", "İ", "i̇", "ǆ", "ǅ", "Ǆ", "σ", "ς", "Σ", "k", "K", "K", "ſ", "s", "S", "ﬁ", "fi", "FI"]
_ILLEGAL = ['"', "*", "+", "/", ":", "<", ">", "?", "[", "\\", "]", "|", "(", ")", "\x00", "\x01", "\x1f", "\x7f", "\t", "\n"]


@st.composite
def _one_name(draw, pool):
    kind = draw(st.sampled_from(["pool", "pool", "case", "reserved", "dot", "long", "long-pair", "illegal", "any", "suffixlike", "resdot"]))
    if kind == "pool" and pool:
        base = draw(st.sampled_from(pool))
        how = draw(st.sampled_from(["same", "upper", "lower", "swap", "title", "underscore", "underscore", "illegal-swap"]))
        if how == "upper":
            return base.upper()
        if how == "lower":
            return base.lower()
        if how == "swap":
            return base.swapcase()
        if how == "title":
            return base.title()
        if how == "underscore":
            # 'A' and 'a_' both want the file name 'a_' (ignoring case)
            return "".join(c.lower() + "_" if c != c.lower() else c for c in base)
        if how == "illegal-swap":
            swap = {"/": ":", ":": "*", "*": "_", "_": "?", "?": "/", "(": "[", ")": "]"}
            return "".join(swap.get(c, c) for c in base)
        return base
    if kind == "case":
        return "".join(draw(st.lists(st.sampled_from(_CASEY), min_size=1, max_size=4)))
    if kind == "reserved":
        r = draw(st.sampled_from(RESERVED))
        return draw(st.sampled_from([r, r + ".alt", "alt." + r, r + "." + r, "x." + r + ".y", r + "_", "_" + r]))
    if kind == "dot":
        return draw(st.sampled_from([".notdef", ".", "..", ".a", "..a", "a.", "a..b", ".CON", ".con"]))
    if kind == "long":
        ch = draw(st.sampled_from(["a", "A", "é", "x.", "Ab", "_", "\U0001F600"]))
        n = draw(st.sampled_from([120, 127, 128, 200, 240, 250, 254, 255, 256, 300]))
        return (ch * n)[:n]
    if kind == "long-pair":
        # names that differ only beyond the truncation point, or only by case
        n = draw(st.sampled_from([236, 240, 250, 255, 260, 300]))
        tail = draw(st.sampled_from(["", "b", "B", "c" * 20, "1", "000000000000001"]))
        ch = draw(st.sampled_from(["a", "q", "A"]))
        return ch * n + tail
    if kind == "illegal":
        parts = draw(st.lists(st.one_of(st.sampled_from(_ILLEGAL), st.sampled_from(["a", "B", "_", "."])), min_size=1, max_size=6))
        return "".join(parts)
    if kind == "suffixlike":
        b = draw(st.sampled_from(["a", "A", "aa", "q" * 240]))
        return b + draw(st.sampled_from(["000000000000001", "000000000000002", "1", "_", "__", ".glif"]))
    if kind == "resdot":
        # reserved parts in long names (the prefix '_' is added after clipping)
        r = draw(st.sampled_from(["con", "aux", "nul", "com1", "lpt1"]))
        n = draw(st.sampled_from([230, 245, 247, 250, 251, 255, 300]))
        where = draw(st.sampled_from(["head", "tail", "many"]))
        if where == "head":
            return r + "." + "a" * n
        if where == "tail":
            return "a" * n + "." + r
        return (r + ".") * (n // 4)
    return draw(st.text(alphabet=st.characters(exclude_categories=("Cs",)), min_size=1, max_size=12))


@st.composite
def name_sequence(draw, max_len=30):
    n = draw(st.integers(2, max_len))
    names = []
    for _ in range(n):
        names.append(draw(_one_name(names)))
    return {"names": names, "variant": draw(st.sampled_from(["ufo", "ufo-glif", "ufo-layer", "misc", "misc-glif"]))}


@st.composite
def glyphset_ops(draw):
    """A history of GlyphSet operations on a directory."""
    n = draw(st.integers(3, 25))
    ops = []
    names = []
    for _ in range(n):
        k = draw(st.sampled_from(["write", "write", "write", "rewrite", "delete", "reopen", "contents"]))
        if k == "write":
            nm = draw(_one_name(names))
            if names and draw(st.booleans()):
                # a name that wants the file name of an earlier glyph (ignoring case)
                base = draw(st.sampled_from(names))
                cands = [
                    "".join(c.lower() + "_" if c != c.lower() else c for c in base),
                    "".join({"/": ":", ":": "*", "*": "?", "?": "/", "(": "[", "[": "("}.get(c, c) for c in base),
                    base[:250] + "x" * 10 if len(base) > 255 else base,
                ]
                for i, c in enumerate(base):
                    if c == "_" and i > 0 and base[i - 1].isalpha() and base[i - 1] == base[i - 1].lower() and base[i - 1].upper() != base[i - 1]:
                        cands.append(base[: i - 1] + base[i - 1].upper() + base[i + 1 :])
                        break
                cands = [c for c in cands if c != base and c not in names]
                if cands:
                    nm = draw(st.sampled_from(cands))
            names.append(nm)
            ops.append(["write", nm])
        elif k in ("rewrite", "delete") and names:
            ops.append([k, draw(st.sampled_from(names))])
        else:
            ops.append([k if k in ("reopen", "contents") else "contents", None])
    return {"ops": ops}


# ---------------------------------------------------------------------------
# axis maps


@st.composite
def axis_map_case(draw):
    n = draw(st.integers(2, 6))
    grid = draw(st.sampled_from([1, 8, 1000, None]))

    def val(lo, hi):
        if grid is None:
            return st.floats(min_value=lo, max_value=hi, allow_nan=False)
        return st.integers(int(lo * grid), int(hi * grid)).map(lambda k: k / grid if grid != 1 else k)

    u0 = draw(val(-1000, 1000))
    d0 = draw(val(-1000, 1000))
    direction = draw(st.sampled_from([1, 1, 1, -1]))
    us, ds = [u0], [d0]
    for _ in range(n - 1):
        du = draw(val(1, 400))
        slope = draw(st.sampled_from([0.001, 0.01, 0.1, 0.5, 1, 1, 2, 10, 100, 1000]))
        dd = du * slope
        if grid is not None:
            dd = max(round(dd * grid), 1) / grid
        us.append(us[-1] + du)
        ds.append(ds[-1] + direction * dd)
    if any(b <= a for a, b in zip(us, us[1:])) or any((b - a) * direction <= 0 for a, b in zip(ds, ds[1:])):
        # float addition collapsed a step: fall back to a plain integer map
        us = list(range(0, 100 * n, 100))
        ds = [direction * 37 * i for i in range(n)]
    ts = draw(st.lists(st.one_of(st.floats(min_value=0, max_value=1, allow_nan=False), st.sampled_from([0.0, 1.0, 0.5])), min_size=1, max_size=6))
    segs = draw(st.lists(st.integers(0, n - 2), min_size=len(ts), max_size=len(ts)))
    vs = []
    for t, s in zip(ts, segs):
        v = us[s] + (us[s + 1] - us[s]) * t
        v = min(max(v, us[0]), us[-1])
        vs.append(v)
    vs.extend(draw(st.lists(st.sampled_from(us), max_size=3)))
    order = draw(st.sampled_from(["sorted", "reversed", "shuffled"]))
    pairs = [[u, d] for u, d in zip(us, ds)]
    if order == "reversed":
        pairs = pairs[::-1]
    elif order == "shuffled":
        pairs = list(draw(st.permutations(pairs)))
    return {"map": pairs, "vs": vs, "discrete": False}


@st.composite
def discrete_map_case(draw):
    vals = draw(st.lists(st.integers(-10, 100), min_size=1, max_size=5, unique=True))
    outs = draw(st.lists(st.integers(-1000, 1000), min_size=len(vals), max_size=len(vals), unique=True))
    return {"map": [[a, b] for a, b in zip(vals, outs)], "vs": vals, "discrete": True}
