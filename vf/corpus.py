"""Corpus access. vf/corpus_index.json (built by tools/build_index.py on the
unchanged tree) lists which files under /repo/Tests are complete fonts together
with cheap attributes; the bytes are always loaded / compiled from /repo at run
time, with the fontTools of the tree under test.

A font id is "bin:<path relative to Tests>[#n]" (n = TTC member) or
"ttx:<relative path>" (complete TTX font, compiled on demand)."""

import io
import json
import os
import random

from .runner import TESTS, HarnessError

_INDEX = None


def index():
    global _INDEX
    if _INDEX is None:
        with open(os.path.join(os.path.dirname(__file__), "corpus_index.json")) as f:
            _INDEX = json.load(f)
    return _INDEX


def fonts(pred=None):
    """List of index entries (dicts) for usable fonts, in stable order."""
    out = [e for e in index()["fonts"]]
    if pred:
        out = [e for e in out if pred(e)]
    return out


def ids(pred=None):
    return [e["id"] for e in fonts(pred)]


def entry(fid):
    for e in index()["fonts"]:
        if e["id"] == fid:
            return e
    raise KeyError(fid)


def path_of(fid):
    kind, rest = fid.split(":", 1)
    rel = rest.split("#")[0]
    return os.path.join(TESTS, rel)


def file_bytes(fid):
    with open(path_of(fid), "rb") as f:
        return f.read()


def load_font(fid, **kw):
    """Open the font with the fontTools under test. For ttx ids the XML is imported
    (the result is an unsaved in-memory font); for bin ids the file is opened."""
    from fontTools.ttLib import TTFont

    kind, rest = fid.split(":", 1)
    if kind == "ttx":
        f = TTFont(**{k: v for k, v in kw.items() if k in ("recalcBBoxes", "recalcTimestamp")})
        f.importXML(path_of(fid))
        return f
    num = -1
    if "#" in rest:
        num = int(rest.split("#")[1])
    return TTFont(io.BytesIO(file_bytes(fid)), fontNumber=num, **kw)


def sfnt_bytes(fid):
    """Bytes of a plain (or original-flavour) font file for this id: bin ids give the
    file bytes (TTC members are re-saved as a standalone sfnt); ttx ids are compiled."""
    kind, rest = fid.split(":", 1)
    if kind == "bin" and "#" not in rest:
        return file_bytes(fid)
    f = load_font(fid)
    buf = io.BytesIO()
    f.save(buf)
    return buf.getvalue()


def sample(items, k, seed):
    items = list(items)
    if k >= len(items):
        return items
    rnd = random.Random(seed)
    return sorted(rnd.sample(items, k), key=items.index)


def shard(items, n):
    """Split into n interleaved shards (stable)."""
    return [items[i::n] for i in range(n) if items[i::n]]


def designspaces():
    out = []
    for dp, dn, fn in os.walk(TESTS):
        dn.sort()
        for f in sorted(fn):
            if f.endswith(".designspace"):
                out.append(os.path.join(dp, f))
    return out


def fea_files():
    out = []
    for dp, dn, fn in os.walk(TESTS):
        dn.sort()
        for f in sorted(fn):
            if f.endswith(".fea"):
                out.append(os.path.join(dp, f))
    return out
