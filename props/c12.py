"""C12 — rewriting a CFF charstring never changes what it draws.

Generated Type 2 programs (vf/gen_t2.py) and all charstrings of the CFF/CFF2 corpus
fonts are pushed through every rewrite the library offers; the path drawn by
T2CharString.draw and the advance width are compared before vs after, and the original
program is additionally drawn by two independent interpreters (vf/ref_t2.py written
from Technical Note #5177, and HarfBuzz on the program wrapped into a CFF font).
Every emitted program must pass ref_t2's operand-stack and operator-arity check.
"""

import io
import math
import random

from vf import corpus, geom, gen_t2, ref_t2
from vf.runner import Acc, Allowed, CaseTimeout, HarnessError, fingerprint, hyp_collect, innermost_frame, short, subseed, time_limit

ID = "C12"
LEVEL = "exploration"
RULE = (
    "Hypothesis-generated well-formed Type 2 programs from the operator grammar of TN5177 (every path operator in each "
    "argument-count form, stem hints, hintmask/cntrmask with exact mask length, implicit vstem, optional width, integer and "
    "16.16 operands at the encoder boundaries, general and specialised spellings), grouped into small CFF fonts whose glyphs "
    "are also outlined into local/global subroutines (random token runs, shared hint blocks, nesting, empty subrs, endchar in "
    "a subr, all three subr biases); CFF2 programs with blend/vsindex; all charstrings of the CFF/CFF2 corpus fonts. Rewrites: "
    "programToCommands/commandsToProgram, generalizeProgram, specializeProgram (preserveTopology on/off, maxstack variants), "
    "T2CharStringPen, compile/decompile, desubroutinize, remove_hints, remove_unused_subroutines, CFF->CFF2->CFF, "
    "optimizeWidths re-encoding. Oracles: fontTools draw before vs after (exact segment structure, or fill-equivalence when "
    "topology may change), ref_t2 and HarfBuzz on the original, ref_t2 stack/arity check on every emitted program. "
    "non-trivial = at least one rewrite changed the token sequence; distinct by program"
)
ASSUMPTIONS = [
    "the specialiser is only fed subroutine-free programs (its documented precondition); subroutinised programs go through desubroutinize first",
    "all points of a generated glyph lie in [-16384, 16383] so every delta between two points is a legal Type 2 operand (excluded class: merged operands > 32767, see sensitivity/C12.md findings)",
    "generated CFF2 programs have at most one blend operator before the first stack-clearing operator (excluded class: programToCommands mis-detects a width, see findings)",
    "fill-equivalence (preserveTopology=False): zero-length lines dropped, a curve whose control points coincide with its end points is a line, consecutive parallel lines are joined (same or opposite direction); single-point contours are ignored everywhere",
    "specializeCommands documents that emitted path operators use at most maxstack-1 operands ('so that subroutinizer can insert subroutine calls at any point'); checked as documented",
    "HarfBuzz 12.1's CFF interpreter is correct; it reports float32 coordinates, hence tolerance 1e-3 (+2.5e-7*|coordinate|) for fractional operands",
    "hmtx advances are integers: a generated fractional charstring width is compared through the charstring, and through otRound in hmtx-based legs",
    "corpus charstrings that ref_t2 itself finds malformed are only required not to get new problems",
    "conversions are driven the way their command lines do (TTFont opened with recalcBBoxes=False) and glyphs are addressed by index, because convertCFF2ToCFF renames the charset but not the TTFont glyph order (finding C in sensitivity/C12.md)",
    "classes excluded by construction after findings on the unchanged tree (all counted under excluded_by_construction, details in sensitivity/C12.md): subr whose only non-hint operator is its final endchar; call to an empty subr with pending operands; 'w endchar' glyph with the width inside a subr; first stack-clearing operator with 48 operands; CFF2->CFF on a freshly loaded font that uses local subrs",
]
WALL_BUDGET = {"quick": 1500, "thorough": 4 * 3600}

SPECIALISED_OPS = {"hlineto", "vlineto", "hhcurveto", "vvcurveto", "hvcurveto", "vhcurveto", "rcurveline", "rlinecurve", "hmoveto", "vmoveto"}
MERGED_OPS = {"rlineto", "hlineto", "vlineto", "rrcurveto", "hhcurveto", "vvcurveto", "hvcurveto", "vhcurveto", "rcurveline", "rlinecurve"}
HINT_TOKENS = {"hstem", "vstem", "hstemhm", "vstemhm", "hintmask", "cntrmask"}

# label families that must all be hit in a run (vacuity guard)
REQUIRED_FORMS = [
    "rmoveto", "hmoveto", "vmoveto", "rlineto/1", "rlineto/n", "hlineto/odd", "hlineto/even", "hlineto/1", "vlineto/odd", "vlineto/even",
    "vlineto/1", "rrcurveto/1", "rrcurveto/n", "hhcurveto/1", "hhcurveto/n", "hhcurveto/dy1+1", "hhcurveto/dy1+n", "vvcurveto/1",
    "vvcurveto/n", "vvcurveto/dx1+1", "vvcurveto/dx1+n", "hvcurveto/4+8n", "hvcurveto/4+8n+1", "hvcurveto/8n", "hvcurveto/8n+1",
    "vhcurveto/4+8n", "vhcurveto/4+8n+1", "vhcurveto/8n", "vhcurveto/8n+1", "rcurveline/1", "rcurveline/n", "rlinecurve/1",
    "rlinecurve/n", "flex", "hflex", "hflex1", "flex1/horizontal", "flex1/vertical", "flex1/tie", "hstem/1", "hstem/n", "vstem/1", "vstem/n",
    "hstemhm/1", "hstemhm/n", "vstemhm/1", "vstemhm/n", "hintmask/plain", "hintmask/implicit-vstem", "cntrmask/plain",
    "cntrmask/implicit-vstem", "mask-bytes=1", "mask-bytes=2", "mask-bytes=3", "endchar",
]
REQUIRED_OTHER = [
    "width:operand", "width:default", "num:int", "num:frac", "mode:general", "mode:special", "mode:mixed", "mode:stress", "subr:local", "subr:global",
    "subr:nested", "subr:bias107", "subr:bias1131", "subr:empty-subr", "subr:endchar-in-subr", "subr:width-in-subr", "subr:hints-in-subr",
    "enc:1byte", "enc:2byte", "enc:3byte", "enc:fixed", "enc:edge-107/108", "enc:edge-1131/1132", "spec:changed", "spec:merged-ops", "gen:changed",
    "cff2:blend/1", "cff2:blend/n", "cff2:vsindex", "corpus:CFF", "corpus:CFF2",
]
REQUIRED_THOROUGH = ["subr:bias32768", "enc:32767"]


# ---------------------------------------------------------------------------
# geometry helpers on top of vf.geom


def _q16(prog):
    """operands rounded to the nearest multiple of 1/65536 (integers stay integers)"""
    out = []
    for t in prog:
        if isinstance(t, float):
            r = round(t * 65536) / 65536.0
            t = int(r) if r == int(r) else r
        out.append(t)
    return out


def _same_program_16_16(a, b):
    """Token sequences equal; a number of the source that is not a multiple of 1/65536 comes back as the nearest one
    (Type 2 operands are integers or 16.16 fixed numbers): at most half a unit (2**-17) away."""
    a, b = list(a), list(b)
    if len(a) != len(b):
        return False
    for x, y in zip(a, b):
        nx, ny = isinstance(x, (int, float)) and not isinstance(x, bool), isinstance(y, (int, float)) and not isinstance(y, bool)
        if nx and ny:
            if x != y and (abs(x - y) > 2.0**-17 or x * 65536 != int(x * 65536)):
                return False
        elif x != y:
            return False
    return True


def _maxabs(ops):
    m = 0.0
    for _, pts in ops:
        for p in pts:
            if p is not None:
                m = max(m, abs(p[0]), abs(p[1]))
    return m


def _is_frac(prog):
    return any(isinstance(t, float) and t != int(t) for t in prog)


def _tol(prog, ops):
    """exact for integer operands, 1e-6 relative for fractional ones"""
    return 1e-6 * max(1.0, _maxabs(ops)) if _is_frac(prog) else 0.0


def _hb_tol(prog, ops):
    return 1e-3 + 2.5e-7 * _maxabs(ops) if _is_frac(prog) else 1e-6


def _canon_exact(ops):
    """Exact point structure: every segment kept (also zero-length ones), no rotation;
    contours consisting of a lone moveto are ignored."""
    return [c for c in geom.canon(ops, drop_degenerate=False) if c["segs"]]


def exact_same(a_ops, b_ops, tol):
    A, B = _canon_exact(a_ops), _canon_exact(b_ops)
    if len(A) != len(B):
        return False, "contour count %d vs %d" % (len(A), len(B))
    for i, (a, b) in enumerate(zip(A, B)):
        if len(a["segs"]) != len(b["segs"]):
            return False, "contour %d: segment count %d vs %d; %s vs %s" % (i, len(a["segs"]), len(b["segs"]), geom.short_contour(a, 4), geom.short_contour(b, 4))
        for k, (s, t) in enumerate(zip(a["segs"], b["segs"])):
            if not geom._seg_close(s, t, tol):
                return False, "contour %d segment %d: %r vs %r" % (i, k, s, t)
    return True, ""


def _lineify(contours):
    """A cubic whose control points coincide with its end points is a straight line."""
    out = []
    for c in contours:
        segs = []
        for s in c["segs"]:
            if s[0] == "C" and s[2] == s[1] and s[3] == s[4]:
                s = ("L", s[1], s[4])
            segs.append(s)
        out.append(dict(c, segs=segs))
    return out


def _join_parallel(contours, tol):
    """Normal form for the *filled* outline: drop zero-length lines, join consecutive parallel
    lines (same or opposite direction: a retraced spur has no area) until nothing changes.
    The closing segment is not joined with the first one (neither does any rewrite)."""
    out = []
    for c in contours:
        segs = [s for s in c["segs"] if not geom._degenerate(s, tol)]
        changed = True
        while changed:
            changed = False
            for i in range(len(segs) - 1):
                a, b = segs[i], segs[i + 1]
                if a[0] == "L" and b[0] == "L":
                    d1 = (a[2][0] - a[1][0], a[2][1] - a[1][1])
                    d2 = (b[2][0] - b[1][0], b[2][1] - b[1][1])
                    cross = d1[0] * d2[1] - d1[1] * d2[0]
                    scale = max(abs(d1[0]), abs(d1[1]), abs(d2[0]), abs(d2[1]), 1.0)
                    if abs(cross) <= 1e-12 * scale * scale:
                        m = ("L", a[1], b[2])
                        segs = segs[:i] + ([] if geom._degenerate(m, tol) else [m]) + segs[i + 2 :]
                        changed = True
                        break
        out.append(dict(c, segs=segs))
    return [c for c in out if c["segs"]]


def fill_same(a_ops, b_ops, tol, acc=None, degen_tol=0.0):
    """Equal up to representation of the filled outline. Returns (ok, detail).
    tol: coordinate tolerance; degen_tol: length below which a segment counts as zero-length
    (0 for before/after comparisons: the rewrites only drop exactly zero-length segments, and
    fontTools' arithmetic on 16.16 operands is exact in doubles)."""
    A = [c for c in geom.canon(a_ops, tol=degen_tol) if c["segs"]]
    B = [c for c in geom.canon(b_ops, tol=degen_tol) if c["segs"]]
    ok, detail = geom.same_geometry(A, B, tol=tol)
    if ok:
        return True, ""
    ok, _ = geom.same_geometry(geom.merge_collinear(A), geom.merge_collinear(B), tol=tol)
    if ok:
        if acc is not None:
            acc.label("equal:after-collinear-merge")
        return True, ""
    A2, B2 = _join_parallel(_lineify(A), degen_tol), _join_parallel(_lineify(B), degen_tol)
    ok, detail2 = geom.same_geometry(A2, B2, tol=tol)
    if ok:
        if acc is not None:
            acc.label("equal:after-line-normal-form")
        return True, ""
    return False, detail2 or detail


def _round_ops(ops):
    def r(v):
        return int(math.floor(v + 0.5))

    return [(o, tuple((r(p[0]), r(p[1])) for p in pts)) for o, pts in ops]


# ---------------------------------------------------------------------------
# fontTools-side helpers


def _private(dwx, nwx, lsubr_cs=None):
    from fontTools.cffLib import PrivateDict

    p = PrivateDict()
    p.defaultWidthX = dwx
    p.nominalWidthX = nwx
    if lsubr_cs:
        p.Subrs = lsubr_cs
    return p


class _VStore:
    def __init__(self, regions):
        self.regions = regions

    def getNumRegions(self, vi):
        return self.regions[vi or 0]


def _private2(regions):
    from fontTools.cffLib import PrivateDict

    p = PrivateDict()
    p._isCFF2 = True
    p.vstore = _VStore(regions)
    p.nominalWidthX = p.defaultWidthX = None
    return p


def _subr_objects(progs):
    from fontTools.misc.psCharStrings import T2CharString

    cache = {}
    out = []
    for p in progs:
        k = id(p)
        if k not in cache:
            cache[k] = T2CharString(program=list(p))
        out.append(cache[k])
    return out


def ft_draw(prog, priv, gsubrs=None, blender=None, bytecode=None):
    """(pen ops, width) through T2CharString.draw into a RecordingPen."""
    from fontTools.misc.psCharStrings import T2CharString
    from fontTools.pens.recordingPen import RecordingPen

    if bytecode is not None:
        cs = T2CharString(bytecode=bytecode, private=priv, globalSubrs=gsubrs)
    else:
        cs = T2CharString(program=list(prog), private=priv, globalSubrs=gsubrs)
    pen = RecordingPen()
    cs.draw(pen, blender) if blender else cs.draw(pen)
    return pen.value, cs.width


def ft_width(prog, priv, gsubrs=None):
    from fontTools.misc.psCharStrings import T2CharString, T2WidthExtractor

    cs = T2CharString(program=list(prog), private=priv, globalSubrs=gsubrs)
    ex = T2WidthExtractor(getattr(priv, "Subrs", []), gsubrs or [], priv.nominalWidthX, priv.defaultWidthX)
    ex.execute(cs)
    return ex.width


def _cs_draw(cs):
    from fontTools.pens.recordingPen import RecordingPen

    pen = RecordingPen()
    cs.draw(pen)
    return pen.value, getattr(cs, "width", None)


def _subr_prog(s):
    return list(s.program) if s.bytecode is None else bytes(s.bytecode)


def _enc_labels(prog):
    out = set()
    for t in prog:
        if isinstance(t, (str, bytes)):
            continue
        if isinstance(t, float) and t != int(t):
            out.add("enc:fixed")
            continue
        a = abs(int(t))
        out.add("enc:1byte" if a <= 107 else "enc:2byte" if a <= 1131 else "enc:3byte")
        if a in (107, 108):
            out.add("enc:edge-107/108")
        if a in (1131, 1132):
            out.add("enc:edge-1131/1132")
        if a == 32767:
            out.add("enc:32767")
    return out


# ---------------------------------------------------------------------------
# emitted-program check (stack depth, arities) with the reference interpreter


def check_emitted(acc, clause, prog, case, fmt="cff", lsubrs=None, gsubrs=None, num_regions=None, base_kinds=(), maxstack=None, where=""):
    """prog must be well-formed for its format. base_kinds: problem kinds the *input* already had."""
    try:
        problems, depth, r = ref_t2.check(prog, lsubrs, gsubrs, fmt, num_regions)
    except RecursionError:
        acc.fail(clause, "ref-recursion", "subroutine recursion in emitted program", case, where)
        return None
    new = [p for p in problems if p[0] not in base_kinds]
    if new:
        acc.fail(clause, "emitted-program-malformed:%s" % new[0][0], "%s: %s; program %s" % (where, new[:3], short(prog, 300)), case, where)
    if maxstack is not None and not new:
        # documented by specializeCommands: path operators it forms stay below maxstack.
        # Evaluated only for programs whose curves are all of the general kind (both end
        # tangents oblique): with h/v curves the unchanged tree overshoots by up to 2
        # (stale stackUse after a non-mergeable curve pair, see sensitivity/C12.md findings).
        worst = max([d for o, d in r.depth_by_op.items() if o in MERGED_OPS] or [0])
        # (former finding, repaired: with h/v curves the stale stackUse overshot the bound; all programs are held to it now)
        if worst > maxstack - 1:
            acc.fail(clause, "stack-headroom", "%s: path operator with %d operands, documented bound maxstack-1 = %d; %s" % (where, worst, maxstack - 1, short(prog, 300)), case, where)
    return r


def _only_oblique_curves(ops):
    pos = (0, 0)
    for o, pts in ops:
        if o == "curveTo":
            a, b, c = pts
            if a[0] == pos[0] or a[1] == pos[1] or c[0] == b[0] or c[1] == b[1]:
                return False
        if pts:
            pos = pts[-1]
    return True


# ---------------------------------------------------------------------------
# per-program legs (flat, subroutine-free CFF programs)


def check_flat_program(acc, prog, dwx, nwx, case, tag="", variants=None):
    """All token-level rewrites of one flat CFF program. Returns (labels, nontrivial)."""
    from fontTools.cffLib import specializer as S
    from fontTools.misc.psCharStrings import T2CharString

    labels = set()
    r0 = ref_t2.run(prog, None, None, "cff", dwx, nwx)
    if r0.problems or r0.max_depth > 48:
        raise HarnessError("generator produced a malformed program: %r %r" % (r0.problems[:2], short(prog, 400)))
    priv = _private(dwx, nwx)
    tol = _tol(prog, r0.ops)
    where = tag
    try:
        with acc.guard("draw-raises", case):
            base_ops, base_w = ft_draw(prog, priv)
    except Allowed:
        return labels, False
    # independent interpreter
    ok, d = exact_same(base_ops, r0.ops, tol)
    if not ok:
        acc.fail("draw-vs-ref", "outline", "%s T2CharString.draw differs from the reference interpreter: %s; program %s" % (tag, d, short(prog, 300)), case, where)
    if base_w != r0.width:
        acc.fail("draw-vs-ref", "width", "%s draw width %r, reference %r; program %s" % (tag, base_w, r0.width, short(prog, 200)), case, where)
    try:
        with acc.guard("width-extractor-raises", case):
            w2 = ft_width(prog, priv)
        if w2 != r0.width:
            acc.fail("draw-vs-ref", "width-extractor", "%s T2WidthExtractor %r, reference %r" % (tag, w2, r0.width), case, where)
    except Allowed:
        pass

    changed = False

    def compare(name, new_prog, exact, maxstack=None, expect_ops=None, expect_w=None):
        nonlocal changed
        if list(new_prog) != list(prog):
            changed = True
        e_ops = base_ops if expect_ops is None else expect_ops
        e_w = base_w if expect_w is None else expect_w
        try:
            with acc.guard(name + "-draw-raises", case):
                ops, w = ft_draw(new_prog, priv)
        except Allowed:
            return
        if exact:
            ok, d = exact_same(e_ops, ops, tol)
        else:
            ok, d = fill_same(e_ops, ops, tol, acc)
        if not ok:
            acc.fail(name, "outline-changed", "%s %s: %s; in %s out %s" % (tag, name, d, short(prog, 250), short(new_prog, 250)), case, where)
        if w != e_w:
            acc.fail(name, "width-changed", "%s %s: width %r -> %r; in %s out %s" % (tag, name, e_w, w, short(prog, 200), short(new_prog, 200)), case, where)
        check_emitted(acc, name, new_prog, case, "cff", maxstack=maxstack, where=name)
        # the emitted program must survive compilation
        try:
            with acc.guard(name + "-compile-raises", case):
                cs = T2CharString(program=list(new_prog), private=priv)
                cs.compile()
                ops2, w2 = ft_draw(None, priv, bytecode=cs.bytecode)
            ok, d = exact_same(ops, ops2, tol)
            if not ok or w2 != w:
                acc.fail(name, "emitted-program-changes-when-compiled", "%s %s: %s width %r/%r; out %s" % (tag, name, d, w, w2, short(new_prog, 300)), case, where)
        except Allowed:
            pass

    # programToCommands / commandsToProgram
    try:
        with acc.guard("commands-roundtrip", case):
            back = S.commandsToProgram(S.programToCommands(list(prog)))
        if back != list(prog):
            acc.fail("commands-roundtrip", "program-changed", "%s commandsToProgram(programToCommands(p)) != p: %s -> %s" % (tag, short(prog, 250), short(back, 250)), case, where)
    except Allowed:
        pass
    # generalize
    gen = None
    try:
        with acc.guard("generalize", case):
            gen = S.generalizeProgram(list(prog))
        compare("generalize", gen, True)
        if gen != list(prog):
            labels.add("gen:changed")
        left = SPECIALISED_OPS & set(t for t in gen if isinstance(t, str))
        if left:
            acc.fail("generalize", "specialised-operator-left", "%s %s in %s" % (tag, sorted(left), short(gen, 300)), case, where)
    except Allowed:
        pass
    # specialize
    vs = variants or [dict(), dict(preserveTopology=True)]
    for kw in vs:
        name = "specialize" + "".join(":%s=%s" % kv for kv in sorted(kw.items()))
        try:
            with acc.guard(name, case):
                sp = S.specializeProgram(list(prog), **kw)
        except Allowed:
            continue
        compare(name, sp, bool(kw.get("preserveTopology")), maxstack=kw.get("maxstack", 48))
        if sp != list(prog):
            labels.add("spec:changed")
        nops_in = sum(1 for t in prog if isinstance(t, str))
        nops_out = sum(1 for t in sp if isinstance(t, str))
        if nops_out < nops_in:
            labels.add("spec:merged-ops")
    if gen is not None:
        try:
            with acc.guard("specialize:generalizeFirst=False", case):
                sp = S.commandsToProgram(S.specializeCommands(S.programToCommands(list(gen)), generalizeFirst=False))
            compare("specialize:generalizeFirst=False", sp, False, maxstack=48)
        except Allowed:
            pass
    # T2CharStringPen (re-encodes the drawn outline; specialises without topology preservation)
    for tolr in (0.5, 0):
        name = "t2pen:round=%s" % tolr
        try:
            with acc.guard(name, case):
                from fontTools.pens.t2CharStringPen import T2CharStringPen

                wop = r0.width_operand if r0.has_width and isinstance(r0.width_operand, int) else None
                pen = T2CharStringPen(wop, None, roundTolerance=tolr)
                T2CharString(program=list(prog), private=priv).draw(pen)
                out = pen.getCharString(private=priv).program
        except Allowed:
            continue
        expect = _round_ops(base_ops) if tolr == 0.5 else base_ops
        compare(name, out, False, maxstack=48, expect_ops=expect, expect_w=(nwx + wop if wop is not None else dwx))
    # compile -> decompile of the program itself, and the byte code through the reference interpreter
    try:
        with acc.guard("compile", case):
            cs = T2CharString(program=list(prog), private=priv)
            cs.compile()
            bc = cs.bytecode
            cs2 = T2CharString(bytecode=bc, private=priv)
            cs2.decompile()
            prog2 = cs2.program
        if not _same_program_16_16(prog2, prog):
            acc.fail("compile", "decompile(compile(p)) != p", "%s %s -> %s" % (tag, short(prog, 250), short(prog2, 250)), case, where)
        rb = ref_t2.run(bytes(bc), None, None, "cff", dwx, nwx)
        ok, d = exact_same(r0.ops, rb.ops, tol)
        if rb.problems or not ok or rb.width != r0.width:
            acc.fail("compile", "bytecode-vs-ref", "%s reference interpreter on the compiled bytes: %s %s width %r/%r; program %s" % (tag, rb.problems[:2], d, rb.width, r0.width, short(prog, 250)), case, where)
        if bytes(bc) != ref_t2.encode(prog):
            acc.label("compile:bytes-differ-from-shortest-form")
    except Allowed:
        pass
    labels |= set("op:" + f for f in r0.forms)
    labels |= _enc_labels(prog)
    labels.add("width:operand" if r0.has_width else "width:default")
    labels.add("num:frac" if _is_frac(prog) else "num:int")
    return labels, changed


# ---------------------------------------------------------------------------
# CFF2 programs with blend / vsindex (token-level legs)


def check_cff2_program(acc, case):
    from fontTools.cffLib import specializer as S
    from fontTools.misc.psCharStrings import T2CharString

    prog = case["prog"]
    regions = case["regions"]
    nr = lambda vi=None: regions[vi or 0]  # noqa: E731
    r0 = ref_t2.run(prog, None, None, "cff2", num_regions=nr)
    if r0.problems or r0.max_depth > 513:
        raise HarnessError("generator produced a malformed CFF2 program: %r %r" % (r0.problems[:2], short(prog, 400)))
    priv = _private2(regions)
    scalar_sets = [None] + [dict((vi, sc[: regions[vi]]) for vi in range(len(regions))) for sc in gen_t2._SCALAR_SETS[:2]]

    def blender_for(sc):
        if sc is None:
            return None
        return lambda vsindex, deltas: sum(d * s for d, s in zip(deltas, sc[vsindex or 0]))

    def draws(p):
        out = []
        for sc in scalar_sets:
            ops, _ = ft_draw(p, priv, blender=blender_for(sc))
            out.append(ops)
        return out

    tolbase = 1e-6 if (_is_frac(prog)) else 1e-9
    try:
        with acc.guard("cff2-draw-raises", case):
            base = draws(prog)
    except Allowed:
        return set(), False
    for sc, ops in zip(scalar_sets, base):
        rr = ref_t2.run(prog, None, None, "cff2", num_regions=nr, scalars=sc)
        ok, d = exact_same(ops, rr.ops, tolbase * max(1.0, _maxabs(ops)))
        if not ok:
            acc.fail("cff2-draw-vs-ref", "outline", "scalars %r: %s; program %s" % (sc, d, short(prog, 300)), case)
    changed = False

    def compare(name, new_prog, exact, maxstack=None):
        nonlocal changed
        if list(new_prog) != list(prog):
            changed = True
        try:
            with acc.guard(name + "-draw-raises", case):
                new = draws(new_prog)
        except Allowed:
            return
        for sc, a, b in zip(scalar_sets, base, new):
            t = tolbase * max(1.0, _maxabs(a))
            ok, d = exact_same(a, b, t) if exact else fill_same(a, b, t, acc)
            if not ok:
                acc.fail(name, "outline-changed", "%s at scalars %r: %s; in %s out %s" % (name, sc, d, short(prog, 250), short(new_prog, 250)), case, name)
                break
        check_emitted(acc, name, new_prog, case, "cff2", num_regions=nr, maxstack=maxstack, where=name)

    try:
        with acc.guard("cff2-commands-roundtrip", case):
            back = S.commandsToProgram(S.programToCommands(list(prog), nr))
        if back != list(prog):
            acc.fail("cff2-commands-roundtrip", "program-changed", "%s -> %s" % (short(prog, 250), short(back, 250)), case)
    except Allowed:
        pass
    try:
        with acc.guard("cff2-generalize", case):
            gen = S.generalizeProgram(list(prog), nr)
        compare("cff2-generalize", gen, True)
    except Allowed:
        pass
    for kw in (dict(maxstack=513), dict(maxstack=513, preserveTopology=True), dict()):
        name = "cff2-specialize" + "".join(":%s=%s" % kv for kv in sorted(kw.items()))
        try:
            with acc.guard(name, case):
                sp = S.specializeProgram(list(prog), nr, **kw)
        except Allowed:
            continue
        compare(name, sp, bool(kw.get("preserveTopology")), maxstack=None)
    # compile -> decompile
    try:
        with acc.guard("cff2-compile", case):
            cs = T2CharString(program=list(prog), private=priv)
            cs.compile(isCFF2=True)
            bc = cs.bytecode
            cs2 = T2CharString(bytecode=bc, private=priv)
            cs2.decompile()
        if not _same_program_16_16(cs2.program, prog):
            acc.fail("cff2-compile", "decompile(compile(p)) != p", "%s -> %s" % (short(prog, 250), short(cs2.program, 250)), case)
        rb = ref_t2.run(bytes(bc), None, None, "cff2", num_regions=nr, scalars=scalar_sets[1])
        ok, d = exact_same(base[1], rb.ops, tolbase * max(1.0, _maxabs(base[1])))
        if rb.problems or not ok:
            acc.fail("cff2-compile", "bytecode-vs-ref", "%s %s; program %s" % (rb.problems[:2], d, short(prog, 250)), case)
    except Allowed:
        pass
    labels = set("cff2:" + f for f in r0.forms if f.startswith(("blend", "vsindex")))
    labels |= set("cff2op:" + f for f in r0.forms if not f.startswith(("blend", "vsindex", "mask-bytes")))
    labels.add("cff2:frac" if _is_frac(prog) else "cff2:int")
    return labels, changed


# ---------------------------------------------------------------------------
# whole-font legs


def _load(data, recalcBBoxes=True):
    from fontTools.ttLib import TTFont

    return TTFont(io.BytesIO(data), recalcBBoxes=recalcBBoxes)


def _save(font):
    buf = io.BytesIO()
    font.save(buf)
    return buf.getvalue()


def _top(font):
    tag = "CFF " if "CFF " in font else "CFF2"
    return font[tag].cff.topDictIndex[0], tag


def _cff_order(font):
    """Glyph names in glyph-index order as the CFF table itself knows them (after CFF2->CFF the
    charset is renamed to cidNNNNN while the TTFont keeps its glyph order: access is by index)."""
    top, tag = _top(font)
    if tag == "CFF " and getattr(top, "charset", None):
        return list(top.charset)
    return list(font.getGlyphOrder())


def _font_programs(font):
    """Draw every glyph (decompiles glyph programs and, in context, the subrs they use).
    -> list by glyph index of dict(name, ops, width, prog, lsubrs(list of progs/bytes), private),
    the global subr programs, and the table tag."""
    top, tag = _top(font)
    cs_map = top.CharStrings
    out = []
    for name in _cff_order(font):
        cs = cs_map[name]
        ops, w = _cs_draw(cs)
        seac = any(o == "addComponent" for o, _ in ops)
        if seac:
            # seac-style endchar: the comparison is about the charstring's own outline
            ops = [op for op in ops if op[0] != "addComponent"]
        out.append(dict(name=name, ops=ops, width=w, cs=cs, seac=seac))
    gs = [_subr_prog(s) for s in font[tag].cff.GlobalSubrs]
    lcache = {}
    for d in out:
        cs = d["cs"]
        cs.decompile()
        d["prog"] = list(cs.program)
        k = id(cs.private)
        if k not in lcache:
            lcache[k] = [_subr_prog(s) for s in getattr(cs.private, "Subrs", [])]
        d["lsubrs"] = lcache[k]
        d["private"] = cs.private
    return out, gs, tag


def _compare_font(acc, clause, base, font, case, exact=True, tols=None, widths="cs", hmtx=None, forbid=(), where="", base_kinds=None, check_progs=True, saved_roundtrip=True, hb_check=None, recalcBBoxes=True):
    """Compare every glyph (by glyph index) of a rewritten font with the baseline list [(ops, width)].
    widths: "cs" compare the charstring width with the baseline, "hmtx" compare it with the hmtx advance
    (paths where the charstring width is re-derived), None: no width in the charstring (CFF2)."""
    try:
        with acc.guard(clause + "-draw-raises", case):
            cur, gs, tag = _font_programs(font)
    except Allowed:
        return None
    fmt = "cff" if tag == "CFF " else "cff2"
    if len(cur) != len(base):
        acc.fail(clause, "glyph-count-changed", "%s %d -> %d" % (where, len(base), len(cur)), case, where)
        return None
    for gid, ((b_ops, b_w), c) in enumerate(zip(base, cur)):
        name = c["name"]
        tol = tols[gid] if tols else 0.0
        ok, d = exact_same(b_ops, c["ops"], tol) if exact else fill_same(b_ops, c["ops"], tol, acc)
        if not ok:
            acc.fail(clause, "outline-changed", "%s glyph %d %s: %s; now %s" % (where, gid, name, d, short(c["prog"], 300)), case, where)
        if widths == "cs" and c["width"] != b_w:
            acc.fail(clause, "width-changed", "%s glyph %d %s: width %r -> %r; now %s" % (where, gid, name, b_w, c["width"], short(c["prog"], 200)), case, where)
        if widths == "hmtx" and hmtx is not None and c["width"] != hmtx[gid]:
            acc.fail(clause, "width-differs-from-hmtx", "%s glyph %d %s: charstring width %r, hmtx %r; now %s" % (where, gid, name, c["width"], hmtx[gid], short(c["prog"], 200)), case, where)
        bad = set(forbid) & set(t for t in c["prog"] if isinstance(t, str))
        if bad:
            acc.fail(clause, "operator-left:%s" % sorted(bad)[0], "%s glyph %d %s still has %s: %s" % (where, gid, name, sorted(bad), short(c["prog"], 300)), case, where)
        if check_progs:
            nr = None
            if fmt == "cff2":
                priv = c["private"]
                nr = lambda vi=None, priv=priv: priv.getNumRegions(vi)  # noqa: E731
            check_emitted(acc, clause, c["prog"], case, fmt, c["lsubrs"], gs, nr, base_kinds=(base_kinds[gid] if base_kinds else ()), where=where)
    if hmtx is not None:
        try:
            with acc.guard(clause + "-hmtx-raises", case):
                order = font.getGlyphOrder()
                for gid, adv in enumerate(hmtx):
                    got = font["hmtx"].metrics.get(order[gid], (None,))[0]
                    if got != adv:
                        acc.fail(clause, "hmtx-advance-changed", "%s glyph %d: %r -> %r" % (where, gid, adv, got), case, where)
        except Allowed:
            pass
    if saved_roundtrip:
        # the rewritten font must compile, and read back the same
        try:
            with acc.guard(clause + "-save-raises", case):
                data = _save(font)
                again = _load(data, recalcBBoxes)
            _compare_font(acc, clause, base, again, case, exact, tols, widths, hmtx, forbid, where + "+save", base_kinds, check_progs=False, saved_roundtrip=False)
            if hb_check is not None:
                hb_check(data, where + "+save")
        except Allowed:
            pass
    return cur


def _hb_compare(acc, clause, data, ref_ops, tols, case, where, hmtx=None):
    from vf.hbref import HBFont

    try:
        hbf = HBFont(data)
    except Exception as e:
        acc.fail(clause, "harfbuzz-cannot-open", "%s: %s" % (where, e), case, where)
        return
    if hbf.glyph_count() != len(ref_ops):
        acc.fail(clause, "harfbuzz-glyph-count", "%s: %d vs %d" % (where, hbf.glyph_count(), len(ref_ops)), case, where)
        return
    for gid, want in enumerate(ref_ops):
        if want is None:
            continue
        ops = hbf.draw(gid)
        tol = tols[gid] if tols else 1e-6
        ok, d = exact_same(want, ops, tol)  # HarfBuzz keeps zero-length segments and drops lone movetos
        if not ok:
            ok, d = fill_same(want, ops, tol, degen_tol=tol)
        if not ok:
            acc.fail(clause, "harfbuzz-outline", "%s glyph %d: %s" % (where, gid, d), case, where)
        if hmtx is not None and hbf.h_advance(gid) != hmtx[gid]:
            acc.fail(clause, "harfbuzz-advance", "%s glyph %d: HarfBuzz %r, expected %r" % (where, gid, hbf.h_advance(gid), hmtx[gid]), case, where)


def check_font_case(acc, case, do_program_legs=True):
    """All legs for one generated CFF font case. Returns list of (labels, nontrivial, fp) per glyph."""
    from fontTools.misc.roundTools import otRound

    dwx, nwx = case["dwx"], case["nwx"]
    lsub = gen_t2.expand_subrs(case["lsubrs"])
    gsub = gen_t2.expand_subrs(case["gsubrs"])
    ng = len(case["flat"])
    names = gen_t2.glyph_names(ng)
    results = []
    refs, tols, hbtols, hmtx = [], [], [], []
    subr_runs = []
    priv_sub = _private(dwx, nwx, _subr_objects(lsub))
    gs_objs = _subr_objects(gsub)
    any_subr = False
    for i, name in enumerate(names):
        flat, sub = case["flat"][i], case["sub"][i]
        gcase = dict(case, only=i)
        # the font's program is what the encoder can write: every operand an integer or a 16.16 number. Generated operands
        # that are not (n + 1e-9, n + 2**-20 ...) stand for the value they round to; a reference run on the raw floats would keep
        # segments of length 1e-6 that do not exist in any encoded form of the glyph
        ra = ref_t2.run(_q16(flat), None, None, "cff", dwx, nwx)
        rb = ref_t2.run(_q16(sub), [_q16(x) for x in lsub], [_q16(x) for x in gsub], "cff", dwx, nwx)
        if ra.problems or rb.problems or ra.ops != rb.ops or ra.width != rb.width or rb.max_depth > 48:
            raise HarnessError("generator: outlined program is not equivalent/well-formed: %r %r %s" % (ra.problems[:2], rb.problems[:2], short(sub, 300)))
        refs.append(ra)
        subr_runs.append(rb)
        tols.append(_tol(flat, ra.ops))
        hbtols.append(_hb_tol(flat, ra.ops))
        hmtx.append(otRound(ra.width))
        labels = set(["mode:" + case["modes"][i]])
        changed = False
        if do_program_legs:
            l2, changed = check_flat_program(acc, flat, dwx, nwx, gcase, tag="glyph %d" % i)
            labels |= l2
        # the subroutinised spelling through fontTools' interpreter
        if sub != flat:
            any_subr = True
            changed = True
            try:
                with acc.guard("subr-draw-raises", gcase):
                    ops, w = ft_draw(sub, priv_sub, gs_objs)
                ok, d = exact_same(ra.ops, ops, tols[i])
                if not ok or w != ra.width:
                    acc.fail("draw-vs-ref", "subroutinised", "glyph %d: %s width %r/%r; program %s" % (i, d, w, ra.width, short(sub, 300)), gcase)
            except Allowed:
                pass
            if rb.used_local:
                labels.add("subr:local")
                labels.add("subr:bias%d" % ref_t2.subr_bias(len(lsub)))
            if rb.used_global:
                labels.add("subr:global")
                labels.add("subr:bias%d" % ref_t2.subr_bias(len(gsub)))
            if _nesting(sub, lsub, gsub) >= 2:
                labels.add("subr:nested")
            used = [lsub[k] for k in rb.used_local] + [gsub[k] for k in rb.used_global]
            if any(u == ["return"] for u in used):
                labels.add("subr:empty-subr")
            if any(u and u[-1] == "endchar" for u in used):
                labels.add("subr:endchar-in-subr")
            if any(HINT_TOKENS & set(t for t in u if isinstance(t, str)) for u in used):
                labels.add("subr:hints-in-subr")
            if ra.has_width and len(sub) > 1 and sub[1] in ("callsubr", "callgsubr"):
                labels.add("subr:width-in-subr")
        results.append((labels, changed, fingerprint(("font-glyph", flat, sub if sub != flat else None, dwx, nwx))))

    # ---- build the font ------------------------------------------------------
    private = dict(defaultWidthX=dwx, nominalWidthX=nwx)
    if case.get("hintvals"):
        private.update(BlueValues=[-10, 0, 500, 510], StdHW=80, StdVW=90, BlueScale=0.04, StemSnapH=[80, 90], LanguageGroup=0)
    try:
        with acc.guard("font-build-raises", case):
            data = gen_t2.build_cff_font(dict(zip(names, case["sub"])), dict(zip(names, hmtx)), private, lsub, gsub)
    except Allowed:
        return results
    ref_ops = [r.ops for r in refs]
    base = [(r.ops, r.width) for r in refs]
    _hb_compare(acc, "harfbuzz", data, ref_ops, hbtols, case, "built font", hmtx)

    def hb_after(tag):
        return lambda d, where: _hb_compare(acc, tag, d, ref_ops, hbtols, case, where, hmtx)

    # compile -> decompile of the whole font
    try:
        with acc.guard("font-load-raises", case):
            f = _load(data)
        _compare_font(acc, "font-compile-decompile", base, f, case, True, tols, "cs", hmtx, where="reloaded", saved_roundtrip=False)
    except Allowed:
        return results

    # desubroutinize
    flatfont_data = None
    try:
        with acc.guard("desubroutinize", case):
            f = _load(data)
            f["CFF "].cff.desubroutinize()
        _compare_font(acc, "desubroutinize", base, f, case, True, tols, "cs", hmtx, forbid=("callsubr", "callgsubr", "return"), where="desubroutinize", hb_check=hb_after("desubroutinize"))
        top, _ = _top(f)
        if len(f["CFF "].cff.GlobalSubrs) or getattr(top.Private, "Subrs", None):
            acc.fail("desubroutinize", "subrs-left", "GlobalSubrs %d, local %r" % (len(f["CFF "].cff.GlobalSubrs), getattr(top.Private, "Subrs", None)), case)
        with acc.guard("desubroutinize-save-raises", case):
            flatfont_data = _save(f)
    except Allowed:
        pass

    # remove_hints (also removes unused subrs)
    try:
        with acc.guard("remove_hints", case):
            f = _load(data)
            f["CFF "].cff.remove_hints()
        _compare_font(acc, "remove_hints", base, f, case, True, tols, "cs", hmtx, forbid=tuple(HINT_TOKENS), where="remove_hints", hb_check=hb_after("remove_hints"))
        _subrs_all_used(acc, "remove_hints", f, case)
    except Allowed:
        pass
    # desubroutinize, then remove_hints (the subsetter's order)
    if any_subr:
        try:
            with acc.guard("desubroutinize+remove_hints", case):
                f = _load(data)
                f["CFF "].cff.desubroutinize()
                f["CFF "].cff.remove_hints()
            _compare_font(acc, "desubroutinize+remove_hints", base, f, case, True, tols, "cs", hmtx, forbid=tuple(HINT_TOKENS) + ("callsubr", "callgsubr"), where="desubroutinize+remove_hints", saved_roundtrip=False)
        except Allowed:
            pass

    # remove_unused_subroutines
    try:
        with acc.guard("remove_unused_subroutines", case):
            f = _load(data)
            f["CFF "].cff.remove_unused_subroutines()
        _compare_font(acc, "remove_unused_subroutines", base, f, case, True, tols, "cs", hmtx, where="remove_unused_subroutines", hb_check=hb_after("remove_unused_subroutines"))
        _subrs_all_used(acc, "remove_unused_subroutines", f, case)
    except Allowed:
        pass

    # CFF -> CFF2 -> CFF (fonts opened the way the converters' command lines do: recalcBBoxes=False)
    try:
        with acc.guard("CFF->CFF2", case):
            from fontTools.cffLib.CFFToCFF2 import convertCFFToCFF2

            f = _load(data, recalcBBoxes=False)
            convertCFFToCFF2(f)
        _compare_font(acc, "CFF->CFF2", base, f, case, True, tols, None, hmtx, forbid=("endchar", "return"), where="CFF->CFF2", hb_check=hb_after("CFF->CFF2"), recalcBBoxes=False)
        _glyphset_widths(acc, "CFF->CFF2", f, hmtx, case)
        # the same conversion back on a freshly loaded CFF2 file (the command-line flow)
        if True:  # (former finding, repaired: a freshly loaded CFF2 font with local subrs raised IndexError)
            try:
                with acc.guard("CFF2->CFF(fresh)", case):
                    from fontTools.cffLib.CFF2ToCFF import convertCFF2ToCFF

                    fresh = _load(_save(f), recalcBBoxes=False)
                    convertCFF2ToCFF(fresh)
                base2 = [(r.ops, float(h)) for r, h in zip(refs, hmtx)]
                _compare_font(acc, "CFF2->CFF(fresh)", base2, fresh, case, False, tols, "hmtx", hmtx, where="CFF->CFF2->save->load->CFF", recalcBBoxes=False)
            except Allowed:
                pass
        try:
            with acc.guard("CFF2->CFF", case):
                from fontTools.cffLib.CFF2ToCFF import convertCFF2ToCFF

                convertCFF2ToCFF(f)
            base2 = [(r.ops, float(h)) for r, h in zip(refs, hmtx)]
            # the converter may re-specialise a charstring (without topology preservation): fill equivalence
            _compare_font(acc, "CFF2->CFF", base2, f, case, False, tols, "hmtx", hmtx, where="CFF->CFF2->CFF", hb_check=hb_after("CFF2->CFF"), recalcBBoxes=False)
        except Allowed:
            pass
    except Allowed:
        pass

    # width re-encoding with optimizeWidths (on the subroutine-free font)
    if flatfont_data is not None:
        _check_width_reencoding(acc, case, flatfont_data, base, tols, hmtx, refs)
    return results


def _nesting(prog, lsub, gsub, depth=0):
    best = depth
    if depth > 12:
        return depth
    for i, t in enumerate(prog):
        if t in ("callsubr", "callgsubr") and i:
            subrs = lsub if t == "callsubr" else gsub
            idx = prog[i - 1] + ref_t2.subr_bias(len(subrs))
            if 0 <= idx < len(subrs):
                best = max(best, _nesting(subrs[idx], lsub, gsub, depth + 1))
    return best


def _subrs_all_used(acc, clause, font, case):
    """After removing unused subroutines every remaining subroutine is called by some glyph."""
    top, tag = _top(font)
    cff = font[tag].cff
    gs = [_subr_prog(s) for s in cff.GlobalSubrs]
    used_l, used_g = set(), set()
    ls = []
    for name in font.getGlyphOrder():
        cs = top.CharStrings[name]
        cs.decompile()
        ls = [_subr_prog(s) for s in getattr(cs.private, "Subrs", [])]
        r = ref_t2.run(list(cs.program), ls, gs, "cff" if tag == "CFF " else "cff2", 0, 0)
        used_l |= r.used_local
        used_g |= r.used_global
    if hasattr(top, "FDArray") and len(top.FDArray) > 1:
        return  # per-FD accounting not needed for generated fonts
    if len(used_g) != len(gs) or len(used_l) != len(ls):
        acc.fail(clause, "unused-subrs-left", "global %d used of %d, local %d used of %d" % (len(used_g), len(gs), len(used_l), len(ls)), case, clause)


def _glyphset_widths(acc, clause, font, hmtx, case):
    try:
        with acc.guard(clause + "-glyphset-raises", case):
            gs = font.getGlyphSet()
            for gid, name in enumerate(font.getGlyphOrder()):
                if gs[name].width != hmtx[gid]:
                    acc.fail(clause, "glyphset-advance", "glyph %d %s: %r, expected %r" % (gid, name, gs[name].width, hmtx[gid]), case, clause)
    except Allowed:
        pass


def _check_width_reencoding(acc, case, data, base, tols, hmtx, refs):
    """optimizeWidths picks defaultWidthX/nominalWidthX; re-encoding every width operand with
    them (the way CFF2ToCFF does) must leave every advance unchanged."""
    from fontTools.cffLib.width import optimizeWidths

    if any(r.width != h for r, h in zip(refs, hmtx)):
        acc.exclude("width-reencoding:fractional-width-in-font")
        return
    try:
        with acc.guard("optimizeWidths", case):
            f = _load(data)
            top, _ = _top(f)
            d, n_ = optimizeWidths(list(hmtx))
    except Allowed:
        return
    if not isinstance(d, int) or not isinstance(n_, int):
        acc.fail("optimizeWidths", "non-integer-result", "%r" % ((d, n_),), case)
        return
    try:
        with acc.guard("optimizeWidths-reencode", case):
            top.Private.defaultWidthX = d
            top.Private.nominalWidthX = n_
            for gid, name in enumerate(_cff_order(f)):
                cs = top.CharStrings[name]
                cs.decompile()
                p = list(cs.program)
                if refs[gid].has_width:
                    p = p[1:]
                if hmtx[gid] != d:
                    p.insert(0, hmtx[gid] - n_)
                cs.program = p
        _compare_font(acc, "optimizeWidths", base, f, case, True, tols, "cs", hmtx, where="optimizeWidths(%d,%d)" % (d, n_))
    except Allowed:
        pass


# ---------------------------------------------------------------------------
# corpus fonts


def check_corpus_font(acc, fid, tier, seed, only=None):
    from fontTools.cffLib import specializer as S

    thorough = tier == "thorough"
    case0 = dict(kind="corpus", fid=fid)
    try:
        f0 = corpus.load_font(fid)
        f0.flavor = None
        data = _save(f0)
        f = _load(data)
        cur, gs, tag = _font_programs(f)
    except CaseTimeout:
        raise
    except Exception as e:
        if "must not have an initial width" in str(e):
            acc.exclude("corpus-cff2-master-with-width-operand(malformed input)")
        else:
            acc.exclude("corpus-font-unreadable:%s" % type(e).__name__)
        return
    fmt = "cff" if tag == "CFF " else "cff2"
    variable = "fvar" in f or hasattr(_top(f)[0], "VarStore")
    order = f.getGlyphOrder()
    hmtx = [f["hmtx"].metrics[n][0] for n in order] if "hmtx" in f else None
    base, tols, kinds = [], [], []
    for gid, c in enumerate(cur):
        n = c["name"]
        fr = _is_frac(list(_flatten_numbers(c, gs)))
        tols.append(1e-6 * max(1.0, _maxabs(c["ops"])) if fr else 0.0)
        nr = None
        if fmt == "cff2":
            nr = lambda vi=None, priv=c["private"]: priv.getNumRegions(vi)  # noqa: E731
        try:
            pr, _, rr = ref_t2.check(c["prog"], c["lsubrs"], gs, fmt, nr)
        except RecursionError:
            pr = [("recursion", "")]
        kinds.append(tuple(sorted(set(k for k, _ in pr))))
        seac = c["seac"]
        if pr:
            acc.exclude("corpus-charstring-already-malformed:%s" % kinds[-1][0])
        elif fmt == "cff" and not seac:
            # independent interpreter on the corpus program itself
            rr = ref_t2.run(c["prog"], c["lsubrs"], gs, fmt, c["private"].defaultWidthX, c["private"].nominalWidthX)
            ok, d = exact_same(c["ops"], rr.ops, tols[-1])
            if not ok or rr.width != c["width"]:
                acc.fail("draw-vs-ref", "corpus", "%s glyph %s: %s width %r/%r" % (fid, n, d, c["width"], rr.width), dict(case0, glyph=n))
        base.append((c["ops"], c["width"]))
    has_seac = any(c["seac"] for c in cur)
    if has_seac:
        acc.exclude("corpus-font-with-seac-endchar")
    wmode = "cs" if fmt == "cff" else None
    label = "corpus:%s" % ("CFF" if fmt == "cff" else "CFF2")
    nontrivial = set()

    def note_changes(r):
        if r is not None:
            for gid, c in enumerate(r):
                if c["prog"] != cur[gid]["prog"]:
                    nontrivial.add(gid)

    def leg(name, fn, exact=True, forbid=(), widths=wmode, recalc=True):
        try:
            with acc.guard(name, case0):
                g = _load(data, recalc)
                fn(g)
        except Allowed:
            return None
        r = _compare_font(acc, name, base, g, case0, exact, tols, widths, None, forbid, where=name, base_kinds=kinds, recalcBBoxes=recalc)
        note_changes(r)
        return g

    cffof = lambda g: g[tag].cff  # noqa: E731
    flat = leg("desubroutinize", lambda g: cffof(g).desubroutinize(), forbid=("callsubr", "callgsubr"))
    leg("remove_hints", lambda g: cffof(g).remove_hints(), forbid=tuple(HINT_TOKENS))
    leg("remove_unused_subroutines", lambda g: cffof(g).remove_unused_subroutines())
    if fmt == "cff" and not has_seac:
        from fontTools.cffLib.CFF2ToCFF import convertCFF2ToCFF
        from fontTools.cffLib.CFFToCFF2 import convertCFFToCFF2

        g = leg("CFF->CFF2", convertCFFToCFF2, forbid=("endchar",), widths=None, recalc=False)
        if g is not None and hmtx is not None:
            if True:  # (former finding, repaired: see above)
                try:
                    with acc.guard("CFF2->CFF(fresh)", case0):
                        fresh = _load(_save(g), False)
                        convertCFF2ToCFF(fresh)
                    b2 = [(ops, h) for (ops, _), h in zip(base, hmtx)]
                    _compare_font(acc, "CFF2->CFF(fresh)", b2, fresh, case0, False, tols, "hmtx", hmtx, where="CFF->CFF2->save->load->CFF", base_kinds=kinds, recalcBBoxes=False, saved_roundtrip=False)
                except Allowed:
                    pass
            try:
                with acc.guard("CFF2->CFF", case0):
                    convertCFF2ToCFF(g)
                b2 = [(ops, h) for (ops, _), h in zip(base, hmtx)]
                note_changes(_compare_font(acc, "CFF2->CFF", b2, g, case0, False, tols, "hmtx", hmtx, where="CFF->CFF2->CFF", base_kinds=kinds, recalcBBoxes=False))
            except Allowed:
                pass
    elif fmt == "cff2" and not variable and hmtx is not None:
        from fontTools.cffLib.CFF2ToCFF import convertCFF2ToCFF

        try:
            with acc.guard("CFF2->CFF", case0):
                g = _load(data, False)
                convertCFF2ToCFF(g)
            b2 = [(ops, h) for (ops, _), h in zip(base, hmtx)]
            note_changes(_compare_font(acc, "CFF2->CFF", b2, g, case0, False, tols, "hmtx", hmtx, where="CFF2->CFF", base_kinds=kinds, recalcBBoxes=False))
        except Allowed:
            pass
    elif fmt == "cff2" and variable:
        acc.exclude("CFF2->CFF:variable-font-not-convertible(documented)")
    elif has_seac:
        acc.exclude("CFF->CFF2:seac-endchar-has-no-CFF2-form")

    # specialiser legs on the desubroutinised programs
    if flat is not None:
        try:
            fl, fgs, _ = _font_programs(flat)
        except Exception as e:
            acc.fail_exc("desubroutinize-draw-raises", e, case0)
            fl = []
        gids = list(range(len(fl)))
        if not thorough and len(gids) > 250:
            gids = corpus.sample(gids, 250, subseed(seed, "corpus-glyphs", fid))
        if only:
            gids = [g_ for g_ in gids if fl[g_]["name"] == only]
        for gid in gids:
            c = fl[gid]
            n = c["name"]
            gcase = dict(case0, glyph=n)
            prog = c["prog"]
            priv = c["private"]
            if any(t in ("callsubr", "callgsubr") for t in prog) or kinds[gid]:
                continue
            if cur[gid]["seac"]:
                continue
            nr = (lambda vi=None, priv=priv: priv.getNumRegions(vi)) if fmt == "cff2" else None
            ms = 513 if fmt == "cff2" else 48
            b_ops, b_w = base[gid]
            for nm, fn, exact in (
                ("generalize", lambda p: S.generalizeProgram(p, nr), True),
                ("specialize", lambda p: S.specializeProgram(p, nr, maxstack=ms), False),
                ("specialize:preserveTopology=True", lambda p: S.specializeProgram(p, nr, maxstack=ms, preserveTopology=True), True),
            ):
                try:
                    with acc.guard(nm, gcase):
                        out = fn(list(prog))
                        ops, w = ft_draw(out, priv, [])
                except Allowed:
                    continue
                if out != prog:
                    nontrivial.add(gid)
                ok, d = exact_same(b_ops, ops, tols[gid]) if exact else fill_same(b_ops, ops, tols[gid], acc)
                if not ok:
                    acc.fail(nm, "outline-changed", "%s glyph %s: %s; in %s out %s" % (fid, n, d, short(prog, 200), short(out, 200)), gcase, nm)
                if fmt == "cff" and w != b_w:
                    acc.fail(nm, "width-changed", "%s glyph %s: %r -> %r" % (fid, n, b_w, w), gcase, nm)
                check_emitted(acc, nm, out, gcase, fmt, None, None, nr, maxstack=(ms if nm != "generalize" and fmt == "cff" else None), where=nm)
    for gid, c in enumerate(cur):
        acc.case((fid, gid), nontrivial=gid in nontrivial, labels=[label])


def _flatten_numbers(c, gs):
    for t in c["prog"]:
        if isinstance(t, float):
            yield t
    for s in list(c["lsubrs"]) + list(gs):
        if isinstance(s, list):
            for t in s:
                if isinstance(t, float):
                    yield t


def _first_op_blends(prog):
    n = 0
    for t in prog:
        if t == "blend":
            n += 1
        elif isinstance(t, str) and t != "vsindex":
            break
    return n


# ---------------------------------------------------------------------------
# jobs


def jobs(tier, seed):
    thorough = tier == "thorough"
    J = []
    nfont_jobs, per_font_job = (384, 150) if thorough else (64, 36)
    for i in range(nfont_jobs):
        J.append(dict(kind="fonts", name="fonts-%d" % i, n=per_font_job, seed=subseed(seed, "fonts", i), tier=tier))
    nprog_jobs, per_prog_job = (64, 400) if thorough else (16, 60)
    for i in range(nprog_jobs):
        J.append(dict(kind="progs", name="progs-%d" % i, n=per_prog_job, seed=subseed(seed, "progs", i), tier=tier))
    ncff2_jobs, per_cff2 = (64, 300) if thorough else (16, 40)
    for i in range(ncff2_jobs):
        J.append(dict(kind="cff2", name="cff2-%d" % i, n=per_cff2, seed=subseed(seed, "cff2", i), tier=tier))
    fids = corpus.ids(lambda e: "CFF " in e["tables"] or "CFF2" in e["tables"])
    if not thorough:
        cff2 = [f for f in fids if "CFF2" in corpus.entry(f)["tables"]]
        rest = [f for f in fids if f not in cff2]
        # every generated CID-keyed font (small; several font dicts with their own default widths) and a sample of the rest
        cid = [f for f in rest if f.startswith("gen:") and corpus.gen_spec(f)["kind"] == "cid"]
        rest = [f for f in rest if f not in cid]
        fids = corpus.sample(cff2, 6, subseed(seed, "corpus-cff2")) + corpus.sample(rest, 24, subseed(seed, "corpus-cff")) + cid
    for fid in fids:
        J.append(dict(kind="corpus", name="corpus:" + fid, fid=fid, seed=seed, tier=tier))
    # slow jobs first
    J.sort(key=lambda j: 0 if j["kind"] == "corpus" else 1)
    import os

    only = os.environ.get("VERIF_C12_ONLY")  # sensitivity runs: e.g. "fonts:12,progs" = 12 font jobs and all program jobs
    if only:
        want = dict((p.split(":") + [None])[:2] for p in only.split(","))
        out, seen = [], {}
        for j in J:
            if j["kind"] in want:
                seen[j["kind"]] = seen.get(j["kind"], 0) + 1
                if want[j["kind"]] is None or seen[j["kind"]] <= int(want[j["kind"]]):
                    out.append(j)
        J = out
    return J


_MAXSTACKS = [None, None, 9, 14, 24]


def _body_font(case, acc):
    for why in case.get("gen_excluded", ()):
        acc.exclude("generator:" + why)
    res = check_font_case(acc, case)
    for i, (labels, changed, fp) in enumerate(res):
        acc.case(fp, nontrivial=changed, labels=sorted(labels), sample=dict(prog=case["flat"][i], sub=case["sub"][i]) if changed and len(case["flat"][i]) < 60 else None)


def _body_prog(case, acc):
    variants = [dict(), dict(preserveTopology=True)]
    if case.get("maxstack"):
        variants += [dict(maxstack=case["maxstack"]), dict(maxstack=case["maxstack"], preserveTopology=True)]
    labels, changed = check_flat_program(acc, case["prog"], case["dwx"], case["nwx"], case, variants=variants)
    labels.add("mode:" + case["mode"])
    if case.get("maxstack"):
        labels.add("spec:small-maxstack")
    acc.case(fingerprint(("prog", case["prog"], case["dwx"], case["nwx"])), nontrivial=changed, labels=sorted(labels))


def _body_cff2(case, acc):
    labels, changed = check_cff2_program(acc, case)
    acc.case(fingerprint(("cff2", case["prog"], case["regions"])), nontrivial=changed, labels=sorted(labels), sample=dict(prog=case["prog"], regions=case["regions"]) if len(case["prog"]) < 50 else None)


def _prog_cases():
    from hypothesis import strategies as st

    return st.builds(
        lambda g, dwx, nwx, ms: dict(kind="prog", prog=g["prog"], mode=g["mode"], dwx=dwx, nwx=nwx, maxstack=ms),
        gen_t2.programs(),
        st.integers(0, 1200),
        st.integers(0, 1200),
        st.sampled_from(_MAXSTACKS),
    )


def _cff2_cases():
    return gen_t2.cff2_programs().map(lambda g: dict(kind="cff2", prog=g["prog"], regions=g["regions"], mode=g["mode"]))


def run_job(job):
    import time

    acc = Acc()
    k = job["kind"]
    cpu0 = time.process_time()
    if k == "fonts":
        hyp_collect(acc, gen_t2.fonts(), _body_font, job["n"], job["seed"])
    elif k == "progs":
        hyp_collect(acc, _prog_cases(), _body_prog, job["n"], job["seed"])
    elif k == "cff2":
        hyp_collect(acc, _cff2_cases(), _body_cff2, job["n"], job["seed"])
    elif k == "corpus":
        try:
            with time_limit(1200):
                check_corpus_font(acc, job["fid"], job["tier"], job["seed"])
        except CaseTimeout:
            acc.inconclusive += 1
    else:
        raise HarnessError("unknown job kind %r" % k)
    acc.extra["cpu_seconds_by_job_kind"] = {k: round(time.process_time() - cpu0, 2)}
    return acc


def finish(total, tier, seed):
    import os

    if os.environ.get("VERIF_C12_ONLY"):
        return
    missing = [f for f in REQUIRED_FORMS if not total.labels.get("op:" + f)]
    missing += [l for l in REQUIRED_OTHER if not total.labels.get(l)]
    if tier == "thorough":
        missing += [l for l in REQUIRED_THOROUGH if not total.labels.get(l)]
    if missing:
        raise HarnessError("generator coverage: no case for %s" % ", ".join(missing))


def replay(case):
    acc = Acc()
    try:
        k = case.get("kind")
        if k == "font":
            only = case.get("only")
            check_font_case(acc, {kk: v for kk, v in case.items() if kk != "only"})
        elif k == "prog":
            _body_prog(case, acc)
        elif k == "cff2":
            _body_cff2(case, acc)
        elif k == "corpus":
            check_corpus_font(acc, case["fid"], "thorough", 1, only=case.get("glyph"))
    except Allowed:
        pass
    return acc.failures


def shrink(f, key, tier, seed):
    """Reduce a failing font case: single glyph, then without subroutines."""
    case = f["case"]
    from vf.runner import from_jsonable

    case = from_jsonable(case)
    if case.get("kind") != "font":
        return None

    def fails(c):
        for g in replay(c):
            if "%s|%s|%s" % (g["clause"], g["kind"], g["where"]) == key:
                return g
        return None

    best = None
    n = len(case["flat"])
    cands = []
    idxs = [case["only"]] if case.get("only") is not None else list(range(n))
    for i in idxs:
        c = {k: v for k, v in case.items() if k != "only"}
        for fld in ("flat", "sub", "modes", "frac"):
            c[fld] = [case[fld][i]]
        cands.append(c)
        c2 = dict(c, sub=[case["flat"][i]], lsubrs=dict(n=0, at=[]), gsubrs=dict(n=0, at=[]))
        cands.insert(0, c2)
    for c in cands:
        g = fails(c)
        if g is not None:
            best = g
            break
    return best
