#!/bin/bash
# Idempotent, offline. Installs hypothesis into /venv if missing and self-tests oracle imports.
cd "$(dirname "$0")" || exit 2
export PIP_NO_INDEX=1
PY=/venv/bin/python
if ! $PY -c "import hypothesis" 2>/dev/null; then
    /venv/bin/pip install --no-index --find-links /opt/veriftools/wheels hypothesis || exit 2
fi
$PY - <<'EOF' || exit 2
import sys
missing = []
for m in ("hypothesis", "uharfbuzz", "freetype", "brotli", "numpy", "lxml"):
    try:
        __import__(m)
    except Exception as e:  # pragma: no cover
        missing.append((m, repr(e)))
if missing:
    print("HARNESS-ERROR missing oracle modules:", missing)
    sys.exit(2)
print("setup ok")
EOF
mkdir -p evidence replays .scratch
exit 0
