#!/bin/bash
# tools/sweep.sh "<seeds>" [tier] [ids...] : runs checks sequentially, prints one line per run
seeds="$1"; tier="${2:-quick}"; shift; shift
ids="$@"; [ -z "$ids" ] && ids=$(python3 -c "import json;print(' '.join(c['property_id'] for c in json.load(open('MANIFEST.json'))['checks']))")
for s in $seeds; do for id in $ids; do
  t=$(date +%s); out=$(VERIF_SEED=$s ./check $id --tier $tier 2>&1); rc=$?
  echo "seed=$s $id rc=$rc secs=$(( $(date +%s)-t )) $(echo "$out" | grep -c VIOLATION) viol"; [ $rc -ne 0 ] && echo "$out" | grep -E "VIOLATION|bucket=|HARNESS" | cut -c1-400 | head -20
done; done
