"""Hypothesis strategies for WELL-FORMED Type 2 charstring programs (property C12),
generated from the operator grammar of Adobe Technical Note #5177

    w? {hs* vs* cm* hm* mt subpath}? {mt subpath}* endchar

and helpers to wrap programs into complete CFF fonts.

Token form = fontTools' program lists: numbers, operator names, and one bytes object
after hintmask / cntrmask.

programs()      -> strategy for one flat (subroutine-free) CFF program:
                   {"prog": [...], "mode": "general"|"special"|"mixed", "frac": bool}
cff2_programs() -> strategy for a flat CFF2 program with blend / vsindex:
                   {"prog": [...], "regions": [k0, k1], ...}
fonts()         -> strategy for a small CFF font: several glyph programs, the same programs
                   outlined into local / global subroutines (random token runs, shared hint
                   blocks and motifs, nesting, empty subrs, endchar inside a subr, subr-count
                   padding so that every bias 107 / 1131 / 32768 occurs), Private widths.
build_cff_font(charstrings, widths, private=None, lsubrs=None, gsubrs=None) -> bytes

Coordinates of all on- and off-curve points stay inside [-16384, 16383] so that every
delta between two points of a glyph is a legal Type 2 operand (see finding
"specialiser merges collinear lines into an operand > 32767" in props/c12.py).
"""

import io

from hypothesis import strategies as st

from . import ref_t2

LIMIT = {"cff": 48, "cff2": 513}
_HINTISH = {"hstem", "vstem", "hstemhm", "vstemhm", "hintmask", "cntrmask"}
BOX_LO, BOX_HI = -16384, 16383

_EDGE_INTS = [107, 108, -107, -108, 1131, 1132, -1131, -1132, 106, 109, 1130, 1133, 255, 256, -255, -256]
_BIG_INTS = [32767, -32767, 32766, 16383, -16384, 20000, -20000, 3000, -3000]
_FRAC_RAW = [1, -1, 0x8000, -0x8000, 0xFFFF, -0xFFFF, 0x10001, 107 * 65536 + 1, 108 * 65536 - 1, -107 * 65536 - 1, 1131 * 65536 + 1, 1132 * 65536 - 1, -1131 * 65536 - 1, 0x4000, 0x3333, 6554]


def _ints(big=False):
    alts = [st.just(0), st.just(0), st.integers(-9, 9), st.integers(-9, 9), st.integers(-120, 120), st.sampled_from(_EDGE_INTS), st.integers(-1300, 1300)]
    if big:
        alts.append(st.sampled_from(_BIG_INTS))
    return st.one_of(*alts)


def _fracs():
    raw = st.one_of(
        st.sampled_from(_FRAC_RAW),
        st.integers(-(2**17), 2**17),
        st.builds(lambda i, f: i * 65536 + f, st.integers(-1200, 1200), st.sampled_from([1, 0x8000, 0xFFFF, 0x4000, 0xC000])),
        st.integers(-(2**26), 2**26),
    )
    exact = raw.map(lambda r: r / 65536.0 if r & 0xFFFF else r >> 16)
    # floats that are NOT multiples of 1/65536 but lie within half a 16.16 unit of an integer, on either side (what float
    # arithmetic on coordinates yields: 0.3 / 0.1, 4.35 * 100): the encoder must write the integer they round to
    near = st.builds(lambda n, e: n + e, st.integers(-1200, 1200), st.sampled_from([2.0**-20, -(2.0**-20), 1e-9, -1e-9, 2.0**-17 - 2.0**-30, -(2.0**-17 - 2.0**-30), 4.4e-16, -4.4e-16]))
    return st.one_of(exact, exact, exact, near)


_CACHE = {}


def _numbers(frac, big=False):
    """number strategy (cached: building strategies inside a composite is expensive)"""
    k = ("num", bool(frac), bool(big))
    if k not in _CACHE:
        _CACHE[k] = _ints(big) if not frac else st.one_of(_ints(big), _ints(big), _fracs())
    return _CACHE[k]


def _nonzero(frac):
    k = ("nz", bool(frac))
    if k not in _CACHE:
        _CACHE[k] = st.tuples(_numbers(frac), st.sampled_from([1, -1, 2, -3, 7, -12, 100])).map(lambda t: t[0] if t[0] != 0 else t[1])
    return _CACHE[k]


def _lists(elem, n):
    k = ("list", id(elem), n)
    if k not in _CACHE:
        _CACHE[k] = (elem, st.lists(elem, min_size=n, max_size=n))
    return _CACHE[k][1]


_B = st.booleans()
_I = {}


def _int(lo, hi):
    k = (lo, hi)
    if k not in _I:
        _I[k] = st.integers(lo, hi)
    return _I[k]


_S = {}


def _pick(seq):
    k = tuple(seq) if not isinstance(seq, str) else seq
    if k not in _S:
        _S[k] = st.sampled_from(list(seq))
    return _S[k]


# ---------------------------------------------------------------------------
# position / validity tracking with the reference interpreter


class _Track:
    def __init__(self, fmt):
        self.it = ref_t2._Interp(None, None, fmt, 0, 0, None, None)
        self.it.width_done = True

    def apply(self, op, args):
        """Execute op with default-instance args; roll back and return False when a point leaves the box."""
        it = self.it
        saved = (it.x, it.y, len(it.r.ops), it.open, it.seen_move, it.seen_path, len(it.r.problems))
        it.stack = list(args)
        it.do_op(op)
        ok = len(it.r.problems) == saved[6]
        if not ok:
            raise AssertionError("generator produced a malformed operator: %r %r -> %r" % (op, args, it.r.problems[-1]))
        for o, pts in it.r.ops[saved[2] :]:
            for p in pts:
                if not (BOX_LO <= p[0] <= BOX_HI and BOX_LO <= p[1] <= BOX_HI):
                    ok = False
        if not ok:
            it.x, it.y, n, it.open, it.seen_move, it.seen_path, _ = saved
            del it.r.ops[n:]
        return ok


def _shrink_val(v):
    if v == 0:
        return 0
    s = 1 if v > 0 else -1
    a = abs(v)
    fr = a - int(a)
    return s * (int(a) % 50 + 1 + fr) if fr else s * (int(a) % 50 + 1)


def _fit(track, op, args):
    """Return args (possibly mirrored / shrunk) that keep the path inside the box, or None."""
    for cand in (args, [-a for a in args], [_shrink_val(a) for a in args], [-_shrink_val(a) for a in args]):
        if track.apply(op, cand):
            return list(cand)
    return None


# ---------------------------------------------------------------------------
# operator forms

_SPECIAL_FORMS = [
    "rlineto",
    "hlineto-odd",
    "hlineto-even",
    "vlineto-odd",
    "vlineto-even",
    "rrcurveto",
    "hhcurveto",
    "hhcurveto+",
    "vvcurveto",
    "vvcurveto+",
    "hvcurveto-4+8n",
    "hvcurveto-4+8n+1",
    "hvcurveto-8n",
    "hvcurveto-8n+1",
    "vhcurveto-4+8n",
    "vhcurveto-4+8n+1",
    "vhcurveto-8n",
    "vhcurveto-8n+1",
    "rcurveline",
    "rlinecurve",
    "flex",
    "hflex",
    "hflex1",
    "flex1",
]

_STRESS_RUNS = ["alt-lines-h", "same-lines-h", "r-lines", "rr-curves", "r-lines", "rr-curves"]
_GENERAL_RUNS = ["alt-lines-h", "alt-lines-v", "same-lines-h", "same-lines-v", "r-lines", "zero-line", "hv-chain", "vh-chain", "hh-chain", "vv-chain", "rr-curves", "cat-curves", "line-curve-mix", "zero-curve"]


def _count(draw, lo, hi):
    """mostly small counts, sometimes the maximum the stack allows"""
    k = draw(_int(0, 9))
    if k <= 5:
        return min(hi, lo + draw(_int(0, 2)))
    if k <= 7:
        return draw(st.integers(lo, hi))
    return hi if k == 8 else max(lo, hi - 1)


def _special_op(draw, form, frac, limit):
    """-> (op, args) for one specialised operator form; args respect the stack limit."""
    num = _numbers(frac)

    def nums(n, s=num):
        return draw(_lists(s, n))

    if form == "rlineto":
        return "rlineto", nums(2 * _count(draw, 1, limit // 2))
    if form.startswith(("hlineto", "vlineto")):
        n = _count(draw, 1, limit // 2)
        n = 2 * n - 1 if form.endswith("odd") else min(2 * n, limit // 2 * 2)
        return form[:7], nums(n)
    if form == "rrcurveto":
        return "rrcurveto", nums(6 * _count(draw, 1, limit // 6))
    if form in ("hhcurveto", "vvcurveto", "hhcurveto+", "vvcurveto+"):
        extra = form.endswith("+")
        k = _count(draw, 1, (limit - extra) // 4)
        return form[:9], nums(4 * k + extra)
    if form.startswith(("hvcurveto", "vhcurveto")):
        tail = form[10:]
        extra = tail.endswith("+1")
        if tail.startswith("4+8n"):
            n8 = _count(draw, 0, (limit - 4 - extra) // 8)
            n = 4 + 8 * n8 + extra
        else:
            n8 = _count(draw, 1, (limit - extra) // 8)
            n = 8 * n8 + extra
        return form[:9], nums(n)
    if form == "rcurveline":
        return "rcurveline", nums(6 * _count(draw, 1, (limit - 2) // 6) + 2)
    if form == "rlinecurve":
        return "rlinecurve", nums(2 * _count(draw, 1, (limit - 6) // 2) + 6)
    if form == "flex":
        return "flex", nums(12) + [draw(_pick([50, 0, 100, 3, 1000]))]
    if form == "hflex":
        return "hflex", nums(7)
    if form == "hflex1":
        return "hflex1", nums(9)
    if form == "flex1":
        # flex1 decides between a horizontal and a vertical last delta by comparing |dx| with |dy|: its operands are kept
        # exact multiples of 1/65536 (no near-integer floats), so that the 16.16 quantisation of compile() cannot flip it
        a = [(round(v * 65536) / 65536.0 if isinstance(v, float) else v) for v in nums(11)]
        a = [int(v) if isinstance(v, float) and v == int(v) else v for v in a]
        if draw(_int(0, 2)) == 0:
            # the tie |dx| == |dy| (the note: d6 is horizontal only when |dx| > |dy|)
            dx = a[0] + a[2] + a[4] + a[6] + a[8]
            a[9] = draw(_pick([1, -1])) * dx - (a[1] + a[3] + a[5] + a[7])
            if a[10] == 0:
                a[10] = 7
        return "flex1", a
    raise AssertionError(form)


def _vec(draw, cat, frac):
    nz = _nonzero(frac)
    if cat == "0":
        return [0, 0]
    if cat == "h":
        return [draw(nz), 0]
    if cat == "v":
        return [0, draw(nz)]
    return [draw(nz), draw(nz)]


def _general_run(draw, kind, frac, long=False):
    """-> list of (op, args) in general form (one segment per operator) with chosen zero patterns."""
    n = draw(_int(1, 5)) if not long else draw(_int(6, 30))
    out = []
    cats = "rhv0"

    def curve(c1, c2):
        mid = draw(_lists(_numbers(frac), 2))
        return ("rrcurveto", _vec(draw, c1, frac) + mid + _vec(draw, c2, frac))

    if kind.startswith("alt-lines"):
        h = kind.endswith("h")
        for _ in range(n):
            out.append(("rlineto", _vec(draw, "h" if h else "v", frac)))
            h = not h
    elif kind.startswith("same-lines"):
        for _ in range(n):
            out.append(("rlineto", _vec(draw, kind[-1], frac)))
    elif kind == "r-lines":
        for _ in range(n):
            out.append(("rlineto", _vec(draw, "r", frac)))
    elif kind == "zero-line":
        out.append(("rlineto", [0, 0]))
    elif kind in ("hv-chain", "vh-chain"):
        a, b = kind[0], kind[1]
        for i in range(n):
            last = i == n - 1 and draw(_B)
            out.append(curve(a, "r" if last else b))
            a, b = b, a
    elif kind in ("hh-chain", "vv-chain"):
        c = kind[0]
        for i in range(n):
            first = i == 0 and draw(_B)
            out.append(curve("r" if first else c, c))
    elif kind == "rr-curves":
        for _ in range(n):
            out.append(curve("r", "r"))
    elif kind == "cat-curves":
        for _ in range(n):
            out.append(curve(draw(_pick(cats)), draw(_pick(cats))))
    elif kind == "zero-curve":
        out.append(("rrcurveto", [0, 0] + draw(_lists(_numbers(frac), 2)) + [0, 0]))
        if draw(_B):
            out.append(("rrcurveto", [0, 0, 0, 0, 0, 0]))
    else:  # line-curve-mix
        for _ in range(n):
            if draw(_B):
                out.append(("rlineto", _vec(draw, draw(_pick(cats)), frac)))
            else:
                out.append(curve(draw(_pick(cats)), draw(_pick(cats))))
    return out


# ---------------------------------------------------------------------------
# hints


def _hint_block(draw, frac, budget0, limit):
    """-> (tokens, nstems, uses_masks). budget0: operands available to the first operator
    (limit minus a pending width)."""
    toks = []
    nstems = 0
    masks = draw(_int(0, 3)) > 0
    num = _numbers(frac, big=True)
    first = [True]

    def stem_op(name):
        nonlocal nstems
        room = (budget0 if first[0] else limit) // 2
        room = min(room, 96 - nstems)
        if room < 1:
            return
        k = _count(draw, 1, min(room, 24))
        if nstems + k > 96:
            return
        toks.extend(draw(_lists(num, 2 * k)))
        toks.append(name)
        nstems += k
        first[0] = False

    hname = "hstemhm" if masks and draw(_int(0, 4)) else "hstem"
    vname = "vstemhm" if masks and draw(_int(0, 4)) else "vstem"
    for _ in range(draw(_pick([0, 1, 1, 1, 2, 3]))):
        stem_op(hname)
    nv = draw(_pick([0, 1, 1, 2]))
    implicit = masks and nv > 0 and draw(_B)
    for i in range(nv):
        if implicit and i == nv - 1:
            room = min((budget0 if first[0] else limit) // 2, 96 - nstems, 24)
            if room >= 1:
                k = _count(draw, 1, room)
                toks.extend(draw(_lists(num, 2 * k)))
                nstems += k
                first[0] = False
            else:
                implicit = False
        else:
            stem_op(vname)
    if nstems == 0:
        return [], 0, False
    if masks:
        nb = (nstems + 7) // 8
        ncm = draw(_pick([0, 0, 1, 2]))
        nhm = draw(_pick([0, 1, 1]))
        if implicit and ncm + nhm == 0:
            nhm = 1
        for _ in range(ncm):
            toks += ["cntrmask", draw(st.binary(min_size=nb, max_size=nb))]
        for _ in range(nhm):
            toks += ["hintmask", draw(st.binary(min_size=nb, max_size=nb))]
    return toks, nstems, masks


# ---------------------------------------------------------------------------
# whole programs


@st.composite
def _flat_program(draw, fmt="cff", mode=None, frac=None, hint_block=None, motifs=(), width_ok=True, nwx=0):
    """One flat program. Returns dict(prog, mode, frac, spans) where spans are
    (start, end) token ranges worth outlining (shared hint block, motifs)."""
    limit = LIMIT[fmt]
    if fmt == "cff2":
        # operand counts per operator: mostly CFF-like, sometimes up to the CFF2 stack limit
        limit = draw(_pick([48, 48, 48, 120, 513]))
    if mode is None:
        mode = draw(_pick(["general", "general", "special", "special", "mixed", "stress"]))
    if frac is None:
        frac = draw(_int(0, 2)) == 0
    toks = []
    spans = []
    has_width = fmt == "cff" and width_ok and draw(_B)
    width = None
    if has_width:
        width = draw(st.one_of(st.integers(0, 1300), st.sampled_from([107, 108, 1131, 1132, 0, 1, 32767]), st.integers(-200, 200)))
        if nwx + width < 0:
            width = abs(width) + max(0, -nwx)
        if frac and draw(_int(0, 3)) == 0:
            width += draw(_pick([0.5, 0.25, 1 / 65536.0]))
        if nwx + width > 32767:
            # hmtx/OS/2 consumers (and HarfBuzz) treat advances as int16
            width = 32767 - nwx
        toks.append(width)
    # the first stack-clearing operator leaves room for a width even when the program has none
    # (excluded class, finding: convertCFF2ToCFF puts a width in front of a 48-operand stem operator)
    budget0 = limit - 1
    nstems = 0
    shape = draw(_int(0, 19))  # 0: empty glyph
    if hint_block is not None:
        hb_toks, hb_n, hb_budget = hint_block
        if hb_budget <= budget0:
            spans.append((len(toks), len(toks) + len(hb_toks)))
            toks += hb_toks
            nstems = hb_n
    elif draw(_int(0, 2)) > 0 or shape == 1:
        h, nstems, _ = _hint_block(draw, frac, budget0, limit)
        toks += h
    first_done = len(toks) > (1 if has_width else 0)
    track = _Track(fmt)
    nsub = 0 if shape <= 1 else draw(_pick([1, 1, 1, 2, 2, 3, 4]))
    nb = (nstems + 7) // 8
    for si in range(nsub):
        # moveto
        big = draw(_int(0, 5)) == 0
        mv = draw(_lists(_numbers(frac, big=big), 2))
        if mode not in ("general", "stress"):
            k = draw(_int(0, 3))
            if k == 0:
                mv[1] = 0
            elif k == 1:
                mv[0] = 0
        if mode in ("general", "stress") or (mv[0] != 0 and mv[1] != 0) or draw(_int(0, 4)) == 0:
            op, args = "rmoveto", mv
        elif mv[1] == 0:
            op, args = "hmoveto", mv[:1]
        else:
            op, args = "vmoveto", mv[1:]
        args = _fit(track, op, args)
        if args is None:
            op, args = "rmoveto", [0, 0]
            track.apply(op, args)
        toks += args + [op]
        first_done = True
        if mode == "general" and draw(_int(0, 7)) == 0:
            # consecutive movetos (merged by the specialiser)
            a2 = _fit(track, "rmoveto", draw(_lists(_numbers(frac), 2)))
            if a2 is not None:
                toks += a2 + ["rmoveto"]
        # path operators
        nops = draw(_pick([0, 1, 2, 2, 3, 3, 4, 5, 6, 8]))
        if mode == "stress":
            nops = min(nops, 3)
        for _ in range(nops):
            if nstems and draw(_int(0, 5)) == 0:
                toks += ["hintmask", draw(st.binary(min_size=nb, max_size=nb))]
            use_motif = motifs and draw(_int(0, 3)) == 0
            if use_motif:
                m = draw(st.sampled_from(list(motifs)))
                ops = [(o, list(a)) for o, a in m]
                # all or nothing, so that the token run is identical in every glyph using it
                snap = (track.it.x, track.it.y, len(track.it.r.ops), track.it.open)
                good = all(track.apply(o, a) for o, a in ops)
                if not good:
                    track.it.x, track.it.y, n_, track.it.open = snap
                    del track.it.r.ops[n_:]
                    continue
                start = len(toks)
                for o, a in ops:
                    toks += a + [o]
                spans.append((start, len(toks)))
                continue
            general = mode == "general" or (mode == "mixed" and draw(_B))
            if mode == "stress":
                # long runs of lines and oblique curves only: merged up to the stack limit
                ops = _general_run(draw, draw(_pick(_STRESS_RUNS)), frac, long=True)
            elif general:
                ops = _general_run(draw, draw(_pick(_GENERAL_RUNS)), frac)
            else:
                ops = [_special_op(draw, draw(_pick(_SPECIAL_FORMS)), frac, limit)]
            for o, a in ops:
                a = _fit(track, o, a)
                if a is not None:
                    toks += a + [o]
    if fmt == "cff":
        toks.append("endchar")
    return dict(prog=toks, mode=mode, frac=frac, spans=spans)


def programs(fmt="cff"):
    """Strategy: one flat well-formed CFF program (dict with 'prog', 'mode', 'frac')."""
    return _flat_program(fmt=fmt)


# ---------------------------------------------------------------------------
# CFF2: blend / vsindex

_SCALAR_SETS = [[0.5, -0.25, 1.0, 0.75], [1.0, 0.0, 0.5, -1.0], [-0.5, 0.25, 0.125, 1.0]]


@st.composite
def cff2_programs(draw):
    """Flat CFF2 program: a CFF-grammar program without width/endchar whose operand runs are
    partly replaced by blend operators; optional leading vsindex."""
    base = draw(_flat_program(fmt="cff2", width_ok=False))
    regions = draw(st.sampled_from([[1, 2], [2, 1], [2, 3], [3, 1], [1, 1]]))
    vs = draw(_pick([None, None, 0, 1]))
    k = regions[vs or 0]
    toks = base["prog"]
    out = []
    if vs is not None:
        out += [vs, "vsindex"]
    delta = st.one_of(st.just(0), st.integers(-30, 30), st.integers(-30, 30), st.sampled_from([107, 108, -108, 300]))
    if base["frac"]:
        delta = st.one_of(delta, st.integers(-(2**18), 2**18).map(lambda r: r / 65536.0 if r & 0xFFFF else r >> 16))
    i = 0
    n = len(toks)
    first_op_blends = 0
    seen_first_op = False
    nblend = 0
    style = draw(_pick(["sparse", "dense", "single", "none"]))
    while i < n:
        # operand run [i, j)
        j = i
        while j < n and not isinstance(toks[j], (str, bytes)):
            j += 1
        run = toks[i:j]
        pos = 0
        depth = 0
        while pos < len(run):
            want = style != "none" and draw(_int(0, 9)) < (7 if style == "dense" else 3)
            # (former finding, repaired: several blend operators before the first stack-clearing operator were
            #  taken for a width by programToCommands; generated again)
            if want:
                m = 1 if style == "single" else draw(st.integers(1, min(len(run) - pos, 6)))
                if depth + m * (k + 1) + 1 > LIMIT["cff2"]:
                    want = False
            if want:
                out += run[pos : pos + m]
                out += draw(_lists(delta, m * k))
                out += [m, "blend"]
                pos += m
                depth += m
                nblend += 1
                if not seen_first_op:
                    first_op_blends += 1
            else:
                out.append(run[pos])
                pos += 1
                depth += 1
        if j < n:
            out.append(toks[j])
            seen_first_op = True
            if toks[j] in ("hintmask", "cntrmask"):
                out.append(toks[j + 1])
                j += 1
        i = j + 1
    return dict(prog=out, regions=regions, vsindex=vs, mode=base["mode"], frac=base["frac"], nblend=nblend, base=toks)


# ---------------------------------------------------------------------------
# subroutinisation by random outlining


def _atoms(tokens):
    out = []
    i = 0
    while i < len(tokens):
        t = tokens[i]
        if t in ("hintmask", "cntrmask"):
            out.append((t, tokens[i + 1]))
            i += 2
        else:
            out.append((t,))
            i += 1
    return out


def _depths_before(atoms):
    """operand-stack depth before each atom of a flat CFF program (all operators clear the stack)"""
    d = 0
    out = []
    for a in atoms:
        out.append(d)
        if isinstance(a[0], str):
            d = 0
        else:
            d += 1
    return out


def expand_subrs(desc, fmt="cff"):
    """{"n": count, "at": [[index, body], ...]} -> list of programs (dummies are ['return'])."""
    dummy = ["return"] if fmt == "cff" else []
    out = [dummy] * desc["n"]
    for idx, body in desc["at"]:
        out[idx] = body
    return out


@st.composite
def _outlined(draw, flats, spans_list):
    """Outline token runs of the flat programs into local/global subroutines.
    -> (sub_programs, lsubrs_desc, gsubrs_desc)"""
    bodies = {"l": [], "g": []}  # list of item lists
    keys = {}
    notes = []

    def flat_of(items):
        out = []
        for it in items:
            if it[0] == "tok":
                out.extend(it[1])
            else:
                out.extend(flat_of(bodies[it[1]][it[2]][0]))
        return out

    progs = []
    for flat, spans in zip(flats, spans_list):
        atoms = _atoms(flat)
        deps = _depths_before(atoms)
        items = [("tok", a, d) for a, d in zip(atoms, deps)]
        # token index -> atom index
        tokpos = []
        p = 0
        for a in atoms:
            tokpos.append(p)
            p += len(a)
        cuts = []
        for s, e in spans:
            if draw(_int(0, 4)) > 0 and s in tokpos and (e in tokpos or e == p):
                cuts.append(("span", tokpos.index(s), tokpos.index(e) if e in tokpos else len(atoms)))
        ncuts = draw(_pick([0, 1, 1, 2, 2, 3, 4]))
        # span cuts are expressed in original atom indices: apply them first, right to left
        cuts.sort(key=lambda c: -c[1])
        last_start = len(atoms) + 1
        todo = []
        for _, i, j in cuts:
            if j <= last_start and i < j:
                todo.append((i, j))
                last_start = i
        for i, j in todo:
            items = _cut(draw, items, i, j, bodies, keys, flat_of, notes)
        for _ in range(ncuts):
            n = len(items)
            if n == 0:
                break
            i = draw(st.integers(0, n - 1))
            ln = draw(_pick([0, 1, 1, 2, 3, 5, 8, 13, 40]))
            j = min(n, i + ln)
            items = _cut(draw, items, i, j, bodies, keys, flat_of, notes)
        progs.append(items)

    # final numbering with padding
    def layout(kind):
        real = bodies[kind]
        pad = draw(st.sampled_from(["none"] * 12 + ["1131"] * 3 + ["32768"]))
        if not real:
            pad = "none"
        n = len(real)
        if pad == "1131":
            n = 1240 + draw(_int(0, 40)) + len(real)
        elif pad == "32768":
            n = 33900 + draw(_int(0, 40)) + len(real)
        elif real and draw(_int(0, 3)) == 0:
            n = len(real) + draw(_int(1, 230))
        bias = ref_t2.subr_bias(n)
        cand = [0, 1, 2, n - 1, n - 2, bias, bias - 1, bias + 1, bias - 107, bias + 107, bias - 108, bias + 108, bias - 1131, bias + 1131, bias + 1132]
        cand = [c for c in cand if 0 <= c < n]
        pos = []
        for _ in real:
            c = draw(st.one_of(st.sampled_from(cand), st.integers(0, n - 1)))
            while c in pos:
                c = (c + 1) % n
            pos.append(c)
        return n, bias, pos

    lay = {k: layout(k) for k in ("l", "g")}

    def resolve(items, terminator):
        out = []
        for it in items:
            if it[0] == "tok":
                out.extend(it[1])
            else:
                n, bias, pos = lay[it[1]]
                out += [pos[it[2]] - bias, "callsubr" if it[1] == "l" else "callgsubr"]
        if terminator:
            out.append(terminator)
        return out

    sub_progs = [resolve(items, None) for items in progs]
    descs = {}
    for kind in ("l", "g"):
        n, bias, pos = lay[kind]
        at = []
        for bi, (items, term) in enumerate(bodies[kind]):
            at.append([pos[bi], resolve(items, term)])
        descs[kind] = dict(n=n, at=sorted(at))
    return sub_progs, descs["l"], descs["g"], notes


def _cut(draw, items, i, j, bodies, keys, flat_of, notes):
    """Replace items[i:j] by a call to a (possibly shared) subroutine holding them."""
    body = items[i:j]
    depth = items[i][2] if i < len(items) else 0
    if depth + 1 > LIMIT["cff"]:
        return items
    ends_char = bool(body) and body[-1][0] == "tok" and body[-1][1] == ("endchar",)
    flat_body = []
    for it in body:
        if it[0] == "tok":
            flat_body.extend(it[1])
        else:
            flat_body.extend(flat_of(bodies[it[1]][it[2]][0]))
    if ends_char:
        hint_only = not any(isinstance(t, str) and t not in _HINTISH for t in flat_body[:-1])
        # (former finding, repaired: remove_hints deleted the call to a subr whose only non-hint operator is its
        #  final endchar; such subrs are generated again)
        if draw(_B):
            # leave endchar in the caller
            body = body[:-1]
            flat_body = flat_body[:-1]
            j -= 1
            ends_char = False
    if not body and depth != 0:
        # excluded class (finding): remove_hints treats a subr "<operands> <call to empty subr>" as empty
        notes.append("call-to-empty-subr-with-pending-operands")
        return items
    term = None if ends_char else "return"
    kind = draw(_pick("llg"))
    key = (kind, repr(flat_body), term)
    if key in keys:
        bi = keys[key]
    else:
        bi = len(bodies[kind])
        bodies[kind].append((body, term))
        keys[key] = bi
    return items[:i] + [("call", kind, bi, depth)] + items[j:]


@st.composite
def fonts(draw, max_glyphs=5):
    """A small CFF font case (JSON-able):
    {"kind": "font", "dwx", "nwx", "flat": [prog...], "sub": [prog...], "lsubrs": desc, "gsubrs": desc,
     "modes": [...], "frac": [...], "hintvals": bool}"""
    ng = draw(st.integers(1, max_glyphs))
    frac_font = draw(_int(0, 2)) == 0
    nwx = draw(st.one_of(st.integers(0, 1200), st.sampled_from([0, 107, 108, 500, 600, 1131]), st.integers(-300, 0)))
    dwx = max(0, draw(st.one_of(st.integers(0, 1200), st.just(nwx), st.sampled_from([0, 500, 600, 1000]))))
    shared_hints = None
    if draw(_int(0, 2)) == 0:
        h, n, _ = _hint_block(draw, False, LIMIT["cff"] - 1, LIMIT["cff"])
        if n:
            shared_hints = (h, n, LIMIT["cff"] - 1)
    motifs = []
    for _ in range(draw(_pick([0, 0, 1, 2]))):
        ops = []
        for _ in range(draw(_int(1, 3))):
            if draw(_B):
                ops.append(_special_op(draw, draw(_pick(_SPECIAL_FORMS)), False, 12))
            else:
                ops.extend(_general_run(draw, draw(_pick(_GENERAL_RUNS)), False)[:2])
        motifs.append([(o, [_shrink_val(v) for v in a]) for o, a in ops])
    flats, spans, modes, fracs = [], [], [], []
    for gi in range(ng):
        use_shared = shared_hints is not None and draw(_int(0, 3)) > 0
        g = draw(_flat_program(fmt="cff", frac=(frac_font and draw(_B)), hint_block=shared_hints if use_shared else None, motifs=motifs, nwx=nwx))
        flats.append(g["prog"])
        spans.append(g["spans"])
        modes.append(g["mode"])
        fracs.append(g["frac"])
    if draw(_int(0, 5)) == 0:
        sub, ld, gd, notes = list(flats), dict(n=0, at=[]), dict(n=0, at=[]), []
    else:
        sub, ld, gd, notes = draw(_outlined(flats, spans))
        for gi, fl in enumerate(flats):
            if len(fl) == 2 and fl[1] == "endchar" and sub[gi] != fl:
                # (former finding, repaired: a glyph that is only "w endchar" with the width inside a subroutine kept
                #  its width operand when converted to CFF2; generated again)
                pass
    return dict(kind="font", dwx=dwx, nwx=nwx, flat=flats, sub=sub, lsubrs=ld, gsubrs=gd, modes=modes, frac=fracs, hintvals=draw(_B), gen_excluded=notes)


# ---------------------------------------------------------------------------
# font building (uses the fontTools under test; callers compare against independent oracles)


def glyph_names(n):
    return [".notdef"] + ["g%d" % i for i in range(1, n)]


def build_cff_font(charstrings, widths, private=None, lsubrs=None, gsubrs=None, upem=1000):
    """charstrings: dict glyph name -> program (token list); the first key becomes glyph 0
    (use '.notdef'). widths: dict name -> advance (hmtx). private: dict of Private DICT
    values (defaultWidthX, nominalWidthX, BlueValues, ...). lsubrs / gsubrs: lists of
    subroutine programs. Returns the bytes of a complete OpenType/CFF font."""
    from fontTools.cffLib import SubrsIndex
    from fontTools.fontBuilder import FontBuilder
    from fontTools.misc.psCharStrings import T2CharString

    names = list(charstrings)
    fb = FontBuilder(upem, isTTF=False)
    fb.setupGlyphOrder(names)
    fb.setupCharacterMap({0x41 + i: n for i, n in enumerate(names) if i})
    cs = {n: T2CharString(program=list(p)) for n, p in charstrings.items()}
    fb.setupCFF("VerifT2", {"FullName": "Verif T2"}, cs, dict(private or {}))
    cff = fb.font["CFF "].cff
    top = cff.topDictIndex[0]
    if lsubrs:
        idx = SubrsIndex()
        cache = {}
        for p in lsubrs:
            k = id(p)
            if k not in cache:
                cache[k] = T2CharString(program=list(p))
            idx.append(cache[k])
        top.Private.Subrs = idx
    if gsubrs:
        cache = {}
        for p in gsubrs:
            k = id(p)
            if k not in cache:
                cache[k] = T2CharString(program=list(p))
            cff.GlobalSubrs.append(cache[k])
    fb.setupHorizontalMetrics({n: (int(widths[n]), 0) for n in names})
    fb.setupHorizontalHeader(ascent=800, descent=-200)
    fb.setupNameTable({"familyName": "Verif", "styleName": "T2"})
    fb.setupOS2()
    fb.setupPost()
    buf = io.BytesIO()
    fb.font.save(buf)
    return buf.getvalue()
