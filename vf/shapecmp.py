"""Before/after comparison of two fonts through HarfBuzz, keyed by glyph NAME.

Used by the transformation properties (subset, instancer, reorder, scale-upem,
merge): the original and the transformed font are both shaped / drawn by
HarfBuzz and results are compared by the glyph names taken from each TTFont's
own glyph order (never from HarfBuzz, whose CFF names differ for duplicates).
"""

import random

from . import geom
from .hbref import HBFont


def names_of(result, order, rename=None):
    out = []
    for gid, cluster, xa, ya, xo, yo in result:
        n = order[gid] if gid < len(order) else "gid%d" % gid
        if rename:
            n = rename.get(n, n)
        out.append((n, cluster, xa, ya, xo, yo))
    return out


def shape_text(hbf, order, text, features=None, script=None, language=None, direction=None, rename=None):
    return names_of(hbf.shape_text(text, features=features, script=script, language=language, direction=direction), order, rename)


def shape_names(hbf, order, names, features=None, script=None, language=None, direction="ltr", rename=None):
    idx = {n: i for i, n in enumerate(order)}
    gids = [idx[n] for n in names]
    return names_of(hbf.shape_gids(gids, features=features, script=script, language=language, direction=direction), order, rename)


def diff_shaping(ra, rb, scale=1.0, tol=0.0, check_clusters=True):
    """ra, rb: lists of (name, cluster, xa, ya, xo, yo). Returns None if equal
    (positions of ra times scale within tol of rb), else a description."""
    if [r[0] for r in ra] != [r[0] for r in rb]:
        return "glyph sequence %s vs %s" % ([r[0] for r in ra][:12], [r[0] for r in rb][:12])
    for i, (a, b) in enumerate(zip(ra, rb)):
        if check_clusters and a[1] != b[1]:
            return "cluster of glyph %d (%s): %d vs %d" % (i, a[0], a[1], b[1])
        for k, lab in ((2, "x_advance"), (3, "y_advance"), (4, "x_offset"), (5, "y_offset")):
            if abs(a[k] * scale - b[k]) > tol:
                return "%s of glyph %d (%s): %s%s vs %s" % (lab, i, a[0], a[k], " x%g" % scale if scale != 1.0 else "", b[k])
    return None


def fired(r, hbf_nominal_advances=None):
    """Heuristic: did layout do anything observable (offsets non-zero or multiple glyphs per cluster / fewer glyphs)?"""
    return any(x[4] or x[5] or x[3] for x in r)


def diff_glyph(hba, gida, hbb, gidb, tol=0.0, scale=1.0, adv_tol=None, degen=0.01, loose=False):
    """Outline and advances of glyph gida in font a vs gidb in font b (a scaled by `scale`)."""
    A = [c for c in geom.canon(hba.draw(gida), tol=degen) if c["segs"]]
    B = [c for c in geom.canon(hbb.draw(gidb), tol=degen) if c["segs"]]
    if scale != 1.0:
        A = scale_contours(A, scale)
    ok, detail = geom.same_geometry(A, B, tol=tol)
    if not ok and loose and len(A) != len(B):
        # sub-unit specks may collapse to nothing (or survive) when every operand is rounded
        def big(c):
            b = geom.control_bounds([c])
            return b is not None and (b[2] - b[0] > 1.5 * max(1.0, scale) or b[3] - b[1] > 1.5 * max(1.0, scale))

        A2, B2 = [c for c in A if big(c)], [c for c in B if big(c)]
        if len(A2) == len(B2):
            A, B = A2, B2
            ok, detail = geom.same_geometry(A, B, tol=tol)
    if not ok and loose and len(A) == len(B):
        # rounding may collapse or create sub-unit segments: fall back to a distance comparison
        d = geom.outline_distance(A, B)
        if d <= tol + 0.25:
            ok = True
        else:
            detail += " (outline distance %.3f)" % d
    if not ok:
        return "outline: " + detail
    at = tol if adv_tol is None else adv_tol
    ha, hb_ = hba.h_advance(gida) * scale, hbb.h_advance(gidb)
    if abs(ha - hb_) > at:
        return "h_advance %s vs %s" % (ha, hb_)
    return None


def scale_contours(contours, k):
    out = []
    for c in contours:
        segs = [tuple([s[0]] + [(p[0] * k, p[1] * k) for p in s[1:]]) for s in c["segs"]]
        out.append(dict(c, start=(c["start"][0] * k, c["start"][1] * k), segs=segs))
    return out


def random_texts(chars, rnd, n, maxlen=8):
    chars = list(chars)
    out = []
    if not chars:
        return out
    for _ in range(n):
        k = rnd.randrange(1, maxlen + 1)
        out.append("".join(chr(rnd.choice(chars)) for _ in range(k)))
    return out


def layout_probe_sequences(font, rnd, n, maxlen=6):
    """Glyph-name sequences biased towards the inputs of the font's GSUB/GPOS rules:
    picks glyphs from lookup coverages so that lookups actually fire."""
    order = font.getGlyphOrder()
    pool = set()
    for tag in ("GSUB", "GPOS"):
        if tag not in font:
            continue
        try:
            table = font[tag].table
            if not table.LookupList:
                continue
            for lookup in table.LookupList.Lookup:
                for st in lookup.SubTable:
                    st = getattr(st, "ExtSubTable", st)
                    for attr in ("Coverage", "MarkCoverage", "BaseCoverage", "Mark1Coverage", "Mark2Coverage", "LigatureCoverage"):
                        cov = getattr(st, attr, None)
                        if cov is not None:
                            pool.update(cov.glyphs)
                    for attr in ("InputCoverage", "BacktrackCoverage", "LookAheadCoverage"):
                        for cov in getattr(st, attr, None) or []:
                            pool.update(cov.glyphs)
                    if hasattr(st, "ligatures"):
                        for first, ligs in st.ligatures.items():
                            for lig in ligs:
                                pool.update(lig.Component)
        except Exception:
            pass
    pool = sorted(g for g in pool if g in set(order))
    seqs = []
    for _ in range(n):
        k = rnd.randrange(1, maxlen + 1)
        seq = []
        for _ in range(k):
            if pool and rnd.random() < 0.8:
                seq.append(rnd.choice(pool))
            else:
                seq.append(rnd.choice(order))
        seqs.append(seq)
    return seqs


def feature_sets(hbf, rnd):
    """A few feature settings to shape with: defaults, everything on."""
    tags = set()
    for table in ("GSUB", "GPOS"):
        try:
            scripts = hbf.layout_scripts(table)
            for si in range(len(scripts)):
                langs = hbf.layout_languages(table, si)
                for li in [0xFFFF] + list(range(len(langs))):
                    try:
                        tags.update(hbf.layout_features(table, si, li))
                    except Exception:
                        pass
        except Exception:
            pass
    sets = [None]
    if tags:
        sets.append({t: True for t in sorted(tags)})
    return sets
