"""C15 — every low-level encoder and its decoder are mutually inverse.

Each codec has one function check_<codec>(value) -> None | (kind, detail) that is
used by the bulk enumerations, by the Hypothesis-driven generators and by replay.
Where possible the decoded value is also compared with an independent reference
decoder written here from the format specifications.
"""

import itertools
import random
import struct

from vf.runner import Acc, Allowed, CaseTimeout, HarnessError, time_limit, fingerprint, hyp_collect, hyp_shrink, innermost_frame, subseed

ID = "C15"
LEVEL = "exploration"
RULE = (
    "values enumerated exhaustively (F2Dot14, 255UShort, T2/CFF/T1 integer ranges, uni/u glyph names, tags) or "
    "drawn from seeded generators (16.16, reals, base128, uint32var, point sets, delta runs, eexec, sstruct, "
    "timestamps, sparse bit sets); oracle = decode(encode(v)) == v, canonical-size rules from the specs and an "
    "independent reference decoder; a case is non-trivial when the value lies within 2 of an encoding boundary "
    "or the run encoder changed mode / split a run; distinct by (codec, value)"
)
ASSUMPTIONS = [
    "Type 2 integer operands are int16 and CFF DICT / Type 1 integers int32 (format definitions)",
    "tags are 4 characters 0x20-0x7E, not all spaces (spaces anywhere: leading and interior spaces are part of the domain)",
    "timestamps are >= 1970-01-01 (timestampToString clamps earlier values by design)",
]

# ---------------------------------------------------------------------------
# reference decoders (independent of fontTools)


def ref_decode_t2_number(data, fmt):
    b0 = data[0]
    if 32 <= b0 <= 246:
        return b0 - 139, 1
    if 247 <= b0 <= 250:
        return (b0 - 247) * 256 + data[1] + 108, 2
    if 251 <= b0 <= 254:
        return -(b0 - 251) * 256 - data[1] - 108, 2
    if b0 == 28 and fmt in ("t2", "cff"):
        return struct.unpack(">h", data[1:3])[0], 3
    if b0 == 29 and fmt == "cff":
        return struct.unpack(">i", data[1:5])[0], 5
    if b0 == 255 and fmt == "t1":
        return struct.unpack(">i", data[1:5])[0], 5
    if b0 == 255 and fmt == "t2":
        from fractions import Fraction

        return Fraction(struct.unpack(">i", data[1:5])[0], 65536), 5
    raise ValueError("bad number lead byte %d" % b0)


def ref_int_size(v, fmt):
    if -107 <= v <= 107:
        return 1
    if -1131 <= v <= 1131:
        return 2
    if fmt in ("t2", "cff") and -32768 <= v <= 32767:
        return 3
    return 5


def ref_decode_real(data):
    assert data[0] == 30
    s = ""
    i = 1
    tab = "0123456789.EE?-"
    done = False
    while not done:
        b = data[i]
        i += 1
        for nib in (b >> 4, b & 15):
            if nib == 15:
                done = True
                break
            if nib == 12:
                s += "E-"
            elif nib == 13:
                raise ValueError("reserved nibble")
            else:
                s += tab[nib]
    return s, i


def ref_pack_base128(n):
    out = [n & 0x7F]
    n >>= 7
    while n:
        out.append(0x80 | (n & 0x7F))
        n >>= 7
    return bytes(reversed(out))


def ref_decode_points(data, pos=0):
    n = data[pos]
    pos += 1
    if n & 0x80:
        n = ((n & 0x7F) << 8) | data[pos]
        pos += 1
    if n == 0:
        return None, pos
    pts = []
    cur = 0
    while len(pts) < n:
        h = data[pos]
        pos += 1
        cnt = (h & 0x7F) + 1
        for _ in range(cnt):
            if h & 0x80:
                d = (data[pos] << 8) | data[pos + 1]
                pos += 2
            else:
                d = data[pos]
                pos += 1
            cur += d
            pts.append(cur)
    if len(pts) != n:
        raise ValueError("run overshoots point count")
    return pts, pos


def ref_decode_deltas(data, n):
    out = []
    pos = 0
    runs = []
    while len(out) < n:
        h = data[pos]
        pos += 1
        cnt = (h & 0x3F) + 1
        kind = h & 0xC0
        runs.append((kind, cnt))
        if kind == 0x80:
            out.extend([0] * cnt)
        elif kind == 0x40:
            out.extend(struct.unpack(">%dh" % cnt, data[pos : pos + 2 * cnt]))
            pos += 2 * cnt
        elif kind == 0xC0:
            out.extend(struct.unpack(">%di" % cnt, data[pos : pos + 4 * cnt]))
            pos += 4 * cnt
        else:
            out.extend(struct.unpack(">%db" % cnt, data[pos : pos + cnt]))
            pos += cnt
    return out, pos, runs


def ref_eexec(data, R, decrypt):
    out = bytearray()
    for b in data:
        if decrypt:
            out.append(b ^ (R >> 8))
            R = ((b + R) * 52845 + 22719) & 0xFFFF
        else:
            c = b ^ (R >> 8)
            out.append(c)
            R = ((c + R) * 52845 + 22719) & 0xFFFF
    return bytes(out), R


# ---------------------------------------------------------------------------
# single-value checks. Each returns None or (kind, detail)


def check_f2dot14(v):
    from fontTools.misc.fixedTools import fixedToFloat, fixedToStr, floatToFixed, strToFixed, floatToFixedToStr

    return _check_fixed(v, 14)


def _check_fixed(v, bits):
    from fontTools.misc.fixedTools import fixedToFloat, fixedToStr, floatToFixed, strToFixed, floatToFixedToStr, strToFixedToFloat, floatToFixedToFloat

    f = fixedToFloat(v, bits)
    if f * (1 << bits) != v:
        return ("fixedToFloat-inexact", "%r -> %r" % (v, f))
    if floatToFixed(f, bits) != v:
        return ("floatToFixed", "%r -> %r -> %r" % (v, f, floatToFixed(f, bits)))
    s = fixedToStr(v, bits)
    if strToFixed(s, bits) != v:
        return ("strToFixed(fixedToStr)", "%r -> %r -> %r" % (v, s, strToFixed(s, bits)))
    if floatToFixedToStr(f, bits) != s:
        return ("floatToFixedToStr", "%r: %r vs %r" % (v, floatToFixedToStr(f, bits), s))
    if strToFixedToFloat(s, bits) != f or floatToFixedToFloat(f, bits) != f:
        return ("toFloat-shorthand", "%r" % v)
    # shortest: no decimal with fewer fractional digits maps back to v
    if "e" in s or "E" in s:
        return ("repr-exponent", s)
    nd = len(s.split(".")[1]) if "." in s else 0
    for d in range(0, nd):
        t = "%.*f" % (d, f)
        if d == 0:
            t = t + ".0" if "." not in t else t
            # the library prints integers as 'N.0' (one fractional digit); treat N.0 as 0 digits
            if nd == 1 and s.endswith(".0"):
                break
        if strToFixed(t, bits) == v and len(t) < len(s):
            return ("not-shortest", "%r -> %r but %r also round-trips" % (v, s, t))
    return None


def check_fixed16(v):
    return _check_fixed(v, 16)


def _decode_with(table, data):
    b0 = data[0]
    return table[b0](None, b0, data, 1)


def check_int(case):
    fmt, v = case
    from fontTools.misc import psCharStrings as ps

    enc = {"t2": ps.encodeIntT2, "cff": ps.encodeIntCFF, "t1": ps.encodeIntT1}[fmt]
    tab = {"t2": ps.t2OperandEncoding, "cff": ps.cffDictOperandEncoding, "t1": ps.t1OperandEncoding}[fmt]
    data = enc(v)
    if len(data) != ref_int_size(v, fmt):
        return ("int-size", "%s %d encoded in %d bytes, spec form has %d" % (fmt, v, len(data), ref_int_size(v, fmt)))
    got, idx = _decode_with(tab, data)
    if got != v or idx != len(data) or type(got) is not int:
        return ("int-decode", "%s %d -> %s -> %r (idx %d)" % (fmt, v, data.hex(), got, idx))
    r, n = ref_decode_t2_number(data, fmt)
    if r != v or n != len(data):
        return ("int-ref-decode", "%s %d -> %s -> ref %r" % (fmt, v, data.hex(), r))
    return None


def check_t2fixed(v):
    """v: 16.16 raw integer"""
    from fontTools.misc import psCharStrings as ps

    f = v / 65536
    data = ps.encodeFixed(f)
    got, idx = _decode_with(ps.t2OperandEncoding, data)
    if got != f or idx != len(data):
        return ("fixed-decode", "%r -> %s -> %r" % (f, data.hex(), got))
    r, n = ref_decode_t2_number(data, "t2")
    if r != f:
        return ("fixed-ref-decode", "%r -> %s -> ref %r" % (f, data.hex(), r))
    if v & 0xFFFF == 0 and -32768 <= (v >> 16) <= 32767 and len(data) != ref_int_size(v >> 16, "t2"):
        return ("fixed-int-size", "%r -> %s" % (f, data.hex()))
    return None


def check_t2program(vals):
    """Whole-API path: numbers in a T2CharString program survive compile/decompile."""
    from fontTools.misc.psCharStrings import T2CharString

    prog = [0, 0, "rmoveto"] + _as_lines(vals) + ["endchar"]
    cs = T2CharString(program=list(prog))
    cs.compile()
    bc = cs.bytecode
    cs2 = T2CharString(bytecode=bc)
    cs2.decompile()
    if cs2.program != prog:
        return ("t2program", "%r != %r" % (cs2.program[:20], prog[:20]))
    return None


def _as_lines(vals):
    out = []
    vals = list(vals)
    if len(vals) % 2:
        vals.append(0)
    for i in range(0, len(vals), 2):
        out += [vals[i], vals[i + 1], "rlineto"]
    return out


def check_real(f):
    from fontTools.misc import psCharStrings as ps

    data = ps.encodeFloat(f)
    expect = float("%.8G" % f)
    got, idx = _decode_with(ps.cffDictOperandEncoding, data)
    if got != expect or idx != len(data):
        return ("real-decode", "%r -> %s -> %r, expected %r" % (f, data.hex(), got, expect))
    try:
        s, n = ref_decode_real(data)
        rv = float(s)
    except Exception as e:
        return ("real-ref-decode", "%r -> %s: %r" % (f, data.hex(), e))
    if rv != expect or n != len(data):
        return ("real-ref-decode", "%r -> %s -> %r (%r)" % (f, data.hex(), s, rv))
    return None


def check_cffdict(vals):
    """CFF DICT number array through the real DictCompiler/Decompiler path (FontMatrix-like)."""
    from fontTools.cffLib import TopDictDecompiler, encodeNumber as packNumber

    data = b"".join(packNumber(v) for v in vals) + bytes([12, 7])  # FontMatrix
    if len(vals) != 6:
        return None
    dec = TopDictDecompiler(None)
    dec.decompile(data)
    got = dec.getDict().get("FontMatrix")
    exp = [v if isinstance(v, int) else float("%.8G" % v) for v in vals]
    if got != exp:
        return ("cffdict", "%r -> %r" % (vals, got))
    return None


def check_255(v):
    from fontTools.ttLib.woff2 import pack255UShort, unpack255UShort

    data = pack255UShort(v)
    size = 1 if v < 253 else (2 if v < 762 else 3)
    if len(data) != size:
        return ("255-size", "%d -> %s" % (v, data.hex()))
    got, rest = unpack255UShort(data + b"\xaa")
    if got != v or rest != b"\xaa":
        return ("255-decode", "%d -> %s -> %r rest %r" % (v, data.hex(), got, rest))
    # every alternative encoding the spec allows decodes to v
    alts = [struct.pack(">BH", 253, v)]
    if 253 <= v < 253 + 256:
        alts.append(bytes([255, v - 253]))
    if 506 <= v < 506 + 256:
        alts.append(bytes([254, v - 506]))
    for a in alts:
        if unpack255UShort(a)[0] != v:
            return ("255-alt-decode", "%s -> %r, expected %d" % (a.hex(), unpack255UShort(a)[0], v))
    return None


def check_base128(v):
    from fontTools.ttLib.woff2 import base128Size, packBase128, unpackBase128

    data = packBase128(v)
    if data != ref_pack_base128(v):
        return ("base128-encode", "%d -> %s, reference %s" % (v, data.hex(), ref_pack_base128(v).hex()))
    if base128Size(v) != len(data):
        return ("base128-size", "%d" % v)
    got, rest = unpackBase128(data + b"\x81")
    if got != v or rest != b"\x81":
        return ("base128-decode", "%d -> %s -> %r" % (v, data.hex(), got))
    return None


def check_base128_reject(data):
    """data: bytes that the WOFF2 spec requires a decoder to reject."""
    from fontTools.ttLib import TTLibError
    from fontTools.ttLib.woff2 import unpackBase128

    try:
        got = unpackBase128(data)
    except TTLibError:
        return None
    return ("base128-accepts-invalid", "%s -> %r" % (data.hex(), got))


def check_uint32var(v):
    from fontTools.ttLib.tables.otTables import _read_uint32var, _write_uint32var

    data = _write_uint32var(v)
    size = 1 if v < 0x80 else 2 if v < 0x4000 else 3 if v < 0x200000 else 4 if v < 0x10000000 else 5
    if len(data) != size:
        return ("uint32var-size", "%d -> %s" % (v, data.hex()))
    got, i = _read_uint32var(b"\x55" + data + b"\x99", 1)
    if got != v or i != 1 + len(data):
        return ("uint32var-decode", "%d -> %s -> %r" % (v, data.hex(), got))
    return None


def check_points(case):
    """case: dict(points=[...], numPoints=int)"""
    from fontTools.ttLib.tables.TupleVariation import TupleVariation

    pts = list(case["points"])
    num = case["numPoints"]
    data = bytes(TupleVariation.compilePoints(pts))
    got, pos = TupleVariation.decompilePoints_(num, b"\xee" + data + b"\x77", 1, "gvar")
    got = list(got)
    want = sorted(set(pts)) if pts else list(range(num))
    if got != want or pos != 1 + len(data):
        return ("points-decode", "%r -> %s -> %r" % (pts[:10], data.hex()[:60], got[:10]))
    ref, rpos = ref_decode_points(data)
    if ref is None:
        ref = list(range(num))
    if ref != want or rpos != len(data):
        return ("points-ref-decode", "%r -> %s -> ref %r" % (pts[:10], data.hex()[:60], (ref or [])[:10]))
    return None


def check_deltas(case):
    """case: dict(deltas=[...], opt=bool)"""
    from fontTools.ttLib.tables.TupleVariation import TupleVariation

    deltas = list(case["deltas"])
    data = bytes(TupleVariation.compileDeltaValues_(deltas, optimizeSize=case["opt"]))
    got, pos = TupleVariation.decompileDeltas_(len(deltas), b"\x01" + data + b"\x3f", 1)
    if list(got) != deltas or pos != 1 + len(data):
        return ("deltas-decode", "%r -> %s -> %r" % (deltas[:12], data.hex()[:60], list(got)[:12]))
    ref, rpos, runs = ref_decode_deltas(data, len(deltas))
    if ref != deltas or rpos != len(data):
        return ("deltas-ref-decode", "%r -> %s -> ref %r" % (deltas[:12], data.hex()[:60], ref[:12]))
    got2, _ = TupleVariation.decompileDeltas_(None, data, 0)
    if list(got2) != deltas:
        return ("deltas-decode-unbounded", "%r" % (deltas[:12],))
    return None


def check_eexec(case):
    from fontTools.misc import eexec

    data, R = case["data"], case["key"]
    c, r1 = eexec.encrypt(data, R)
    rc, rr = ref_eexec(data, R, False)
    if c != rc or r1 != rr:
        return ("eexec-encrypt-vs-ref", "key %d data %s" % (R, data.hex()[:40]))
    p, r2 = eexec.decrypt(c, R)
    if p != data or r2 != r1:
        return ("eexec-decrypt", "key %d data %s -> %s" % (R, data.hex()[:40], p.hex()[:40]))
    p2, r3 = eexec.decrypt(data, R)
    if ref_eexec(data, R, True) != (p2, r3):
        return ("eexec-decrypt-vs-ref", "key %d" % R)
    c2, _ = eexec.encrypt(p2, R)
    if c2 != data:
        return ("eexec-encrypt(decrypt)", "key %d" % R)
    h = eexec.hexString(data)
    if eexec.deHexString(h) != data:
        return ("hexString", data.hex()[:40])
    # deHexString documents that whitespace is ignored
    spaced = b"\n ".join(h[i : i + 6] for i in range(0, len(h), 6))
    if eexec.deHexString(spaced) != data:
        return ("deHexString-whitespace", data.hex()[:40])
    return None


_SSTRUCT_TYPES = {
    "b": (-128, 127),
    "B": (0, 255),
    "h": (-32768, 32767),
    "H": (0, 65535),
    "i": (-(2**31), 2**31 - 1),
    "I": (0, 2**32 - 1),
    "l": (-(2**31), 2**31 - 1),
    "L": (0, 2**32 - 1),
    "q": (-(2**63), 2**63 - 1),
    "Q": (0, 2**64 - 1),
}


def check_sstruct(case):
    """case: dict(order='>'|'<', fields=[(name, fmtchar, value)])"""
    from fontTools.misc import sstruct

    lines = [case["order"]]
    obj = {}
    expect = {}
    for name, fc, val in case["fields"]:
        if fc == "x":
            lines.append("x  # pad byte")
            continue
        lines.append("%s: %s" % (name, fc))
        if fc.endswith("F"):
            after = int(fc[:-1].split(".")[1])
            obj[name] = val / (1 << after)
            expect[name] = val / (1 << after)
        elif fc.endswith("s"):
            n = int(fc[:-1])
            obj[name] = val
            exp = val.ljust(n, b"\0")[:n]
            try:
                exp = exp.decode("ascii")
            except UnicodeDecodeError:
                pass
            expect[name] = exp
        else:
            obj[name] = val
            expect[name] = val
    fmt = "\n".join(lines)
    data = sstruct.pack(fmt, obj)
    if len(data) != sstruct.calcsize(fmt):
        return ("sstruct-size", fmt)
    got = sstruct.unpack(fmt, data)
    if got != expect:
        return ("sstruct-roundtrip", "%r -> %r" % (expect, got))
    got2, rest = sstruct.unpack2(fmt, data + b"zz")
    if got2 != expect or rest != b"zz":
        return ("sstruct-unpack2", fmt)
    if sstruct.pack(fmt, got) != data:
        return ("sstruct-repack", fmt)
    return None


def check_timestamp(v):
    from fontTools.misc.timeTools import timestampFromString, timestampToString

    s = timestampToString(v)
    got = timestampFromString(s)
    if got != v:
        return ("timestamp", "%d -> %r -> %d" % (v, s, got))
    return None


def tag_domain_ok(tag):
    # every 4-character printable-ASCII tag except the all-space one: the tag codecs are defined on the whole Tag type
    # (spaces anywhere), not only on tags the OpenType registry would accept
    return len(tag) == 4 and tag.strip(" ") != ""


def check_tag_ident(tag):
    from fontTools.ttLib.ttFont import identifierToTag, tagToIdentifier

    ident = tagToIdentifier(tag)
    back = identifierToTag(ident)
    if back != tag:
        return ("tag-ident-inverse", "%r -> %r -> %r" % (tag, ident, back))
    if not ident.isidentifier():
        return ("tag-ident-not-identifier", "%r -> %r" % (tag, ident))
    return None


def check_tag_xml(tag):
    import re

    from fontTools.ttLib.ttFont import tagToXML, xmlToTag

    x = tagToXML(tag)
    back = xmlToTag(x)
    if back != tag:
        kind = "tagxml-inverse"
        if tag.endswith(" ") and not re.match("[A-Za-z_][A-Za-z_0-9]* *$", tag):
            kind = "tagxml-inverse:escaped-tag-with-trailing-space"
        return (kind, "%r -> %r -> %r" % (tag, x, back))
    if not re.match(r"[A-Za-z_][A-Za-z_0-9]*$", x):
        return ("tagxml-not-a-name", "%r -> %r" % (tag, x))
    return None


def check_bitset(case):
    from fontTools.misc import iftSparseBitSet as sbs

    vals = set(case["values"])
    data = sbs.encode(vals)
    got, used = sbs.decode(data + b"\xff\xff")
    if got != vals or used != len(data):
        return ("bitset", "%r -> %s -> %r (used %d)" % (sorted(vals)[:10], data.hex()[:40], sorted(got)[:10], used))
    bias = case.get("bias", 0)
    if bias:
        got, used = sbs.decode(data, bias=bias)
        want = {v + bias for v in vals if v + bias >= 0}
        want = {v for v in want if v <= 0xFFFFFFFF}
        if got != want:
            return ("bitset-bias", "%r bias %d" % (sorted(vals)[:10], bias))
    return None


def check_agl(cp):
    from fontTools import agl

    if 0xD800 <= cp <= 0xDFFF:
        names = ["uni%04X" % cp, "u%04X" % cp]
        for n in names:
            if agl.toUnicode(n) != "":
                return ("agl-surrogate", n)
        return None
    want = chr(cp)
    names = ["u%04X" % cp, "u%05X" % cp, "u%06X" % cp] if cp <= 0xFFFF else (["u%05X" % cp, "u%06X" % cp] if cp <= 0xFFFFF else ["u%06X" % cp])
    if cp <= 0xFFFF:
        names.append("uni%04X" % cp)
    if cp in agl.UV2AGL:
        names.append(agl.UV2AGL[cp])
    for n in names:
        if agl.toUnicode(n) != want:
            return ("agl-toUnicode", "%r -> %r, expected U+%04X" % (n, agl.toUnicode(n), cp))
        if agl.toUnicode(n + ".alt") != want:
            return ("agl-suffix", n)
    if cp <= 0xFFFF and agl.toUnicode("uni%04X%04X" % (cp, 0x41)) != want + "A":
        return ("agl-uni-sequence", "uni%04X0041" % cp)
    if agl.toUnicode("u%04X_u%04X" % (cp, cp)) != want + want:
        return ("agl-ligature", "u%04X" % cp)
    return None


CHECKS = {
    "f2dot14": check_f2dot14,
    "fixed16": check_fixed16,
    "int": check_int,
    "t2fixed": check_t2fixed,
    "t2program": check_t2program,
    "real": check_real,
    "cffdict": check_cffdict,
    "255": check_255,
    "base128": check_base128,
    "base128rej": check_base128_reject,
    "uint32var": check_uint32var,
    "points": check_points,
    "deltas": check_deltas,
    "eexec": check_eexec,
    "sstruct": check_sstruct,
    "timestamp": check_timestamp,
    "tagident": check_tag_ident,
    "tagxml": check_tag_xml,
    "bitset": check_bitset,
    "agl": check_agl,
}


_TIMED_OUT = set()


def apply(acc, codec, value, nontrivial=False, count=True):
    """Run one check, recording exceptions of the code under test as failures."""
    if codec in _TIMED_OUT:
        acc.exclude("skipped-after-timeout:%s" % codec)
        return False
    try:
        with time_limit(20):
            r = CHECKS[codec](value)
    except HarnessError:
        raise
    except CaseTimeout as e:
        # Every codec call here takes micro- to milliseconds, but on a loaded machine a worker can be
        # descheduled (or a lazy module import can stall) for longer than 20 s of wall clock: the case is
        # re-run under a 600 s limit and only a second silence is reported as non-termination.
        acc.label("timeout-20s-retried")
        try:
            with time_limit(600):
                r = CHECKS[codec](value)
        except HarnessError:
            raise
        except CaseTimeout as e2:
            acc.fail(codec, "no-result-within-600s", str(e2), {"codec": codec, "value": value}, innermost_frame(e2))
            _TIMED_OUT.add(codec)
            return False
        except Exception as e2:
            acc.fail(codec, type(e2).__name__, "%s: %s" % (type(e2).__name__, e2), {"codec": codec, "value": value}, innermost_frame(e2))
            return False
    except Exception as e:
        acc.fail(codec, type(e).__name__, "%s: %s" % (type(e).__name__, e), {"codec": codec, "value": value}, innermost_frame(e))
        return False
    if r is not None:
        acc.fail(codec, r[0], r[1], {"codec": codec, "value": value})
        return False
    return True


def near(v, bounds, d=2):
    return any(abs(v - b) <= d for b in bounds)


INT_BOUNDS = [-32769, -32768, -1132, -1131, -108, -107, 0, 107, 108, 1131, 1132, 32767, 32768, -(2**31), 2**31 - 1]

# ---------------------------------------------------------------------------
# jobs


def jobs(tier, seed):
    J = []
    thorough = tier == "thorough"
    J.append(dict(kind="f2dot14", name="f2dot14"))
    for i in range(4):
        J.append(dict(kind="fixed16", name="fixed16-%d" % i, shard=i, n=(400000 if thorough else 30000), seed=subseed(seed, "fx", i)))
    J.append(dict(kind="ints", name="ints-t2", fmt="t2", lo=-32768, hi=32767))
    J.append(dict(kind="ints", name="ints-cff", fmt="cff", lo=-40000, hi=40000))
    J.append(dict(kind="ints", name="ints-t1", fmt="t1", lo=-40000, hi=40000))
    J.append(dict(kind="intbounds", name="int-bounds", n=(2000000 if thorough else 60000), seed=subseed(seed, "ib")))
    for i in range(4 if thorough else 2):
        J.append(dict(kind="t2fixed", name="t2fixed-%d" % i, n=(500000 if thorough else 40000), seed=subseed(seed, "t2f", i)))
    for i in range(8 if thorough else 2):
        J.append(dict(kind="reals", name="reals-%d" % i, n=(250000 if thorough else 40000), seed=subseed(seed, "re", i)))
    J.append(dict(kind="reals-hyp", name="reals-hyp", n=(20000 if thorough else 1500), seed=subseed(seed, "reh")))
    J.append(dict(kind="255", name="255ushort"))
    for i in range(8 if thorough else 2):
        J.append(dict(kind="base128", name="base128-%d" % i, shard=i, n=(1000000 if thorough else 100000), seed=subseed(seed, "b128", i)))
    J.append(dict(kind="uint32var", name="uint32var", n=(2000000 if thorough else 150000), seed=subseed(seed, "u32")))
    for i in range(6 if thorough else 2):
        J.append(dict(kind="points", name="points-%d" % i, n=(15000 if thorough else 1200), seed=subseed(seed, "pt", i)))
    J.append(dict(kind="points-struct", name="points-struct"))
    for i in range(6 if thorough else 2):
        J.append(dict(kind="deltas", name="deltas-%d" % i, n=(15000 if thorough else 1500), seed=subseed(seed, "dl", i)))
    J.append(dict(kind="deltas-struct", name="deltas-struct"))
    J.append(dict(kind="eexec", name="eexec", n=(20000 if thorough else 2000), seed=subseed(seed, "ee")))
    J.append(dict(kind="eexec-keys", name="eexec-keys"))
    J.append(dict(kind="sstruct", name="sstruct", n=(20000 if thorough else 2500), seed=subseed(seed, "ss")))
    J.append(dict(kind="timestamps", name="timestamps", n=(1000000 if thorough else 60000), seed=subseed(seed, "ts")))
    # tags: 95 printable ASCII. thorough: all well-formed 4-char tags (about 8.2e7), sharded by first char;
    # quick: every well-formed tag whose 3rd and 4th characters come from a structured subset.
    if thorough:
        for c in range(0x20, 0x7F):
            J.append(dict(kind="tags", name="tags-%02x" % c, first=c, full=True))
    else:
        for i in range(6):
            J.append(dict(kind="tags", name="tags-q%d" % i, shard=i, nshards=6, full=False))
    for i in range(4 if thorough else 2):
        J.append(dict(kind="bitset", name="bitset-%d" % i, n=(6000 if thorough else 600), seed=subseed(seed, "bs", i)))
    nag = 16 if thorough else 4
    for i in range(nag):
        J.append(dict(kind="agl", name="agl-%d" % i, shard=i, nshards=nag, stride=(1 if thorough else 7), off=seed % 7))
    return J


def _st_points():
    from hypothesis import strategies as st

    # deltas between consecutive points: mostly small, sometimes > 255 to force word runs
    delta = st.one_of(st.integers(1, 3), st.integers(1, 255), st.integers(250, 260), st.integers(256, 4000))
    n = st.one_of(st.integers(1, 12), st.integers(120, 135), st.integers(250, 262), st.integers(1, 400))

    @st.composite
    def s(draw):
        k = draw(n)
        first = draw(st.integers(0, 300))
        ds = draw(st.lists(delta, min_size=k - 1, max_size=k - 1))
        pts = [first]
        for d in ds:
            if pts[-1] + d > 65535:
                break
            pts.append(pts[-1] + d)
        order = draw(st.sampled_from(["sorted", "reversed", "set"]))
        if order == "reversed":
            pts = pts[::-1]
        return dict(points=pts, numPoints=pts[-1] + 1 if order != "reversed" else pts[0] + 1)

    return s()


def _st_deltas():
    from hypothesis import strategies as st

    zero = st.just(0)
    byte = st.integers(-128, 127)
    edge = st.sampled_from([-129, -128, 127, 128, -32769, -32768, 32767, 32768, -(2**31), 2**31 - 1, 1, -1])
    word = st.integers(-32768, 32767)
    long_ = st.integers(-(2**31), 2**31 - 1)
    elem = st.one_of(zero, byte, edge, word, long_)

    @st.composite
    def run(draw):
        e = draw(st.one_of(zero, byte, word, long_, edge))
        n = draw(st.one_of(st.integers(1, 4), st.integers(60, 68), st.integers(126, 131)))
        same = draw(st.booleans())
        if same:
            return [e] * n
        base = draw(st.sampled_from([zero, byte, word, long_]))
        return draw(st.lists(base, min_size=n, max_size=n))

    @st.composite
    def s(draw):
        runs = draw(st.lists(st.one_of(run(), st.lists(elem, min_size=1, max_size=6)), min_size=1, max_size=6))
        deltas = [x for r in runs for x in r]
        return dict(deltas=deltas, opt=draw(st.booleans()))

    return s()


def _st_sstruct():
    from hypothesis import strategies as st

    @st.composite
    def field(draw, i):
        kind = draw(st.sampled_from(["int", "fixed", "str", "pad"]))
        name = "f%d_%s" % (i, draw(st.sampled_from(["a", "Bc", "_x", "version", "x1"])))
        if kind == "int":
            fc = draw(st.sampled_from(sorted(_SSTRUCT_TYPES)))
            lo, hi = _SSTRUCT_TYPES[fc]
            v = draw(st.one_of(st.sampled_from([lo, hi, 0]), st.integers(lo, hi)))
            return (name, fc, v)
        if kind == "fixed":
            before, after = draw(st.sampled_from([(2, 14), (16, 16), (8, 8), (4, 4), (1, 7), (0, 16), (6, 26), (10, 6), (16, 0)]))
            bits = before + after
            lo, hi = -(1 << (bits - 1)), (1 << (bits - 1)) - 1
            v = draw(st.one_of(st.sampled_from([lo, hi, 0, 1, -1]), st.integers(lo, hi)))
            return (name, "%d.%dF" % (before, after), v)
        if kind == "str":
            n = draw(st.integers(1, 8))
            v = draw(st.binary(min_size=n, max_size=n).filter(lambda b: not b.endswith(b"\0") or True))
            return (name, "%ds" % n, v)
        return (name, "x", 0)

    @st.composite
    def s(draw):
        k = draw(st.integers(1, 7))
        fields = [draw(field(i)) for i in range(k)]
        return dict(order=draw(st.sampled_from([">", "<"])), fields=fields)

    return s()


def _st_bitset():
    from hypothesis import strategies as st

    small = st.sets(st.integers(0, 300), max_size=60)
    ranges = st.builds(lambda a, n: set(range(a, a + n)), st.integers(0, 5000), st.integers(0, 700))
    sparse = st.sets(st.one_of(st.integers(0, 2**16), st.integers(0, 2**31 - 1), st.integers(2**31 - 40, 2**32 - 1)), max_size=20)
    pow_ = st.builds(
        lambda b, h, d: {max(0, b**h + d)}, st.sampled_from([2, 4, 8, 32]), st.integers(1, 6), st.integers(-2, 2)
    )

    @st.composite
    def s(draw):
        parts = draw(st.lists(st.one_of(small, ranges, sparse, pow_), min_size=0, max_size=3))
        vals = set()
        for p in parts:
            vals |= p
        return dict(values=sorted(vals), bias=draw(st.sampled_from([0, 0, 1, 17, -3, 1000])))

    return s()


def _st_real():
    from hypothesis import strategies as st

    mant = st.integers(1, 99999999)
    exp = st.integers(-45, 30)
    a = st.builds(lambda m, e, s: s * float("%dE%d" % (m, e)), mant, exp, st.sampled_from([1, -1]))
    b = st.floats(allow_nan=False, allow_infinity=False, min_value=-1e30, max_value=1e30)
    c = st.builds(lambda k, e: float("%sE%d" % ("9" * k, e)), st.integers(1, 12), st.integers(-12, 12))
    d = st.builds(lambda m, z, e: float("%d%sE%d" % (m, "0" * z, e)), st.integers(1, 999), st.integers(0, 9), st.integers(-12, 3))
    return st.one_of(a, b, c, d)


def _tag_chars_quick():
    # structured subset for positions 3 and 4 of quick-tier tags
    return [ord(c) for c in " _09AZaz/-~!"]


def run_job(job):
    acc = Acc()
    k = job["kind"]
    if k == "f2dot14":
        nt = 0
        for v in range(-32768, 32768):
            apply(acc, "f2dot14", v)
        # non-trivial: values whose shortest decimal needs >= 4 fractional digits (cannot be printed naively)
        from fontTools.misc.fixedTools import fixedToStr

        nt = sum(1 for v in range(-32768, 32768, 1) if len(fixedToStr(v, 14).split(".")[1]) >= 4)
        acc.bulk(65536, nt, "f2dot14:exhaustive", sample={"codec": "f2dot14", "value": -10139, "str": fixedToStr(-10139, 14)})
        acc.extra["exhaustive_subdomains"] = {"f2dot14": 65536}
    elif k == "fixed16":
        rnd = random.Random(job["seed"])
        edges = [-(2**31), -(2**31) + 1, 2**31 - 1, 2**31 - 2, 0, 1, -1, 65535, 65536, 65537, -65536, 32768, -32768]
        vals = set(edges) if job["shard"] == 0 else set()
        while len(vals) < job["n"]:
            r = rnd.random()
            if r < 0.3:
                vals.add(rnd.randrange(-(2**31), 2**31))
            elif r < 0.6:
                vals.add(rnd.randrange(-(2**20), 2**20))
            else:
                vals.add((rnd.randrange(-3000, 3000) << 16) + rnd.choice([0, 1, -1, 0x8000, 0x7FFF, 0x4000, 0x3333, 0x199A, 6554]))
        for v in vals:
            apply(acc, "fixed16", v)
        acc.bulk(len(vals), len(vals), "fixed16", sample={"codec": "fixed16", "value": 6554})
    elif k == "ints":
        fmt = job["fmt"]
        nt = 0
        for v in range(job["lo"], job["hi"] + 1):
            apply(acc, "int", (fmt, v))
            if near(v, INT_BOUNDS):
                nt += 1
        acc.bulk(job["hi"] - job["lo"] + 1, nt, "int:%s:exhaustive-range" % fmt, sample={"codec": "int", "value": [fmt, 1131]})
        acc.extra["exhaustive_subdomains"] = {"int-%s[%d,%d]" % (fmt, job["lo"], job["hi"]): job["hi"] - job["lo"] + 1}
    elif k == "intbounds":
        rnd = random.Random(job["seed"])
        n = 0
        for fmt in ("cff", "t1"):
            vals = set()
            for b in INT_BOUNDS + [2**k_ for k_ in range(8, 31)] + [-(2**k_) for k_ in range(8, 32)]:
                for d in range(-3, 4):
                    if -(2**31) <= b + d <= 2**31 - 1:
                        vals.add(b + d)
            for _ in range(job["n"] // 2):
                vals.add(rnd.randrange(-(2**31), 2**31))
            for v in vals:
                apply(acc, "int", (fmt, v))
            n += len(vals)
        acc.bulk(n, n, "int:int32-sample", sample={"codec": "int", "value": ["cff", -(2**31)]})
        # whole-program path
        progs = 0
        for _ in range(300):
            vals = [rnd.choice(INT_BOUNDS[1:12]) + rnd.randrange(-2, 3) for _ in range(20)]
            vals = [max(-32768, min(32767, v)) for v in vals]
            vals += [rnd.randrange(-(2**31), 2**31) / 65536 for _ in range(6)]
            rnd.shuffle(vals)
            if apply(acc, "t2program", vals):
                pass
            progs += 1
        acc.bulk(progs, progs, "t2program")
        for _ in range(2000):
            vals = [rnd.choice([rnd.randrange(-(2**31), 2**31), rnd.randrange(-1200, 1200), float("%.6G" % rnd.uniform(-2, 2)), rnd.uniform(-1e6, 1e6), 0.001, 1e-5]) for _ in range(6)]
            apply(acc, "cffdict", vals)
        acc.bulk(2000, 2000, "cffdict", sample={"codec": "cffdict", "value": [0.001, 0, 0, 0.001, 0, 0]})
    elif k == "t2fixed":
        rnd = random.Random(job["seed"])
        vals = set([0, 1, -1, 65535, 65536, 65537, -65535, -65536, -65537, 2**31 - 1, -(2**31), 107 << 16, 108 << 16, 1131 << 16, 1132 << 16, 32767 << 16, (-32768) << 16, (32767 << 16) + 1])
        while len(vals) < job["n"]:
            r = rnd.random()
            if r < 0.4:
                vals.add(rnd.randrange(-(2**31), 2**31))
            elif r < 0.7:
                vals.add(max(-(2**31), min(2**31 - 1, rnd.choice(INT_BOUNDS[1:12]) * 65536 + rnd.randrange(-2, 3))))
            else:
                vals.add(rnd.randrange(-2000, 2000) * 65536 + rnd.randrange(0, 65536))
        for v in vals:
            apply(acc, "t2fixed", v)
        acc.bulk(len(vals), len(vals), "t2fixed", sample={"codec": "t2fixed", "value": 65537})
    elif k == "reals":
        rnd = random.Random(job["seed"])
        vals = set()
        while len(vals) < job["n"]:
            r = rnd.random()
            if r < 0.35:
                nd = rnd.randrange(1, 9)
                m = rnd.randrange(10 ** (nd - 1), 10**nd)
                e = rnd.randrange(-40, 31)
                vals.add(rnd.choice([1, -1]) * float("%dE%d" % (m, e)))
            elif r < 0.5:
                vals.add(rnd.choice([1, -1]) * float("%dE%d" % (rnd.randrange(1, 1000), rnd.randrange(-12, 12))))
            elif r < 0.7:
                vals.add(rnd.uniform(-1, 1) * 10 ** rnd.randrange(-10, 10))
            elif r < 0.85:
                vals.add(float(rnd.randrange(-(10**9), 10**9)))
            else:
                vals.add(rnd.choice([1, -1]) * float("%sE%d" % ("9" * rnd.randrange(1, 11), rnd.randrange(-9, 9))))
        nt = 0
        for v in vals:
            apply(acc, "real", v)
            s = "%.8G" % v
            if "E" in s or s.endswith("000") or s.startswith(("0.0", "-0.0")):
                nt += 1
        acc.bulk(len(vals), nt, "real", sample={"codec": "real", "value": 1e-05})
    elif k == "reals-hyp":
        def body(f, acc):
            apply(acc, "real", f)
            s = "%.8G" % f
            acc.case(("real", f), nontrivial=("E" in s or s.endswith("000") or s.startswith(("0.0", "-0.0"))), labels=["real:hyp"])

        hyp_collect(acc, _st_real(), body, job["n"], job["seed"])
        for f in [0.0, -0.0, 1e-05, 123000.0, 0.001, -0.001, 1e10, 1e-10, 0.5, -0.5, 100.0, 1000.0, 10000.0, 99999999.0, 999999995.0, 0.99999999, 0.999999995, 1e22, 1.5e-7, 123456789.0, 0.0123456789, 1e9, 12e8]:
            apply(acc, "real", f)
            acc.case(("real", f), nontrivial=True, labels=["real:edge"])
    elif k == "255":
        for v in range(65536):
            apply(acc, "255", v)
        acc.bulk(65536, 7 * 5, "255ushort:exhaustive", sample={"codec": "255", "value": 506})
        acc.extra["exhaustive_subdomains"] = {"255ushort": 65536}
        from fontTools.ttLib import TTLibError
        from fontTools.ttLib.woff2 import pack255UShort

        for bad in (-1, 65536):
            try:
                pack255UShort(bad)
                acc.fail("255", "accepts-out-of-range", str(bad), {"codec": "255", "value": bad})
            except TTLibError:
                pass
    elif k == "base128":
        rnd = random.Random(job["seed"])
        vals = set()
        bounds = [0, 2**7, 2**14, 2**21, 2**28, 2**32 - 1]
        if job["shard"] == 0:
            for b in bounds:
                for d in range(-300, 301):
                    if 0 <= b + d < 2**32:
                        vals.add(b + d)
        while len(vals) < job["n"]:
            bits = rnd.randrange(1, 33)
            vals.add(rnd.randrange(0, 2**bits))
        nt = 0
        for v in vals:
            apply(acc, "base128", v)
            if near(v, bounds, 2):
                nt += 1
        acc.bulk(len(vals), nt if job["shard"] == 0 else 0, "base128", sample={"codec": "base128", "value": 2**28})
        if job["shard"] == 0:
            # forms the decoder must reject: leading 0x80, > 5 bytes, value > 2**32-1, truncated
            rej = [b"\x80\x01", b"\x80\x80\x3f", b"\x8f\xff\xff\xff\xff\x7f", b"\x90\x80\x80\x80\x00", b"\xff\xff\xff\xff\x7f", b"", b"\x81", b"\x81\x80"]
            for _ in range(3000):
                n = rnd.randrange(1, 5)
                rej.append(b"\x80" + bytes(rnd.randrange(0x80, 0x100) for _ in range(n - 1)) + bytes([rnd.randrange(0, 0x80)]))
                rej.append(bytes(rnd.randrange(0x81, 0x100) for _ in range(5)) + bytes([rnd.randrange(0, 0x80)]))
                rej.append(bytes([rnd.randrange(0x90, 0x100)]) + bytes(rnd.randrange(0x80, 0x100) for _ in range(3)) + bytes([rnd.randrange(0, 0x80)]))
                rej.append(bytes(rnd.randrange(0x81, 0x100) for _ in range(rnd.randrange(1, 5))))
            for b in rej:
                apply(acc, "base128rej", b)
            acc.bulk(len(rej), len(set(rej)), "base128:must-reject", sample={"codec": "base128rej", "value": b"\x80\x01"})
            from fontTools.ttLib import TTLibError
            from fontTools.ttLib.woff2 import packBase128

            for bad in (-1, 2**32):
                try:
                    packBase128(bad)
                    acc.fail("base128", "accepts-out-of-range", str(bad), {"codec": "base128", "value": bad})
                except TTLibError:
                    pass
    elif k == "uint32var":
        rnd = random.Random(job["seed"])
        bounds = [0, 0x80, 0x4000, 0x200000, 0x10000000, 2**32 - 1]
        vals = set()
        for b in bounds:
            for d in range(-300, 301):
                if 0 <= b + d < 2**32:
                    vals.add(b + d)
        while len(vals) < job["n"]:
            vals.add(rnd.randrange(0, 2 ** rnd.randrange(1, 33)))
        nt = 0
        for v in vals:
            apply(acc, "uint32var", v)
            nt += near(v, bounds, 2)
        acc.bulk(len(vals), nt, "uint32var", sample={"codec": "uint32var", "value": 0x4000})
    elif k == "points":
        def body(case, acc):
            apply(acc, "points", case)
            pts = case["points"]
            n = len(pts)
            s = sorted(pts)
            word = any(b - a > 255 for a, b in zip([0] + s, s))
            acc.case(("points", pts), nontrivial=(n > 127 or word), labels=["points:n>127"] * (n > 127) + ["points:word-run"] * word + ["points:count>=128-two-byte"] * (n >= 128))

        hyp_collect(acc, _st_points(), body, job["n"], job["seed"])
    elif k == "points-struct":
        cases = [dict(points=[], numPoints=n) for n in (0, 1, 7, 300)]
        for n in list(range(1, 10)) + list(range(120, 140)) + list(range(250, 262)) + [383, 384, 385, 1000, 5000]:
            cases.append(dict(points=list(range(n)), numPoints=n))
            cases.append(dict(points=list(range(0, 3 * n, 3)), numPoints=3 * n))
            cases.append(dict(points=list(range(5, 5 + 300 * n, 300))[: 65535 // 300], numPoints=65536))
            cases.append(dict(points=[i * 2 if i % 50 else i * 2 + 0 for i in range(n)] + [2 * n + 256 + 7], numPoints=2 * n + 300))
        cases.append(dict(points=[0, 255, 256, 511, 767, 1024, 65535], numPoints=65536))
        cases.append(dict(points=[65535], numPoints=65536))
        for c in cases:
            apply(acc, "points", c)
            acc.case(("points", c["points"]), nontrivial=len(c["points"]) > 127, labels=["points:structured"])
    elif k == "deltas":
        def body(case, acc):
            apply(acc, "deltas", case)
            d = case["deltas"]
            kinds = set("z" if v == 0 else "b" if -128 <= v <= 127 else "w" if -32768 <= v <= 32767 else "l" for v in d)
            acc.case(("deltas", d, case["opt"]), nontrivial=(len(kinds) > 1 or len(d) > 64), labels=["deltas:kinds=%d" % len(kinds), "deltas:len>64" if len(d) > 64 else "deltas:len<=64", "deltas:long" if "l" in kinds else "deltas:nolong"])

        hyp_collect(acc, _st_deltas(), body, job["n"], job["seed"])
    elif k == "deltas-struct":
        cases = []
        for v in (0, 5, -128, 127, 128, 300, -32768, 32767, 32768, 70000, -(2**31), 2**31 - 1):
            for n in (1, 2, 63, 64, 65, 127, 128, 129, 200):
                for opt in (True, False):
                    cases.append(dict(deltas=[v] * n, opt=opt))
        for pat in ([15, 15, 0, 15, 15], [0x6666, 0, 0x7777], [0x6666, 2, 0x7777], [0x6666, 2, 2, 0x7777], [1, 0, 0, 1], [70000, 1, 70000], [70000, 0, 0, 3, 400, 0]):
            for rep in (1, 13, 64, 65):
                for opt in (True, False):
                    cases.append(dict(deltas=pat * rep, opt=opt))
        for c in cases:
            apply(acc, "deltas", c)
            acc.case(("deltas", c["deltas"], c["opt"]), nontrivial=len(c["deltas"]) >= 64, labels=["deltas:structured"])
    elif k == "eexec":
        from hypothesis import strategies as st

        strat = st.fixed_dictionaries(dict(data=st.binary(min_size=0, max_size=200), key=st.one_of(st.sampled_from([55665, 4330, 0, 65535, 1, 256, 255]), st.integers(0, 65535))))

        def body(case, acc):
            apply(acc, "eexec", case)
            acc.case(("eexec", case["data"], case["key"]), nontrivial=len(case["data"]) >= 2, labels=["eexec:key-std" if case["key"] in (55665, 4330) else "eexec:key-other"])

        hyp_collect(acc, strat, body, job["n"], job["seed"])
    elif k == "eexec-keys":
        data = bytes(range(256)) + b"\0\0\xff\xff"
        for key in range(65536):
            apply(acc, "eexec", dict(data=data[(key % 7) : (key % 7) + 24], key=key))
        acc.bulk(65536, 65536, "eexec:all-keys", sample={"codec": "eexec", "value": {"data": data[:8], "key": 55665}})
        acc.extra["exhaustive_subdomains"] = {"eexec-keys": 65536}
    elif k == "sstruct":
        def body(case, acc):
            apply(acc, "sstruct", case)
            kinds = set(("F" if f[1].endswith("F") else "s" if f[1].endswith("s") else f[1]) for f in case["fields"])
            acc.case(("sstruct", case), nontrivial=("F" in kinds), labels=["sstruct:fixed" if "F" in kinds else "sstruct:nofixed"])

        hyp_collect(acc, _st_sstruct(), body, job["n"], job["seed"])
    elif k == "timestamps":
        rnd = random.Random(job["seed"])
        from fontTools.misc.timeTools import epoch_diff

        lo = -epoch_diff  # 1970-01-01 as an OpenType timestamp
        hi = lo + 253402300799  # 9999-12-31 23:59:59
        vals = set([lo, lo + 1, hi, hi - 1, lo + 86399, lo + 86400, lo + 951782400, lo + 951868799, lo + 951868800, lo + 2**31 - 1, lo + 2**31, lo + 2**32, 2**32 - 1, 2**32])
        while len(vals) < job["n"]:
            r = rnd.random()
            if r < 0.5:
                vals.add(rnd.randrange(lo, lo + 2**32))
            elif r < 0.8:
                vals.add(rnd.randrange(lo, hi + 1))
            else:  # around day / month / year boundaries
                y = rnd.randrange(1970, 9999)
                import calendar

                t = calendar.timegm((y, rnd.randrange(1, 13), 1, 0, 0, 0)) + rnd.randrange(-2, 3)
                if t >= 0:
                    vals.add(t + lo)
        for v in vals:
            apply(acc, "timestamp", v)
        acc.bulk(len(vals), len(vals), "timestamp", sample={"codec": "timestamp", "value": lo + 951868800})
    elif k == "tags":
        _tags_job(acc, job)
    elif k == "bitset":
        def body(case, acc):
            apply(acc, "bitset", case)
            v = case["values"]
            dense = len(v) >= 32 and any(b - a == 1 for a, b in zip(v, v[1:]))
            acc.case(("bitset", v, case["bias"]), nontrivial=len(v) >= 2, labels=["bitset:dense" if dense else "bitset:sparse", "bitset:big" if v and v[-1] > 2**20 else "bitset:small"])

        hyp_collect(acc, _st_bitset(), body, job["n"], job["seed"])
    elif k == "agl":
        from fontTools import agl

        n = nt = 0
        cps = range(job["shard"], 0x110000, job["nshards"])
        for cp in cps:
            if job["stride"] > 1 and (cp // job["nshards"]) % job["stride"] != job["off"] and cp not in agl.UV2AGL and not (0xD7F0 <= cp <= 0xE010) and cp not in (0xFFFF, 0x10000, 0x10FFFF, 0xFFFE):
                continue
            apply(acc, "agl", cp)
            n += 1
            nt += cp in agl.UV2AGL or 0xD7F0 <= cp <= 0xE010 or cp > 0xFFFF
        acc.bulk(n, nt, "agl", sample={"codec": "agl", "value": 0x017F, "name": agl.UV2AGL.get(0x017F)})
        if job["stride"] == 1:
            acc.extra["exhaustive_subdomains"] = {"agl-u/uni-names-all-scalars(shard)": n}
    else:
        raise HarnessError("unknown job kind %r" % k)
    return acc


def _tags_job(acc, job):
    chars = list(range(0x20, 0x7F))
    nonsp = list(range(0x21, 0x7F))
    seen_ident = {}
    seen_ident_ci = {}
    seen_xml = {}
    n = nt = 0

    def tags():
        if job["full"]:
            c0 = chr(job["first"])
            for c1 in chars:
                for c2 in chars:
                    for c3 in chars:
                        t = c0 + chr(c1) + chr(c2) + chr(c3)
                        if tag_domain_ok(t):
                            yield t
        else:
            sub = _tag_chars_quick()
            firsts = chars[job["shard"] :: job["nshards"]]
            for c0 in firsts:
                for c1 in chars:
                    for c2 in sub:
                        for c3 in sub:
                            t = chr(c0) + chr(c1) + chr(c2) + chr(c3)
                            if tag_domain_ok(t):
                                yield t

    from fontTools.ttLib.ttFont import tagToIdentifier, tagToXML

    for t in tags():
        n += 1
        special = not t.isalnum()
        nt += special
        ok1 = apply(acc, "tagident", t)
        ok2 = apply(acc, "tagxml", t)
        # injectivity within the shard (tags sharing a first character, or the quick subset)
        if ok1:
            ident = tagToIdentifier(t)
            if ident in seen_ident:
                acc.fail("tagident", "not-injective", "%r and %r -> %r" % (seen_ident[ident], t, ident), {"codec": "tagident", "value": t})
            seen_ident[ident] = t
            lo = ident.lower()
            if lo in seen_ident_ci and seen_ident_ci[lo] != t:
                acc.fail("tagident", "not-unique-caseless", "%r and %r -> %r" % (seen_ident_ci[lo], t, lo), {"codec": "tagident", "value": t})
            seen_ident_ci[lo] = t
        if ok2:
            x = tagToXML(t)
            if x in seen_xml:
                acc.fail("tagxml", "not-injective", "%r and %r -> %r" % (seen_xml[x], t, x), {"codec": "tagxml", "value": t})
            seen_xml[x] = t
    acc.bulk(n, nt, "tags:full" if job["full"] else "tags:structured-subset", sample={"codec": "tagxml", "value": "OS/2", "xml": tagToXML("OS/2"), "ident": tagToIdentifier("OS/2")})
    if job["full"]:
        acc.extra["exhaustive_subdomains"] = {"tags-first-%s" % chr(job["first"]): n}


def replay(case):
    acc = Acc()
    v = case["value"]
    if case["codec"] == "int":
        v = tuple(v)
    apply(acc, case["codec"], v)
    return acc.failures
