"""CFFFontSet.remove_hints() loses path operands that stand in front of a call to an empty subroutine inside another
subroutine. Glyph B = [1, 2, 'hstem', 10, 20, 'rmoveto', -107, 'callsubr', 5, 'rlineto', 'endchar'] with local subrs
0 = [30, -106, 'callsubr', 'return'] (pushes 30, calls the empty subr 1) and 1 = ['return'] draws the line (10,20)-(40,25).
_DehintingT2Decompiler.processSubr advances last_checked past the operand 30 without marking subr 0 as non-empty
(status stays 0), so the caller deletes the call to subr 0 together with its operand: the glyph becomes
[10, 20, 'rmoveto', 5, 'rlineto', 'endchar'] and drawing it raises IndexError (rlineto with one operand).
Expected: the outline is unchanged."""


def _build(charstrings, widths, private, lsubrs=()):
    """bytes of a small OpenType/CFF font; charstrings: name -> Type 2 program, lsubrs: local subroutine programs"""
    import io

    from fontTools.cffLib import SubrsIndex
    from fontTools.fontBuilder import FontBuilder
    from fontTools.misc.psCharStrings import T2CharString

    names = list(charstrings)
    fb = FontBuilder(1000, isTTF=False)
    fb.setupGlyphOrder(names)
    fb.setupCharacterMap({0x41 + i: n for i, n in enumerate(names) if i})
    fb.setupCFF("Witness", {"FullName": "Witness"}, {n: T2CharString(program=list(p)) for n, p in charstrings.items()}, dict(private))
    if lsubrs:
        subrs = SubrsIndex()
        for p in lsubrs:
            subrs.append(T2CharString(program=list(p)))
        fb.font["CFF "].cff.topDictIndex[0].Private.Subrs = subrs
    fb.setupHorizontalMetrics({n: (widths[n], 0) for n in names})
    fb.setupHorizontalHeader(ascent=800, descent=-200)
    fb.setupNameTable({"familyName": "Witness", "styleName": "Regular"})
    fb.setupOS2()
    fb.setupPost()
    buf = io.BytesIO()
    fb.font.save(buf)
    return buf.getvalue()


def reproduce():
    import io

    from fontTools.pens.recordingPen import RecordingPen
    from fontTools.ttLib import TTFont

    data = _build(
        {".notdef": [0, 0, "rmoveto", "endchar"], "B": [1, 2, "hstem", 10, 20, "rmoveto", -107, "callsubr", 5, "rlineto", "endchar"]},
        {".notdef": 500, "B": 500},
        dict(defaultWidthX=500, nominalWidthX=100),
        lsubrs=[[30, -106, "callsubr", "return"], ["return"]],
    )
    font = TTFont(io.BytesIO(data))
    before = RecordingPen()
    font.getGlyphSet()["B"].draw(before)
    expected = [("moveTo", ((10, 20),)), ("lineTo", ((40, 25),)), ("closePath", ())]  # hand-computed
    if before.value != expected:
        return None  # the input is not what this witness assumes

    font["CFF "].cff.remove_hints()
    cs = font["CFF "].cff.topDictIndex[0].CharStrings["B"]
    program = list(cs.program)
    after = RecordingPen()
    try:
        font.getGlyphSet()["B"].draw(after)
    except IndexError as e:
        return "after remove_hints glyph B is %r (operand 30 of the deleted subr call lost); drawing it raises IndexError(%s)" % (program, e)
    if after.value != expected:
        return "after remove_hints glyph B is %r and draws %r instead of %r" % (program, after.value, expected)
    return None
