"""Generated large GSUB/GPOS/GDEF tables for C06 and the reference that says how
they must shape.

A *spec* is a plain Python structure in glyph IDs (never glyph names, never
otTables objects) produced by `make_spec(family, seed, scale)`:

    dict(n=<glyph count>, table="GSUB"|"GPOS", tag=<feature tag>, fvalue=<feature value>,
         gdef={gid: glyph class}, ext0=<bool: lookups start as Extension lookups>,
         lookups=[dict(kind=<kind>, subtables=[<subtable spec>, ...]), ...])

subtable specs, by kind
    single     {"map": {g: o}}
    multiple   {"map": {g: [o, ...]}}
    alternate  {"map": {g: [o, ...]}}                  (feature value k picks alternate k, 1-based)
    ligature   {"ligs": [((c0, c1, ...), lig), ...]}    (insertion order = priority among equal lengths)
    pair1      {"pairs": {(a, b): (V1, V2)}, "vf1": fmt, "vf2": fmt}
    pair2      {"c1": [(gids...), ...], "c2": [(gids...), ...], "vals": {(i, j): (V1, V2)}, "vf1": fmt, "vf2": fmt}
    markbase   {"marks": {m: (cls, x, y)}, "bases": {b: {cls: (x, y)}}}
  a value V is (xPlacement, yPlacement, xAdvance) or None; fmt is the OpenType ValueFormat mask.

`build_layout(spec, font)` assembles the tables directly from otTables objects and
otlLib.builder *subtable* functions (no feaLib, no lookup builders), `reference(spec, run)`
interprets the spec the way the OpenType specification describes and reports HarfBuzz's
conventions (ltr, horizontal): list of (gid, x_advance, x_offset, y_offset).

Font shell: FontBuilder, N empty TrueType glyphs, advance of glyph i = 500 + (i % 7) * 10,
post format 3. Every lookup has LookupFlag 0; the only script is DFLT/dflt with one feature.
"""

import io
import random

# ---------------------------------------------------------------------------
# shell


def adv(gid):
    return 500 + (gid % 7) * 10


def shell_bytes(n):
    from fontTools.fontBuilder import FontBuilder
    from fontTools.ttLib.tables._g_l_y_f import Glyph

    fb = FontBuilder(1000, isTTF=True)
    names = ["g%d" % i for i in range(n)]
    fb.setupGlyphOrder(names)
    fb.setupCharacterMap({0x41: "g1"})
    fb.setupGlyf({nm: Glyph() for nm in names})
    fb.setupHorizontalMetrics({nm: (adv(i), 0) for i, nm in enumerate(names)})
    fb.setupHorizontalHeader(ascent=800, descent=-200)
    fb.setupNameTable({"familyName": "C06", "styleName": "Regular"})
    fb.setupOS2()
    fb.setupPost(keepGlyphNames=False)
    b = io.BytesIO()
    fb.font.save(b)
    return b.getvalue()


# ---------------------------------------------------------------------------
# building otTables from a spec

VF_XPLA, VF_YPLA, VF_XADV, VF_YADV = 1, 2, 4, 8


def _value(v, fmt):
    """(xPla, yPla, xAdv) -> otBase.ValueRecord holding exactly the fields of fmt."""
    from fontTools.ttLib.tables.otBase import ValueRecord

    if not fmt:
        return None
    r = ValueRecord()
    x, y, a = v if v is not None else (0, 0, 0)
    if fmt & VF_XPLA:
        r.XPlacement = x
    if fmt & VF_YPLA:
        r.YPlacement = y
    if fmt & VF_XADV:
        r.XAdvance = a
    if fmt & VF_YADV:
        r.YAdvance = 0
    return r


def _build_subtable(kind, st, names, glyph_map):
    from fontTools.otlLib import builder as B
    from fontTools.ttLib.tables import otTables as ot

    N = names
    if kind == "single":
        return B.buildSingleSubstSubtable({N[g]: N[o] for g, o in st["map"].items()})
    if kind == "multiple":
        return B.buildMultipleSubstSubtable({N[g]: [N[o] for o in out] for g, out in st["map"].items()})
    if kind == "alternate":
        return B.buildAlternateSubstSubtable({N[g]: [N[o] for o in out] for g, out in st["map"].items()})
    if kind == "ligature":
        m = {}
        for comps, lig in st["ligs"]:
            m[tuple(N[c] for c in comps)] = N[lig]
        return B.buildLigatureSubstSubtable(m)
    if kind == "pair1":
        vf1, vf2 = st["vf1"], st["vf2"]
        pairs = {(N[a], N[b]): (_value(v1, vf1), _value(v2, vf2)) for (a, b), (v1, v2) in st["pairs"].items()}
        return B.buildPairPosGlyphsSubtable(pairs, glyph_map, valueFormat1=vf1, valueFormat2=vf2)
    if kind == "pair2":
        vf1, vf2 = st["vf1"], st["vf2"]
        c1 = [tuple(N[g] for g in c) for c in st["c1"]]
        c2 = [tuple(N[g] for g in c) for c in st["c2"]]
        pairs = {(c1[i], c2[j]): (_value(v1, vf1), _value(v2, vf2)) for (i, j), (v1, v2) in st["vals"].items() if j is not None}
        sub = B.buildPairPosClassesSubtable(pairs, glyph_map, valueFormat1=vf1, valueFormat2=vf2)
        # shapes the builders never emit but the format allows (and other compilers write):
        # (a) values in the class-0 column (second glyph in none of the second classes)
        for (i, j), (v1, v2) in st["vals"].items():
            if j is None:
                row = sub.ClassDef1.classDefs.get(N[st["c1"][i][0]], 0)
                rec = sub.Class1Record[row].Class2Record[0]
                rec.Value1, rec.Value2 = _value(v1, vf1), _value(v2, vf2)
        # (c) first classes whose whole row is zero: covered glyphs for which this subtable ends the lookup without any
        #     adjustment (the usual way to write an exception that shields glyphs from a later subtable)
        have = {i for (i, j) in st["vals"]}
        for i, cls in enumerate(st["c1"]):
            if i in have:
                continue
            from fontTools.ttLib.tables import otTables as ot2

            rec = ot2.Class1Record()
            rec.Class2Record = []
            for _ in range(sub.Class2Count):
                r2 = ot2.Class2Record()
                r2.Value1, r2.Value2 = _value(None, vf1), _value(None, vf2)
                rec.Class2Record.append(r2)
            sub.Class1Record.append(rec)
            for g in cls:
                sub.ClassDef1.classDefs[N[g]] = sub.Class1Count
            sub.Class1Count += 1
            sub.Coverage.glyphs = sorted(set(sub.Coverage.glyphs) | {N[g] for g in cls}, key=glyph_map.__getitem__)
        # (b) a ClassDef1 that also classifies glyphs outside the Coverage (a class definition shared between subtables)
        for g, i in st.get("cd1_extra", []):
            row = sub.ClassDef1.classDefs.get(N[st["c1"][i][0]], 0)
            if row:
                sub.ClassDef1.classDefs[N[g]] = row
        return sub
    if kind == "markbase":
        marks = {N[m]: (c, B.buildAnchor(x, y)) for m, (c, x, y) in st["marks"].items()}
        bases = {N[b]: {c: B.buildAnchor(x, y) for c, (x, y) in d.items()} for b, d in st["bases"].items()}
        return B.buildMarkBasePosSubtable(marks, bases, glyph_map)
    raise ValueError(kind)


def build_layout(spec, font):
    """Attach GSUB or GPOS (and GDEF when the spec has glyph classes) to `font`."""
    from fontTools.otlLib import builder as B
    from fontTools.ttLib import newTable
    from fontTools.ttLib.tables import otTables as ot

    names = font.getGlyphOrder()
    assert len(names) == spec["n"], (len(names), spec["n"])
    glyph_map = font.getReverseGlyphMap()
    tag = spec["table"]
    lookups = []
    for lk in spec["lookups"]:
        sts = [_build_subtable(lk["kind"], st, names, glyph_map) for st in lk["subtables"]]
        lookups.append(B.buildLookup(sts, flags=0, table=tag, extension=bool(spec.get("ext0"))))
    table = getattr(ot, tag)()
    table.Version = 0x00010000
    table.ScriptList = ot.ScriptList()
    srec = ot.ScriptRecord()
    srec.ScriptTag = "DFLT"
    srec.Script = ot.Script()
    srec.Script.DefaultLangSys = ot.DefaultLangSys()
    srec.Script.DefaultLangSys.ReqFeatureIndex = 0xFFFF
    srec.Script.DefaultLangSys.FeatureIndex = [0]
    srec.Script.DefaultLangSys.FeatureCount = 1
    srec.Script.DefaultLangSys.LookupOrder = None
    srec.Script.LangSysRecord = []
    srec.Script.LangSysCount = 0
    table.ScriptList.ScriptRecord = [srec]
    table.ScriptList.ScriptCount = 1
    table.FeatureList = ot.FeatureList()
    frec = ot.FeatureRecord()
    frec.FeatureTag = spec["tag"]
    frec.Feature = ot.Feature()
    frec.Feature.FeatureParams = None
    frec.Feature.LookupListIndex = list(range(len(lookups)))
    frec.Feature.LookupCount = len(lookups)
    table.FeatureList.FeatureRecord = [frec]
    table.FeatureList.FeatureCount = 1
    table.LookupList = ot.LookupList()
    table.LookupList.Lookup = lookups
    table.LookupList.LookupCount = len(lookups)
    font[tag] = newTable(tag)
    font[tag].table = table
    if spec.get("gdef"):
        gdef = ot.GDEF()
        gdef.Version = 0x00010000
        gdef.GlyphClassDef = ot.GlyphClassDef()
        gdef.GlyphClassDef.classDefs = {names[g]: c for g, c in spec["gdef"].items()}
        gdef.AttachList = None
        gdef.LigCaretList = None
        gdef.MarkAttachClassDef = None
        font["GDEF"] = newTable("GDEF")
        font["GDEF"].table = gdef
    return font


def structure(table):
    """[(lookup type after unwrapping Extension, is extension, subtable count)] of a decompiled GSUB/GPOS."""
    out = []
    ext = 7 if table.__class__.__name__ == "GSUB" else 9
    for lk in table.LookupList.Lookup:
        t = lk.LookupType
        is_ext = t == ext
        if is_ext and lk.SubTable:
            t = lk.SubTable[0].ExtSubTable.LookupType
        out.append((t, is_ext, len(lk.SubTable)))
    return out


def spec_structure(spec):
    LT = {"single": 1, "multiple": 2, "alternate": 3, "ligature": 4, "pair1": 2, "pair2": 2, "markbase": 4}
    return [(LT[lk["kind"]], bool(spec.get("ext0")), len(lk["subtables"])) for lk in spec["lookups"]]


# ---------------------------------------------------------------------------
# reference interpreter (OpenType lookup processing, LookupFlag 0, ltr horizontal)


class _Index:
    """Per-spec lookup acceleration; built once, holds only spec data."""

    def __init__(self, spec):
        self.spec = spec
        self.marks = {g for g, c in spec.get("gdef", {}).items() if c == 3}
        self.lookups = []
        for lk in spec["lookups"]:
            k = lk["kind"]
            sts = []
            for st in lk["subtables"]:
                if k == "ligature":
                    by_first = {}
                    # stored order: longest first, insertion order among equal lengths
                    for comps, lig in sorted(st["ligs"], key=lambda cl: -len(cl[0])):
                        by_first.setdefault(comps[0], []).append((tuple(comps[1:]), lig))
                    sts.append(by_first)
                elif k == "pair1":
                    firsts = {a for a, b in st["pairs"]}
                    sts.append((firsts, st["pairs"], st["vf2"]))
                elif k == "pair2":
                    k1 = {g: i for i, c in enumerate(st["c1"]) for g in c}
                    k2 = {g: j for j, c in enumerate(st["c2"]) for g in c}
                    sts.append((k1, k2, st["vals"], st["vf2"]))
                elif k == "markbase":
                    sts.append((st["marks"], st["bases"]))
                else:
                    sts.append(st["map"])
            self.lookups.append((k, sts))


def index(spec):
    return _Index(spec)


def reference(ix, run, fvalue=None):
    """Expected HarfBuzz result for the glyph-ID run: [(gid, x_advance, x_offset, y_offset)]."""
    spec = ix.spec
    k = spec.get("fvalue", 1) if fvalue is None else fvalue
    g = list(run)
    if spec["table"] == "GSUB" and k:
        for kind, sts in ix.lookups:
            i = 0
            while i < len(g):
                cur = g[i]
                step = 1
                if kind == "single":
                    for m in sts:
                        if cur in m:
                            g[i] = m[cur]
                            break
                elif kind == "multiple":
                    for m in sts:
                        if cur in m:
                            out = m[cur]
                            g[i : i + 1] = out
                            step = len(out)
                            break
                elif kind == "alternate":
                    for m in sts:
                        if cur in m and 1 <= k <= len(m[cur]):
                            g[i] = m[cur][k - 1]
                            break
                elif kind == "ligature":
                    done = False
                    for by_first in sts:
                        for rest, lig in by_first.get(cur, ()):
                            if tuple(g[i + 1 : i + 1 + len(rest)]) == rest:
                                g[i : i + 1 + len(rest)] = [lig]
                                done = True
                                break
                        if done:
                            break
                i += step
    n = len(g)
    xa = [adv(x) for x in g]
    xo = [0] * n
    yo = [0] * n
    attach = {}  # mark index -> (base index, dx, dy)
    if spec["table"] == "GPOS" and k:
        for kind, sts in ix.lookups:
            i = 0
            while i < n:
                nxt = i + 1
                if kind in ("pair1", "pair2") and i + 1 < n:
                    a, b = g[i], g[i + 1]
                    for st in sts:
                        if kind == "pair1":
                            firsts, pairs, vf2 = st
                            if a not in firsts:
                                continue
                            v = pairs.get((a, b))
                            if v is None:
                                continue  # pair not in the PairSet: the next subtable gets a chance
                        else:
                            k1, k2, vals, vf2 = st
                            if a not in k1:
                                continue
                            # a covered first glyph always ends the search: a second glyph of class 0 or an empty
                            # class pair selects an all-zero record, which HarfBuzz applies like any other
                            v = vals.get((k1[a], k2.get(b)), (None, None))
                        v1, v2 = v
                        if v1:
                            xo[i] += v1[0]
                            yo[i] += v1[1]
                            xa[i] += v1[2]
                        if v2 and vf2:
                            xo[i + 1] += v2[0]
                            yo[i + 1] += v2[1]
                            xa[i + 1] += v2[2]
                        nxt = i + 2 if vf2 else i + 1
                        break
                elif kind == "markbase":
                    m = g[i]
                    for marks, bases in sts:
                        if m not in marks:
                            continue
                        j = i - 1
                        while j >= 0 and g[j] in ix.marks:
                            j -= 1
                        if j < 0:
                            break  # no base glyph in front: no subtable can apply
                        if g[j] not in bases:
                            continue
                        cls, mx, my = marks[m]
                        anchor = bases[g[j]].get(cls)
                        if anchor is None:
                            continue
                        attach[i] = (j, anchor[0] - mx, anchor[1] - my)
                        break
                i = nxt
    # GDEF mark glyphs get zero advance (after GPOS), then attachment offsets are resolved
    for i in range(n):
        if g[i] in ix.marks:
            xa[i] = 0
    for i in sorted(attach):
        j, dx, dy = attach[i]
        xo[i] = xo[j] + dx - sum(xa[j:i])
        yo[i] = yo[j] + dy
    return [(g[i], xa[i], xo[i], yo[i]) for i in range(n)]


# ---------------------------------------------------------------------------
# spec generators. `scale` in (0, 1]: 1 = sizes that overflow 16-bit offsets; small values give
# tiny tables used to calibrate the reference against HarfBuzz without any overflow handling.

FAMILIES = [
    "kern_pairs",
    "kern_classes",
    "kern_classes_compact",
    "markbase",
    "ligature",
    "multiple",
    "alternate",
    "single",
    "manylookups_gsub",
    "manylookups_gpos",
    "unsplittable_ligset",
    "unsplittable_single",
    "unsplittable_markclass",
]

UNSPLITTABLE = {"unsplittable_ligset", "unsplittable_single", "unsplittable_markclass"}


def _sc(rnd, lo, hi, scale, floor=2):
    return max(floor, int(rnd.randint(lo, hi) * scale))


def _val(rnd, fmt):
    if not fmt:
        return None
    v = lambda: rnd.choice([-1, 1]) * rnd.randint(1, 300)
    return (v() if fmt & VF_XPLA else 0, v() if fmt & VF_YPLA else 0, v() if fmt & VF_XADV else 0)


def _partition(rnd, glyphs, k):
    """k non-empty disjoint groups out of `glyphs` (a prefix of the shuffled list is used)."""
    glyphs = list(glyphs)
    rnd.shuffle(glyphs)
    k = max(1, min(k, len(glyphs)))
    groups = [[glyphs[i]] for i in range(k)]
    for x in glyphs[k:]:
        if rnd.random() < 0.6:
            groups[rnd.randrange(k)].append(x)
    return [tuple(sorted(c)) for c in groups]


def make_spec(family, seed, scale=1.0):
    rnd = random.Random(seed)
    S = scale
    spec = dict(family=family, fvalue=1, gdef={}, ext0=(rnd.random() < 0.2))
    if family == "kern_pairs":
        n = _sc(rnd, 800, 3200, S, 30)
        npairs = _sc(rnd, 20000, 45000, S, 20)
        nsub = rnd.choice([1, 1, 2, 3])
        glyphs = list(range(1, n))
        firsts = rnd.sample(glyphs, max(2, min(len(glyphs), int(len(glyphs) * rnd.uniform(0.2, 0.9)))))
        sts = []
        for s in range(nsub):
            vf1 = rnd.choice([VF_XADV, VF_XADV, VF_XADV | VF_XPLA, VF_XADV | VF_XPLA | VF_YPLA])
            vf2 = rnd.choice([0, 0, 0, VF_XPLA, VF_XADV | VF_YPLA])
            pairs = {}
            want = npairs // nsub
            while len(pairs) < want:
                a = rnd.choice(firsts)
                b = rnd.choice(glyphs)
                if (a, b) not in pairs:
                    pairs[(a, b)] = (_val(rnd, vf1), _val(rnd, vf2))
                if len(pairs) >= len(firsts) * len(glyphs):
                    break
            sts.append(dict(pairs=pairs, vf1=vf1, vf2=vf2))
        spec.update(n=n, table="GPOS", tag="kern", lookups=[dict(kind="pair1", subtables=sts)])
    elif family in ("kern_classes", "kern_classes_compact"):
        compact = family.endswith("compact")
        n = _sc(rnd, 1500, 5000, S, 40)
        glyphs = list(range(1, n))
        nsub = rnd.choice([1, 1, 2])
        sts = []
        for s in range(nsub):
            if compact:
                # few rows (the clustering of otlLib.optimize is cubic in the row count), wide value records
                r = _sc(rnd, 50, 100, S, 3)
                c = _sc(rnd, 150, 300, S, 3)
                vf1 = rnd.choice([VF_XADV | VF_XPLA | VF_YPLA, VF_XADV | VF_XPLA, VF_XADV | VF_XPLA | VF_YPLA | VF_YADV])
                vf2 = rnd.choice([0, VF_XPLA, VF_XPLA | VF_XADV | VF_YPLA])
            else:
                r = _sc(rnd, 200, 420, S, 3)
                c = _sc(rnd, 180, 320, S, 3)
                vf1 = rnd.choice([VF_XADV, VF_XADV, VF_XADV | VF_XPLA])
                vf2 = rnd.choice([0, 0, VF_XPLA])
            if S >= 1:  # the class records alone exceed 64 kB
                rec = 2 * (bin(vf1).count("1") + bin(vf2).count("1"))
                c = max(c, -(-70000 // (r * rec)))
            c1 = _partition(rnd, rnd.sample(glyphs, min(len(glyphs), r * rnd.randint(1, 4))), r)
            c2 = _partition(rnd, rnd.sample(glyphs, min(len(glyphs), c * rnd.randint(1, 4))), c)
            if s > 0 and sts[0].get("zero_rows"):
                # the glyphs the first subtable shields with all-zero rows do have kerning in this one
                here = {g for cl in c1 for g in cl}
                for zi in sts[0]["zero_rows"]:
                    for g in sts[0]["c1"][zi]:
                        if g not in here:
                            at = rnd.randrange(len(c1))
                            c1[at] = tuple(sorted(c1[at] + (g,)))
            dens = rnd.choice([0.03, 0.1, 0.3, 0.6])
            vals = {}
            # block structure makes compaction find clusters: rows are grouped, each group uses a band of columns
            ngroups = rnd.randint(1, 6)
            for i in range(len(c1)):
                grp = i % ngroups
                lo = (len(c2) * grp) // ngroups
                hi = max(lo + 1, (len(c2) * (grp + 1)) // ngroups)
                for j in range(len(c2)):
                    p = dens if lo <= j < hi else dens * 0.02
                    if rnd.random() < p:
                        vals[(i, j)] = (_val(rnd, vf1), _val(rnd, vf2))
            # every row and every column carries at least one value (a class without any value would not survive
            # as a class in any serialisation that drops zero records; we want the spec minimal)
            for i in range(len(c1)):
                if not any((i, j) in vals for j in range(len(c2))):
                    vals[(i, rnd.randrange(len(c2)))] = (_val(rnd, vf1), _val(rnd, vf2))
            for j in range(len(c2)):
                if not any((i, j) in vals for i in range(len(c1))):
                    vals[(rnd.randrange(len(c1)), j)] = (_val(rnd, vf1), _val(rnd, vf2))
            if vf2:
                # cells that adjust the second glyph only (first value record all zero)
                for key in sorted(vals, key=repr):
                    if rnd.random() < 0.15:
                        vals[key] = ((0, 0, 0), vals[key][1])
            st = dict(c1=c1, c2=c2, vals=vals, vf1=vf1, vf2=vf2)
            shape = rnd.random()
            if nsub > 1 and s == 0 and rnd.random() < 0.5:
                # all-zero rows in the first subtable, over glyphs the next subtable would kern
                used1 = {g for c in c1 for g in c}
                free = [g for g in glyphs if g not in used1]
                k0 = rnd.randint(1, 3)
                if len(free) >= 2 * k0:
                    st["zero_rows"] = []
                    for z in range(k0):
                        c1.append(tuple(sorted(rnd.sample(free, 2))))
                        free = [g for g in free if g not in c1[-1]]
                        st["zero_rows"].append(len(c1) - 1)
            if shape < 0.35:
                # class-0 column: key (row, None)
                for i in range(len(c1)):
                    if rnd.random() < 0.3 and i not in st.get("zero_rows", ()):
                        vals[(i, None)] = (_val(rnd, vf1), _val(rnd, vf2))
            if 0.2 < shape < 0.6:
                used1 = {g for c in c1 for g in c}
                free = [g for g in glyphs if g not in used1]
                st["cd1_extra"] = [[g, rnd.randrange(len(c1))] for g in rnd.sample(free, min(len(free), rnd.randint(1, 12)))]
            sts.append(st)
        spec.update(n=n, table="GPOS", tag="kern", lookups=[dict(kind="pair2", subtables=sts)])
    elif family == "markbase":
        n = _sc(rnd, 2500, 6000, S, 40)
        nm = _sc(rnd, 200, 1500, S, 6)
        nb = _sc(rnd, 300, 1200, S, 6)
        ncls = _sc(rnd, 12, 60, max(S, 0.1), 2)
        if S >= 1:  # BaseArray (offsets + anchors) exceeds 64 kB even with 40% NULL anchors
            nb = max(nb, -(-14000 // ncls))
        ids = list(range(1, n))
        rnd.shuffle(ids)
        markg = ids[:nm]
        baseg = ids[nm : nm + nb]
        nsub = rnd.choice([1, 1, 2])
        sts = []
        for s in range(nsub):
            k = ncls if s == 0 else max(2, ncls // 2)
            ms = markg if nsub == 1 else rnd.sample(markg, max(k, int(len(markg) * 0.7)))
            marks = {}
            for idx, m in enumerate(ms):
                c = idx if idx < k else rnd.randrange(k)  # every class is used
                marks[m] = (c, rnd.randint(-400, 400), rnd.randint(-400, 900))
            bases = {}
            null_rate = rnd.choice([0.0, 0.1, 0.4])
            for b in baseg if s == 0 else rnd.sample(baseg, max(2, len(baseg) // 2)):
                d = {}
                for c in range(k):
                    if rnd.random() >= null_rate:
                        d[c] = (rnd.randint(-200, 900), rnd.randint(-400, 1200))
                if not d:
                    d[0] = (rnd.randint(-200, 900), rnd.randint(-400, 1200))
                bases[b] = d
            sts.append(dict(marks=marks, bases=bases))
        gdef = {m: 3 for m in markg}
        gdef.update({b: 1 for b in baseg})
        spec.update(n=n, table="GPOS", tag="mark", gdef=gdef, lookups=[dict(kind="markbase", subtables=sts)])
    elif family == "ligature":
        n = _sc(rnd, 3000, 9000, S, 60)
        nsets = _sc(rnd, 1500, 4000, S, 4)
        glyphs = list(range(1, n))
        comp_pool = rnd.sample(glyphs, max(6, min(len(glyphs), _sc(rnd, 40, 400, max(S, 0.2), 6))))
        firsts = rnd.sample(glyphs, min(len(glyphs), nsets))
        nsub = rnd.choice([1, 1, 2])
        sts = [dict(ligs=[]) for _ in range(nsub)]
        for f in firsts:
            st = rnd.choice(sts)
            seen = set()
            for _ in range(rnd.randint(1, 12)):
                L = rnd.choice([2, 2, 3, 3, 4, 5])
                comps = (f,) + tuple(rnd.choice(comp_pool) for _ in range(L - 1))
                if comps in seen:
                    continue
                seen.add(comps)
                st["ligs"].append((comps, rnd.choice(glyphs)))
        sts = [st for st in sts if st["ligs"]]
        spec.update(n=n, table="GSUB", tag="liga", lookups=[dict(kind="ligature", subtables=sts)])
    elif family in ("multiple", "alternate"):
        n = _sc(rnd, 20000, 60000, S, 40)
        cnt = _sc(rnd, 9000, 20000, S, 5)
        glyphs = list(range(1, n))
        src = rnd.sample(glyphs, min(len(glyphs), cnt))
        nsub = rnd.choice([1, 1, 2])
        sts = [dict(map={}) for _ in range(nsub)]
        # dups: some glyphs get identical output lists (identical Sequence/AlternateSet tables are shared by the
        # writer). Without dups every list is unique.
        dups = rnd.random() < 0.5
        spec["dups"] = dups
        seen = set()
        common = [[rnd.choice(glyphs) for _ in range(rnd.randint(1, 3))] for _ in range(5)]
        for g in src:
            ln = rnd.randint(2, 5) if family == "multiple" else rnd.randint(1, 5)
            if dups and rnd.random() < 0.02:
                out = list(rnd.choice(common))
                if family == "multiple" and len(out) < 2:
                    out = out + out
            else:
                while True:
                    out = [rnd.choice(glyphs) for _ in range(ln)]
                    if tuple(out) not in seen:
                        break
                seen.add(tuple(out))
            rnd.choice(sts)["map"][g] = out
        sts = [st for st in sts if st["map"]]
        spec.update(n=n, table="GSUB", tag="ccmp" if family == "multiple" else "aalt", lookups=[dict(kind=family, subtables=sts)])
        if family == "alternate":
            spec["fvalue"] = rnd.choice([1, 2, 3])
    elif family == "single":
        n = _sc(rnd, 30000, 60000, S, 40)
        glyphs = list(range(1, n))
        nsub = rnd.randint(3, 6)
        src = rnd.sample(glyphs, min(len(glyphs), _sc(rnd, 40000, 58000, S, 6)))
        sts = []
        per = max(1, len(src) // nsub)
        for s in range(nsub):
            chunk = src[s * per : (s + 1) * per]
            if rnd.random() < 0.25:  # constant delta: SingleSubst format 1
                d = rnd.randint(1, 50)
                m = {g: (g + d) % n for g in chunk}
            else:
                m = {g: rnd.choice(glyphs) for g in chunk}
            if m:
                sts.append(dict(map=m))
        spec.update(n=n, table="GSUB", tag="ss01", lookups=[dict(kind="single", subtables=sts)])
    elif family == "manylookups_gsub":
        n = _sc(rnd, 20000, 60000, S, 200)
        nl = _sc(rnd, 220, 600, S, 3)
        per = max(2, min(_sc(rnd, 80, 260, S, 2), (n - 1) // nl))
        lookups = []
        for l in range(nl):
            lo = 1 + l * per
            dom = list(range(lo, lo + per))
            # substitutes may fall into the domain of a later lookup: lookups chain
            m = {g: rnd.randint(1, n - 1) for g in dom if rnd.random() < 0.9}
            if not m:
                m = {dom[0]: 1}
            lookups.append(dict(kind="single", subtables=[dict(map=m)]))
        spec.update(n=n, table="GSUB", tag="ss02", lookups=lookups)
    elif family == "manylookups_gpos":
        n = _sc(rnd, 1500, 4000, S, 60)
        nl = _sc(rnd, 250, 400, S, 3)
        glyphs = list(range(1, n))
        lookups = []
        for l in range(nl):
            pairs = {}
            fs = rnd.sample(glyphs, min(len(glyphs), rnd.randint(3, 12)))
            for _ in range(_sc(rnd, 90, 170, S, 3)):
                pairs[(rnd.choice(fs), rnd.choice(glyphs))] = ((0, 0, rnd.choice([-1, 1]) * rnd.randint(1, 90)), None)
            lookups.append(dict(kind="pair1", subtables=[dict(pairs=pairs, vf1=VF_XADV, vf2=0)]))
        spec.update(n=n, table="GPOS", tag="kern", lookups=lookups)
    elif family == "unsplittable_ligset":
        # one LigatureSet whose Ligature tables need more than 64 kB: the LigatureSet->Ligature offsets cannot be 16-bit
        n = _sc(rnd, 12000, 20000, S, 60)
        glyphs = list(range(2, n))
        first = 1
        cnt = _sc(rnd, 8300, 9500, S, 5)
        ligs = []
        seen = set()
        while len(ligs) < cnt:
            comps = (first, rnd.choice(glyphs), rnd.choice(glyphs))
            if comps not in seen:
                seen.add(comps)
                ligs.append((comps, rnd.choice(glyphs)))
        spec.update(n=n, table="GSUB", tag="liga", ext0=False, lookups=[dict(kind="ligature", subtables=[dict(ligs=ligs)])])
    elif family == "unsplittable_single":
        # SingleSubst format 2 with > 32765 scattered glyphs: the Coverage cannot be reached by a 16-bit offset
        n = max(40, int(65000 * S))
        cnt = _sc(rnd, 32770, 32790, S, 5)
        glyphs = list(range(1, n))
        src = sorted(rnd.sample(glyphs, min(len(glyphs) // 2, cnt)))
        m = {g: rnd.choice(glyphs) for g in src}
        spec.update(n=n, table="GSUB", tag="ss03", ext0=False, lookups=[dict(kind="single", subtables=[dict(map=m)])])
    elif family == "unsplittable_markclass":
        # a single mark class with > 16383 marks with distinct anchors: MarkArray->MarkAnchor offsets cannot be 16-bit
        n = _sc(rnd, 40000, 50000, S, 60)
        ids = list(range(1, n))
        rnd.shuffle(ids)
        nm = _sc(rnd, 16500, 17500, S, 6)
        markg, baseg = ids[:nm], ids[nm : nm + max(3, int(20 * S))]
        two = rnd.random() < 0.5
        marks = {}
        for idx, m in enumerate(markg):
            c = 1 if (two and idx < 5) else 0
            marks[m] = (c, idx - 9000, (idx * 7) % 2000 - 500)  # all anchors distinct
        bases = {b: {c: (rnd.randint(0, 800), rnd.randint(0, 900)) for c in range(2 if two else 1)} for b in baseg}
        gdef = {m: 3 for m in markg}
        gdef.update({b: 1 for b in baseg})
        spec.update(n=n, table="GPOS", tag="mark", gdef=gdef, ext0=False, lookups=[dict(kind="markbase", subtables=[dict(marks=marks, bases=bases)])])
    else:
        raise ValueError(family)
    return spec


# ---------------------------------------------------------------------------
# probe runs derived from the spec


def probes(spec, seed, n_spec=300, n_rand=150):
    """Glyph-ID runs: pairs / ligature sequences / mark-base pairs sampled from the spec (hits),
    near misses (one glyph changed), concatenations and random runs over the involved glyphs."""
    rnd = random.Random(seed)
    n = spec["n"]
    hits = []
    involved = set()
    for lk in spec["lookups"]:
        k = lk["kind"]
        for st in lk["subtables"]:
            if k in ("single", "multiple", "alternate"):
                keys = list(st["map"])
                involved.update(keys)
                hits += [[g] for g in rnd.sample(keys, min(len(keys), 40))]
            elif k == "ligature":
                ligs = st["ligs"]
                for comps, lig in rnd.sample(ligs, min(len(ligs), 60)):
                    hits.append(list(comps))
                    involved.update(comps)
            elif k == "pair1":
                ps = list(st["pairs"])
                for a, b in rnd.sample(ps, min(len(ps), 80)):
                    hits.append([a, b])
                    involved.update((a, b))
            elif k == "pair2":
                for _ in range(50):  # any class pair, mostly zero records
                    i = rnd.randrange(len(st["c1"]))
                    j = rnd.randrange(len(st["c2"]))
                    a, b = rnd.choice(st["c1"][i]), rnd.choice(st["c2"][j])
                    hits.append([a, b])
                    involved.update((a, b))
                vk = list(st["vals"])
                in2 = {g for c in st["c2"] for g in c}
                for i, j in rnd.sample(vk, min(len(vk), 90)):
                    a = rnd.choice(st["c1"][i])
                    if j is None:  # class-0 column: any second glyph outside the second classes
                        b = rnd.randrange(1, n)
                        while b in in2:
                            b = rnd.randrange(1, n)
                    else:
                        b = rnd.choice(st["c2"][j])
                    hits.append([a, b])
                    involved.update((a, b))
                for g, i in st.get("cd1_extra", []):
                    # a glyph the ClassDef1 classifies although the Coverage leaves it out: this subtable must not kern it
                    row = [j for (i2, j) in vk if i2 == i and j is not None]
                    if row:
                        hits.append([g, rnd.choice(st["c2"][rnd.choice(row)])])
                        involved.add(g)
            elif k == "markbase":
                ms, bs = list(st["marks"]), list(st["bases"])
                for _ in range(80):
                    b, m = rnd.choice(bs), rnd.choice(ms)
                    hits.append([b, m])
                    involved.update((b, m))
                    if rnd.random() < 0.3:
                        hits.append([b, m, rnd.choice(ms)])
                    if rnd.random() < 0.1:
                        hits.append([rnd.randrange(n), b, m])
    rnd.shuffle(hits)
    hits = hits[:n_spec]
    runs = [list(h) for h in hits]
    inv = sorted(involved)
    for h in hits[: n_spec // 3]:
        r = list(h)
        r[rnd.randrange(len(r))] = rnd.choice(inv) if rnd.random() < 0.7 else rnd.randrange(n)
        runs.append(r)
    for _ in range(n_spec // 6):
        if len(hits) >= 2:
            runs.append(rnd.choice(hits) + rnd.choice(hits))
    for _ in range(n_rand):
        L = rnd.randint(1, 6)
        runs.append([rnd.choice(inv) if (inv and rnd.random() < 0.85) else rnd.randrange(n) for _ in range(L)])
    return runs
