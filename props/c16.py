"""C16 — output is deterministic and saving does not disturb the font.

Part (a): pipeline jobs (vf/pipelines.py) are executed by a child program (vf/c16_child.py) in
several child processes that differ in PYTHONHASHSEED, cwd, locale, time zone, lazy mode and table
access order; the sha256 of every output must agree. One more child runs with another
SOURCE_DATE_EPOCH: only head.modified / checkSumAdjustment may change. Each child also saves every
output font twice (second save must be identical).

Part (b): a Hypothesis stateful machine over a font A and a twin B that receives only the edits
(vf/c16_history.py holds the history interpreter shared by the machine and by replay)."""

import json
import os
import random
import subprocess

from vf import pipelines
from vf.runner import Acc, HarnessError, VERIF, fingerprint, hyp_settings, scratch_dir, short, subseed

ID = "C16"
LEVEL = "exploration"
RULE = (
    "(a) pipeline jobs = {recompile, TTX import, feaLib compilation, subset, instancer, varLib.build, merge} x corpus inputs "
    "(seeded stratified sample in the quick tier, everything in thorough), each run by a child program in k child processes "
    "(quick k=3, thorough k=6) with PYTHONHASHSEED in {0, two/five seeded 32-bit values}, different cwd / LC_ALL (incl. an "
    "ASCII-only locale) / TZ, and per child a seeded lazy mode in {None, True, False} and a seeded permutation of the job's fixed "
    "set of tables to decompile before the operation; oracle: equal sha256 of the saved output in all children, a job raising "
    "in some children only is a failure (raising identically in all: excluded, counted); one extra child repeats child 1 with a "
    "different SOURCE_DATE_EPOCH: every table but head identical, head identical outside bytes 8-11 and 28-35, modified == "
    "epoch + 2082844800 whenever it moved, and no movement at all when the job says recalcTimestamp=False; every child saves its "
    "output font object twice: identical bytes. (b) Hypothesis RuleBasedStateMachine histories over a corpus font A (seeded choice "
    "of small TrueType / CFF / CFF2 / variable / layout-rich / colour fonts, opened from canonicalised bytes or imported from TTX): "
    "rules save(flavor, reorderTables), saveXML(options), getTableData, font[tag], ensureDecompiled, table.compile and five semantic "
    "edits; a twin B is rebuilt from the initial bytes plus the edit list only; oracle: save(A) == save(B) byte for byte, two "
    "consecutive saves of A identical, and at the end of the history the TTX dump of A equals the dump of a never-saved twin (same edits, "
    "same tables decompiled) after masking the fields compile() recalculates by design. non-trivial: (a) the job produced output in >= 3 children with >= 2 distinct hash seeds and "
    "the output has a layout / outline / variation table; (b) the history contains a save, dump or compile before the final "
    "comparison and such a table is loaded. distinct by (job, child variables) resp. by history"
)
ASSUMPTIONS = [
    "a table that the first save itself decompiles after having passed its raw bytes through (e.g. CFF2 read by head.compile for the bounding box) may be re-encoded "
    "by the next save; for such outputs the second and third save are compared instead (counted under excluded_by_construction)",
    "part (b) starts from canonicalised bytes (full decompile + save of the corpus font) so that decompiling a table is not by itself a change of the output; "
    "when save(A) differs from the edits-only twin but equals a twin that additionally has the same set of tables decompiled (no saves), the difference is attributed to "
    "documented loaded-table-dependent recalculation (hhea/maxp/head recalc only when glyf/CFF is loaded) and counted, not failed",
    "an operation that raises on A and raises the same exception type on a never-saved twin is outside the property (counted)",
    "object-model comparison masks what compile() documents it recalculates: head.checkSumAdjustment/modified/indexToLocFormat and bit 1 of head.flags (maxp.recalc), bounding boxes and extents of head/hhea/vhea/maxp/glyf/CFF, "
    "maxp statistics, numberOfHMetrics/numberOfVMetrics, OS/2 usFirstCharIndex/usLastCharIndex, post extraNames, and the computed fields (counts, struct lengths) that TTX prints as '<!-- XCount=n -->' comment lines "
    "(COLR.preWrite resets LayerRecordCount on the object by design); name.compile sorts the name records in place, so the twin's records are sorted before dumping",
    "exception identity across children is (type, innermost fontTools frame); messages may contain paths",
    "a pipeline that creates a new font (merge) may set head.created as well as head.modified from the clock, provided both equal SOURCE_DATE_EPOCH + 2082844800",
    "TTX-imported CFF2 fonts are exercised by part (a) only (second save of the import); part (b) opens CFF2 fonts from bytes",
]
WALL_BUDGET = {"quick": 1200, "thorough": 4 * 3600}

PY = "/venv/bin/python"
CHILD = os.path.join(VERIF, "vf", "c16_child.py")
EPOCH1 = 1700000000
EPOCH_DIFF = 2082844800  # seconds between 1904-01-01 and 1970-01-01

# ---------------------------------------------------------------------------
# part (a): children


def child_configs(seed, tier):
    """List of child configurations for one batch. cfg: hashseed, cwd, lc, tz, epoch, utf8 (bool),
    vars_from (index whose per-job variables are reused), epoch_pair (index) or None."""
    rnd = random.Random(seed)
    k = 6 if tier == "thorough" else 3
    cwds = ["@verif", "@scratch", "/", "@tests/feaLib/data", "@tests/varLib/data", "@scratch"]
    lcs = [("C.UTF-8", True), ("C", False), ("POSIX", True), ("C", False), ("C.UTF-8", True), ("C.UTF-8", True)]
    tzs = ["UTC", "Pacific/Kiritimati", "America/St_Johns", "XXX-13:45", "Asia/Kathmandu", "America/Los_Angeles"]
    order = [1, 2, 4, 5]
    rnd.shuffle(order)
    order.insert(rnd.randrange(0, 2), 3)  # one child always runs inside the feature-file directory with an ASCII-only locale
    cfgs = []
    for i in range(k):
        j = 0 if i == 0 else order[i - 1]
        cfgs.append(
            dict(
                hashseed=0 if i == 0 else rnd.randrange(1, 2**32),
                cwd=cwds[j],
                lc=lcs[j][0],
                utf8=lcs[j][1],
                tz=tzs[j],
                epoch=EPOCH1,
                vars_from=i,
                epoch_pair=None,
            )
        )
    e2 = 1500000000 + rnd.randrange(0, 10**8)
    cfgs.append(dict(cfgs[1], epoch=e2, vars_from=1, epoch_pair=1))
    return cfgs


def child_vars(pjob, idx, seed):
    """Per (job, child) variables: lazy mode and access order. Child 0 is the plain baseline."""
    if idx == 0:
        return dict(lazy=None, order_seed=None)
    rnd = random.Random(subseed(seed, "vars", pjob["name"], idx))
    return dict(lazy=rnd.choice([None, True, False]), order_seed=rnd.getrandbits(32))


def _env_for(cfg):
    env = {k: os.environ[k] for k in ("PATH", "HOME", "VERIF_REPO", "LD_LIBRARY_PATH") if k in os.environ}
    env.update(
        PYTHONHASHSEED=str(cfg["hashseed"]),
        SOURCE_DATE_EPOCH=str(cfg["epoch"]),
        LC_ALL=cfg["lc"],
        LANG=cfg["lc"],
        TZ=cfg["tz"],
        PYTHONDONTWRITEBYTECODE="1",
        OMP_NUM_THREADS="1",
        OPENBLAS_NUM_THREADS="1",
        FONTTOOLS_VERIF="1",
    )
    if not cfg["utf8"]:
        # a genuinely non-UTF-8 process: default text encoding is ASCII
        env.update(PYTHONUTF8="0", PYTHONCOERCECLOCALE="0")
    return env


def _cwd_for(cfg, scratch):
    from vf.runner import TESTS

    c = cfg["cwd"]
    if c == "@verif":
        return VERIF
    if c == "@scratch":
        return scratch
    if c.startswith("@tests/"):
        return os.path.join(TESTS, c[7:])
    return c


def run_children(pjobs, cfgs, vars_by_child, scratch):
    """-> list (per child) of {job name: record}. vars_by_child[i][name] = dict(lazy, order_seed)."""
    out = []
    for i, cfg in enumerate(cfgs):
        cdir = os.path.join(scratch, "c%d" % i)
        os.makedirs(cdir, exist_ok=True)
        jl = [dict(j, **vars_by_child[i][j["name"]]) for j in pjobs]
        jf = os.path.join(cdir, "jobs.json")
        with open(jf, "w") as fh:
            json.dump(jl, fh)
        try:
            r = subprocess.run([PY, CHILD, jf, cdir], env=_env_for(cfg), cwd=_cwd_for(cfg, cdir), capture_output=True, timeout=300 + 60 * len(jl))
        except subprocess.TimeoutExpired:
            out.append(None)
            continue
        recs = {}
        envrec = None
        for line in r.stdout.decode("utf-8", "replace").splitlines():
            if line.startswith("C16 "):
                d = json.loads(line[4:])
                if "env" in d:
                    envrec = d["env"]
                else:
                    recs[d["name"]] = d
        if r.returncode != 0 or envrec is None or len(recs) != len(jl):
            raise HarnessError("child %d failed (rc=%s, %d/%d records): %s" % (i, r.returncode, len(recs), len(jl), r.stderr.decode("utf-8", "replace")[-1500:]))
        if envrec["hashseed"] != str(cfg["hashseed"]) or envrec["epoch"] != str(cfg["epoch"]):
            raise HarnessError("child %d did not get its environment: %r" % (i, envrec))
        if not cfg["utf8"] and envrec["encoding"].lower().replace("-", "") in ("utf8",):
            recs["@note"] = "ascii-locale-not-effective"
        out.append(recs)
    return out


def _cfg_summary(cfg, v):
    return dict(hashseed=cfg["hashseed"], cwd=cfg["cwd"], lc=cfg["lc"], utf8=cfg["utf8"], tz=cfg["tz"], epoch=cfg["epoch"], lazy=v["lazy"], order_seed=v["order_seed"])


def _difftables(r1, t1, r2, t2):
    tags = sorted(set(t1) | set(t2))
    return [t for t in tags if t1.get(t) != t2.get(t)]


def _headfields(hexstr, mask_created=False):
    """-> (head with checkSumAdjustment [8:12] and modified [28:36] zeroed, modified, created)"""
    b = bytes.fromhex(hexstr)
    masked = b[:8] + b"\0" * 4 + b[12:28] + b"\0" * 8 + b[36:]
    if mask_created:
        masked = masked[:20] + b"\0" * 8 + masked[28:]
    return masked, int.from_bytes(b[28:36], "big"), int.from_bytes(b[20:28], "big")


def _first_tag(diff):
    rest = [t for t in diff if t != "head"]
    return (rest + ["head"])[0].strip() if diff else "?"


def _mk_case(pjob, cfgs, vars_by_child, idxs):
    """Replayable case restricted to the children idxs (re-indexed)."""
    sub = []
    remap = {old: new for new, old in enumerate(idxs)}
    for old in idxs:
        c = dict(cfgs[old])
        c["vars"] = vars_by_child[old][pjob["name"]]
        c["vars_from"] = remap[old]
        c["epoch_pair"] = remap.get(c["epoch_pair"]) if c["epoch_pair"] is not None else None
        sub.append(c)
    return dict(part="a", job={k: v for k, v in pjob.items() if k != "cost"}, cfgs=sub)


def check_second_save(pjob, rec, acc, case):
    """Within one child: consecutive saves of the output font object."""
    pipe = pjob["pipe"]
    if "exc2" in rec:
        acc.fail("second-save", "second-save-raises:%s" % rec["exc2"], "%s: first save ok, second save raised %s: %s" % (pjob["name"], rec["exc2"], rec.get("msg2", "")), case, rec.get("where2", ""))
        return False
    x, y = rec["sha"], rec.get("sha2")
    tx, ty = rec["tables"], rec.get("tables2", rec["tables"])
    hx, hy = rec.get("head"), rec.get("head2", rec.get("head"))
    sx, sy = rec.get("sizes", {}), rec.get("sizes2", {})
    loaded_by_save = rec.get("loaded_by_save") or []
    if x != y and loaded_by_save:
        # the first save decompiled tables it had already passed through raw (see ASSUMPTIONS):
        # tables already loaded before the first save must still be stable...
        diff = _difftables(None, tx, None, ty)
        # tables whose compile() recalculates from a table the save has just decompiled (bounding boxes, metrics
        # counts, offsets) follow it: head/hhea/vhea/maxp/loca/OS/2
        bad = [t for t in diff if t not in loaded_by_save and t not in ("head", "hhea", "vhea", "maxp", "loca", "OS/2")]
        if bad:
            acc.fail("second-save", "second-save-differs:%s" % _first_tag(bad), "%s: tables %s were decompiled before the first save and differ in the second save (tables loaded by the save itself: %s)" % (pjob["name"], bad, loaded_by_save), case)
            return False
        acc.exclude("second-save-compared-from-2nd:save-decompiled-a-passed-through-table")
        acc.label("a:save-loads:%s" % ",".join(t.strip() for t in loaded_by_save[:3]))
        # ... and from then on saves must be stable
        x, y = rec.get("sha2"), rec.get("sha3")
        tx, ty = rec.get("tables2", rec["tables"]), rec.get("tables3", rec.get("tables2", rec["tables"]))
        sx, sy = rec.get("sizes2", {}), rec.get("sizes3", {})
        if "exc3" in rec:
            acc.fail("second-save", "second-save-raises:%s" % rec["exc3"], "%s: third save raised %s" % (pjob["name"], rec.get("msg3", "")), case, rec.get("where3", ""))
            return False
    if x != y:
        diff = _difftables(None, tx, None, ty)
        tag = _first_tag(diff)
        full = [t for t in diff if t.strip() == tag] or diff
        t0 = full[0]
        d = ""
        if t0 in sx and t0 in sy:
            d = " %r: %d -> %d bytes (%+d)" % (t0, sx[t0], sy[t0], sy[t0] - sx[t0])
        acc.fail("second-save", "second-save-differs:%s" % tag, "%s: saving the %s output twice gives different bytes; tables differing: %s;%s" % (pjob["name"], pipe, diff, d), case)
        return False
    return True


def compare_job(pjob, cfgs, vars_by_child, recs, acc):
    """recs[i] = record of this job in child i (or None when the child timed out)."""
    name, pipe = pjob["name"], pjob["pipe"]
    n = len(cfgs)
    if any(r is None or r.get("timeout") for r in recs):
        acc.inconclusive += 1
        return
    for r in recs:
        if "harness" in r:
            raise HarnessError("child harness error in %s: %s" % (name, r["harness"]))
    main = [i for i in range(n) if cfgs[i]["epoch_pair"] is None]
    pairs = [(cfgs[i]["epoch_pair"], i) for i in range(n) if cfgs[i]["epoch_pair"] is not None]
    allcase = lambda idxs: _mk_case(pjob, cfgs, vars_by_child, idxs)
    labels = ["a:pipe:%s" % pipe]
    # -- exceptions
    excs = [(r.get("exc"), r.get("where")) if "exc" in r else None for r in recs]
    if any(e is not None for e in excs):
        if all(e == excs[0] for e in excs):
            acc.exclude("pipeline-raises-identically:%s:%s" % (pipe, excs[0][0]))
            acc.label("a:raises-identically:%s" % pipe)
            return
        i_ok = [i for i in range(n) if excs[i] is None]
        i_bad = [i for i in range(n) if excs[i] is not None]
        a, b = (i_ok or i_bad)[0], [i for i in i_bad if excs[i] != excs[(i_ok or i_bad)[0]]][0]
        acc.fail(
            "process-determinism",
            "raises-in-some-children:%s:%s" % (pipe, recs[b]["exc"]),
            "%s: %s in child %s but %s in child %s; message: %s" % (name, recs[b]["exc"], _cfg_summary(cfgs[b], vars_by_child[b][name]), "no exception" if excs[a] is None else excs[a][0], _cfg_summary(cfgs[a], vars_by_child[a][name]), recs[b].get("msg", "")),
            allcase(sorted({a, b})),
            recs[b].get("where", ""),
        )
        acc.case(("a", name, "exc"), nontrivial=False, labels=labels)
        return
    # -- identical output across the main group
    base = main[0]
    ok = True
    for i in main[1:]:
        if recs[i]["sha"] != recs[base]["sha"]:
            diff = _difftables(None, recs[base]["tables"], None, recs[i]["tables"])
            acc.fail(
                "process-determinism",
                "output-differs:%s" % pipe,
                "%s: sha256 %s.. vs %s..; tables differing: %s; child A %s; child B %s" % (name, recs[base]["sha"][:12], recs[i]["sha"][:12], diff, _cfg_summary(cfgs[base], vars_by_child[base][name]), _cfg_summary(cfgs[i], vars_by_child[i][name])),
                allcase([base, i]),
            )
            ok = False
            break
    # -- epoch pair
    for a, b in pairs:
        ra, rb = recs[a], recs[b]
        case = allcase([a, b])
        diff = _difftables(None, ra["tables"], None, rb["tables"])
        other = [t for t in diff if t != "head"]
        if other:
            acc.fail("epoch", "epoch-changes-table:%s" % _first_tag(other), "%s: SOURCE_DATE_EPOCH %d vs %d changes tables %s" % (name, cfgs[a]["epoch"], cfgs[b]["epoch"], other), case)
            ok = False
            continue
        if ra.get("head") is None:
            labels.append("a:no-head:%s" % pipe)
            continue
        ma, moda, cra = _headfields(ra["head"])
        mb, modb, crb = _headfields(rb["head"])
        if ma != mb and cra != crb and cra == cfgs[a]["epoch"] + EPOCH_DIFF and crb == cfgs[b]["epoch"] + EPOCH_DIFF:
            # a pipeline that creates a new font (merge) also sets head.created from the pinned clock
            labels.append("a:stamps-created:%s" % pipe)
            ma, mb = _headfields(ra["head"], True)[0], _headfields(rb["head"], True)[0]
        if ma != mb:
            acc.fail("epoch", "epoch-changes-head-field", "%s: head differs outside checkSumAdjustment/modified: %s vs %s" % (name, ra["head"], rb["head"]), case)
            ok = False
            continue
        stamped = moda != modb
        labels.append("a:%s:%s" % ("stamps-time" if stamped else "no-stamp", pipe))
        if stamped and (moda != cfgs[a]["epoch"] + EPOCH_DIFF or modb != cfgs[b]["epoch"] + EPOCH_DIFF):
            acc.fail("epoch", "modified-not-pinned", "%s: head.modified %d / %d, expected SOURCE_DATE_EPOCH + 2082844800 = %d / %d" % (name, moda, modb, cfgs[a]["epoch"] + EPOCH_DIFF, cfgs[b]["epoch"] + EPOCH_DIFF), case)
            ok = False
        want = _stamp_policy(pjob)
        if want is False and stamped:
            acc.fail("epoch", "stamped-despite-recalcTimestamp-false", "%s: recalcTimestamp is off but head.modified follows SOURCE_DATE_EPOCH (%d vs %d)" % (name, moda, modb), case)
            ok = False
        if want is True and not stamped:
            acc.fail("epoch", "not-stamped-despite-recalcTimestamp-true", "%s: recalcTimestamp is on but head.modified is %d under both epochs" % (name, moda), case)
            ok = False
        if want is not None:
            labels.append("a:recalcTimestamp=%s" % want)
    # -- second save (reported once per job, from the first child showing it)
    for i in range(n):
        if not check_second_save(pjob, recs[i], acc, allcase([i])):
            ok = False
            break
    seeds = {cfgs[i]["hashseed"] for i in main}
    tables = set(recs[base]["tables"])
    nontrivial = len(main) >= 3 and len(seeds) >= 2 and bool(tables & set(pipelines.LAYOUTISH))
    for i in main[1:]:
        v = vars_by_child[i][name]
        if pipe in ("recompile", "subset", "instance"):
            labels.append("a:lazy:%s" % v["lazy"])
    if pjob.get("touch") not in (None, []):
        labels.append("a:touch:%s" % ("all" if pjob["touch"] == "all" else "subset"))
    acc.case(("a", name, [(cfgs[i]["hashseed"], sorted(vars_by_child[i][name].items(), key=str)) for i in range(n)]), nontrivial=nontrivial, labels=labels, sample=dict(job=name, sha256=recs[base]["sha"], children=len(main)) if ok else None)


def _stamp_policy(pjob):
    """True/False when the job descriptor fixes recalcTimestamp, None when the pipeline decides."""
    if pjob["pipe"] in ("recompile", "ttx"):
        return bool(pjob.get("recalcTimestamp", True))
    if pjob["pipe"] == "subset":
        return bool(pipelines.SUBSET_OPTIONS[pjob["opts"]].get("recalc_timestamp", False))
    return None


def run_pipes(job, acc):
    cfgs = child_configs(job["seed"], job["tier"])
    pjobs = job["batch"]
    vars_by_child = []
    for i, cfg in enumerate(cfgs):
        vars_by_child.append({j["name"]: child_vars(j, cfg["vars_from"], job["seed"]) for j in pjobs})
    with scratch_dir("c16a") as d:
        res = run_children(pjobs, cfgs, vars_by_child, d)
    if any(r is not None and r.get("@note") for r in res):
        raise HarnessError("the ASCII-locale child ran with a UTF-8 default encoding")
    for j in pjobs:
        compare_job(j, cfgs, vars_by_child, [None if r is None else r[j["name"]] for r in res], acc)
    acc.label("a:children", len(cfgs))


def replay_pipes(case, acc):
    pjob = case["job"]
    cfgs = [dict(c) for c in case["cfgs"]]
    vars_by_child = [{pjob["name"]: c.pop("vars")} for c in cfgs]
    with scratch_dir("c16r") as d:
        res = run_children([pjob], cfgs, vars_by_child, d)
    compare_job(pjob, cfgs, vars_by_child, [None if r is None else r[pjob["name"]] for r in res], acc)


# ---------------------------------------------------------------------------
# jobs


def jobs(tier, seed):
    thorough = tier == "thorough"
    pj = pipelines.enumerate_jobs(tier, seed)
    nb = 64 if thorough else 24
    batches = [[] for _ in range(nb)]
    load = [0] * nb
    for j in sorted(pj, key=lambda j: (-j.get("cost", 0), j["name"])):
        i = load.index(min(load))
        batches[i].append(j)
        load[i] += j.get("cost", 0) + 30000
    J = []
    for i, b in enumerate(batches):
        if b:
            J.append(dict(kind="pipes", name="pipes-%02d" % i, batch=b, seed=subseed(seed, "pipes", i), tier=tier))
    from vf import c16_history

    fonts = c16_history.choose_fonts(seed, 24 if thorough else 16)
    total = 5000 if thorough else 304
    per = max(1, total // len(fonts))
    for i, (fid, src) in enumerate(fonts):
        J.append(dict(kind="machine", name="machine-%02d:%s:%s" % (i, src, fid), fid=fid, src=src, n=per, steps=16 if thorough else 12, seed=subseed(seed, "machine", i), tier=tier))
    # slow pipeline batches first
    return J


def run_job(job):
    acc = Acc()
    if job["kind"] == "pipes":
        run_pipes(job, acc)
    elif job["kind"] == "machine":
        from vf import c16_history

        c16_history.run_machine(job, acc)
    else:
        raise HarnessError("unknown job kind %r" % job["kind"])
    return acc


def replay(case):
    acc = Acc()
    if case.get("part") == "a":
        replay_pipes(case, acc)
    else:
        from vf import c16_history

        c16_history.replay_history(case, acc)
    return acc.failures


def shrink(f, key, tier, seed):
    """Histories: greedily drop steps while the same bucket still fails (at most 60 replays)."""
    from vf.runner import from_jsonable, to_jsonable

    case = from_jsonable(f["case"])
    if not isinstance(case, dict) or case.get("part") != "b":
        return None
    from vf import c16_history

    def fails(c):
        acc = Acc()
        try:
            c16_history.replay_history(c, acc)
        except Exception:
            return None
        for g in acc.failures:
            if "%s|%s|%s" % (g["clause"], g["kind"], g["where"]) == key:
                return g
        return None

    best, budget = None, 60
    steps = list(case["steps"])
    i = len(steps) - 1
    while i >= 0 and budget > 0:
        trial = dict(case, steps=steps[:i] + steps[i + 1 :])
        budget -= 1
        g = fails(trial)
        if g is not None:
            steps = trial["steps"]
            best = g
        i -= 1
    return best


def finish(total, tier, seed):
    need = ["a:pipe:%s" % p for p in pipelines.PIPES] + ["b:history", "b:op:save", "b:op:xml", "b:op:edit", "b:op:compile", "b:op:data", "b:checked-after-save-or-dump", "b:dump-compared", "a:stamps-time:recompile", "a:no-stamp:recompile"]
    missing = [l for l in need if total.labels.get(l, 0) == 0]
    if missing:
        raise HarnessError("generator classes with zero hits: %s" % missing)
