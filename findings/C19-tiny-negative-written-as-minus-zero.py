"""designspaceLib BaseDocWriter.intOrFloat: a negative number closer to zero than 5e-7 (e.g. an axis map output of -1e-7)
is written as "-0" ("%f" gives "-0.000000", the trailing zeros and the point are stripped, the sign stays). It is read
back as -0.0, for which intOrFloat takes the integer branch and writes "0": writing the re-read document gives a
different file (write -> read -> write is not a fixed point) and the text "-0" is not what the writer produces for any
value it has read. Expected: a value that rounds to zero at the writer's 6 decimals is written as "0"."""


def reproduce():
    from fontTools.designspaceLib import DesignSpaceDocument

    doc = DesignSpaceDocument()
    doc.addAxisDescriptor(name="Weight", tag="wght", minimum=100, default=400, maximum=900, map=[(100, -1e-7), (400, 50), (900, 100)])
    s1 = doc.tostring()
    s2 = DesignSpaceDocument.fromstring(s1).tostring()
    out = []
    if b'output="-0"' in s1:
        out.append("map output -1e-7 is written as output=\"-0\"")
    if s1 != s2:
        out.append("writing the re-read document gives different text (second write has %s)" % ("output=\"0\"" if b'output="0"' in s2 else "other differences"))
    return "; ".join(out) or None
