"""Generated complete fonts with table shapes the corpus under /repo/Tests lacks.

The corpus-driven checks (C01, C03, C04, C05, C07, C16, C17, ...) enumerate `corpus.fonts()`; this
module adds entries "gen:<seed>:<i>" to that list.  A spec is plain JSON-able data (it is stored in
replay files); build(spec) returns the bytes of a complete sfnt:

  base   "glyf" | "var"  -> vf.gen_varfont (simple + composite glyphs, optional fvar/gvar/avar)
         "cff"           -> vf.gen_t2.fonts (Type 2 programs over the whole operator grammar incl. flex,
                            hints, subroutines) wrapped in a CFF font
  dress  (through the library under test, as a font author would): extra cmap subtables (12 with
         supplementary code points, Macintosh 0 / 6, 14 with default and non-default UVS), post format 2/3,
         GSUB/GPOS/GDEF compiled from a small feature text (pairs, class pairs whose classes have equal
         size and interleaving names, ligature, single/alternate substitution, mark-to-base), vhea/vmtx (+VORG)
  raw    tables written HERE with struct from the OpenType specification and spliced into the file with the
         independent sfnt writer (vf.sfntref.build_sfnt), so their input bytes do not depend on the
         library: OS/2 versions 0-5 (v5 with optical sizes), kern v0 (several subtables), gasp, hdmx, LTSH,
         cvt/fpgm/prep, meta, DSIG (no signatures), EBLC+EBDT (index formats 1-5 x image formats
         1,2,5,6,7,8,9 x bit depths 1,2,4,8), sbix, SVG, CPAL+COLR v0.
"""

import io
import struct

from hypothesis import strategies as st

from . import gen_t2, gen_varfont, sfntref

# ---------------------------------------------------------------------------
# spec strategy


def _i(lo, hi):
    return st.integers(lo, hi)


@st.composite
def _os2(draw):
    v = draw(_i(0, 5))
    m = _i(-1200, 1200)
    u = _i(0, 1500)
    d = {
        "version": v,
        "xAvgCharWidth": draw(_i(0, 1200)),
        "usWeightClass": draw(st.sampled_from([1, 100, 250, 400, 700, 900, 1000])),
        "usWidthClass": draw(_i(1, 9)),
        "fsType": draw(st.sampled_from([0, 2, 4, 8, 0x100, 0x200, 0x30C])),
        "sub": [draw(m) for _ in range(8)],
        "strike": [draw(_i(1, 200)), draw(m)],
        "sFamilyClass": draw(st.sampled_from([0, 0x0100, 0x0805, -1 & 0x7FFF])),
        "panose": [draw(_i(0, 15)) for _ in range(10)],
        "ur": [draw(st.sampled_from([0, 1, 0x80000000, 0xFFFFFFFF, 0x12345678])) for _ in range(4)],
        "vend": draw(st.sampled_from(["NONE", "ADBE", "a b ", "XX\x20\x20", "1234"])),
        "fsSelection": draw(st.sampled_from([0x40, 0x01, 0x20, 0x21, 0xC0, 0x140, 0x80, 0x280])),
        "typo": [draw(_i(0, 1200)), draw(_i(-600, 0)), draw(_i(0, 400))],
        "win": [draw(u), draw(u)],
        "cpr": [draw(st.sampled_from([0, 1, 0x20000000, 0xFFFFFFFF])) for _ in range(2)],
        "xcap": [draw(_i(0, 1000)), draw(_i(0, 1000))],
        "defbreak": [draw(st.sampled_from([0, 0x20, 0xFFFF])), draw(st.sampled_from([0x20, 0, 0x3000]))],
        "maxctx": draw(_i(0, 5)),
        # optical sizes in TWIPs (1/20 pt): non-zero, not multiples of 20 too
        "opsz": sorted([draw(st.sampled_from([0, 1, 19, 20, 160, 161, 1440, 0xFFFE])), draw(st.sampled_from([1, 20, 240, 1441, 0xFFFE, 0xFFFF]))]),
    }
    return d


@st.composite
def _kern(draw, ng):
    g = _i(0, ng - 1)
    subs = []
    for _ in range(draw(st.sampled_from([1, 1, 2, 3]))):
        pairs = draw(st.dictionaries(st.tuples(g, g), st.one_of(_i(-200, 200), st.sampled_from([-2000, 1999, -1])), min_size=0, max_size=8))
        subs.append({"coverage": draw(st.sampled_from([1, 1, 3, 5, 9])), "pairs": [[l, r, v] for (l, r), v in sorted(pairs.items())]})
    return subs


@st.composite
def _bitmap_glyph(draw, gid, bd, w=None, h=None, others=()):
    w = w or draw(_i(1, 13))
    h = h or draw(_i(1, 9))
    mx = (1 << bd) - 1
    mode = draw(st.sampled_from(["rand", "rand", "full", "last-col", "checker"]))
    pix = []
    for y in range(h):
        row = []
        for x in range(w):
            if mode == "rand":
                row.append(draw(_i(0, mx)))
            elif mode == "full":
                row.append(mx)
            elif mode == "last-col":
                row.append(mx if (x == w - 1 or y == h - 1) else 0)
            else:
                row.append(mx if (x + y) % 2 else 0)
        pix.append(row)
    return {"gid": gid, "w": w, "h": h, "bx": draw(_i(-3, 3)), "by": draw(_i(-2, 12)), "adv": draw(_i(0, 20)), "vbx": draw(_i(-5, 5)), "vby": draw(_i(-5, 5)), "vadv": draw(_i(0, 20)), "pix": pix}


@st.composite
def _strike(draw, ng):
    bd = draw(st.sampled_from([1, 1, 2, 4, 8]))
    gids = list(range(ng))
    # partition a prefix-shuffled id list into consecutive runs = index subtables
    k = draw(_i(1, min(3, ng)))
    cuts = sorted(draw(st.lists(_i(1, ng - 1), min_size=k - 1, max_size=k - 1, unique=True))) if ng > 1 and k > 1 else []
    runs = []
    prev = 0
    for c in cuts + [ng]:
        if c > prev:
            runs.append(gids[prev:c])
        prev = c
    subtables = []
    for run in runs:
        ifmt = draw(st.sampled_from([1, 1, 2, 3, 3, 4, 5]))
        if ifmt in (2, 5):
            w, h = draw(_i(1, 13)), draw(_i(1, 9))
            if ifmt == 5:
                keep = [g for g in run if draw(_i(0, 3)) > 0] or run[:1]
            else:
                keep = run
            glyphs = [draw(_bitmap_glyph(g, bd, w, h)) for g in keep]
            m = glyphs[0]
            subtables.append({"index": ifmt, "image": 5, "glyphs": glyphs, "metrics": {k: m[k] for k in ("w", "h", "bx", "by", "adv", "vbx", "vby", "vadv")}})
        else:
            keep = [g for g in run if draw(_i(0, 3)) > 0] or run[:1]
            img = draw(st.sampled_from([1, 2, 2, 6, 7, 7, 8, 9]))
            glyphs = []
            for g in keep:
                gl = draw(_bitmap_glyph(g, bd))
                if img in (8, 9):
                    n = draw(_i(1, 3))
                    gl["comps"] = [[draw(_i(0, ng - 1)), draw(_i(-8, 8)), draw(_i(-8, 8))] for _ in range(n)]
                    gl["pix"] = []
                glyphs.append(gl)
            subtables.append({"index": ifmt, "image": img, "glyphs": glyphs})
    lm = lambda: [draw(_i(-20, 20)), draw(_i(-20, 0)), draw(_i(0, 30))] + [draw(_i(-5, 5)) for _ in range(7)]
    return {"ppem": draw(st.sampled_from([8, 9, 12, 16, 20])), "bitDepth": bd, "flags": draw(st.sampled_from([1, 1, 2])), "hori": lm(), "vert": lm(), "subtables": subtables}


@st.composite
def _layout(draw, names):
    """Pieces of a feature file over the non-.notdef glyph names."""
    letters = names[1:]
    out = {}
    if len(letters) >= 2 and draw(st.booleans()):
        pairs = draw(st.dictionaries(st.tuples(st.sampled_from(letters), st.sampled_from(letters)), _i(-120, 120).filter(bool), min_size=1, max_size=5))
        out["pairs"] = [[a, b, v] for (a, b), v in sorted(pairs.items())]
    if len(letters) >= 4 and draw(st.booleans()):
        # two first classes and two second classes of equal size whose names interleave in sorted order
        perm = draw(st.permutations(letters))
        k = len(perm) // 2
        c1, c2 = sorted(perm[: k - k % 1])[::2], sorted(perm[: k - k % 1])[1::2]
        half = sorted(perm)
        a = half[0::2][:2] if len(half[0::2]) >= 2 else half[:1]
        b = half[1::2][: len(a)]
        if a and b and not set(a) & set(b):
            out["classes"] = {"A": a, "B": b, "vals": [draw(_i(-90, 90).filter(bool)) for _ in range(4)]}
    if len(letters) >= 3 and draw(st.booleans()):
        comp = draw(st.lists(st.sampled_from(letters), min_size=2, max_size=3))
        lig = draw(st.sampled_from(letters))
        out["liga"] = [comp, lig]
    if len(letters) >= 2 and draw(st.booleans()):
        a, b = draw(st.sampled_from(letters)), draw(st.sampled_from(letters))
        if a != b:
            out["single"] = [a, b]
    if len(letters) >= 3 and draw(_i(0, 2)) == 0:
        a = draw(st.sampled_from(letters))
        alts = [x for x in draw(st.lists(st.sampled_from(letters), min_size=1, max_size=3, unique=True)) if x != a]
        if alts:
            out["alt"] = [a, alts]
    if len(letters) >= 3 and draw(_i(0, 2)) == 0:
        mark = letters[-1]
        bases = [x for x in draw(st.lists(st.sampled_from(letters[:-1]), min_size=1, max_size=3, unique=True))]
        out["mark"] = {"mark": mark, "manchor": [draw(_i(-200, 200)), draw(_i(-200, 800))], "bases": [[b, draw(_i(0, 600)), draw(_i(0, 900))] for b in sorted(bases)]}
    return out or None


@st.composite
def specs(draw):
    kind = draw(st.sampled_from(["glyf", "var", "cff", "cid", "glyf", "var", "cff", "cid", "cid"]))
    spec = {"kind": kind}
    if kind in ("glyf", "var"):
        vf = draw(gen_varfont.specs(max_glyphs=6))
        if kind == "glyf":
            vf = dict(vf, axes=[], variations={}, avar=None)
        spec["vf"] = vf
        names = [".notdef"] + [g["name"] for g in vf["glyphs"]]
    elif kind == "cid":
        # CID-keyed CFF: 2-3 font dicts whose local subroutine 0 draws a different shape; every glyph calls it, so the
        # outline of a glyph depends on its FDSelect entry; font dicts interleaved over the glyph order
        ng = draw(_i(3, 9))
        nfd = draw(_i(2, 3))
        fds = [0] + [draw(_i(0, nfd - 1)) for _ in range(ng - 1)]
        for k in range(nfd):
            if k not in fds:
                fds[1 + k % (ng - 1)] = k
        spec["cid"] = {
            "fd": fds,
            "shapes": [[draw(_i(2, 8)) * 50, draw(_i(2, 8)) * 50, draw(_i(0, 4)) * 25] for _ in range(nfd)],
            "nominal": [draw(st.sampled_from([0, 100, 500, 600])) for _ in range(nfd)],
            "widths": [draw(_i(4, 20)) * 50 for _ in range(ng)],
            "fdselect": draw(st.sampled_from([0, 3, 3])),
        }
        if draw(st.booleans()):
            # few distinct advances (half / full / proportional widths of a CJK font): the best default width of one font
            # dict is then some other font dict's ordinary width
            pal = draw(st.lists(_i(4, 20), min_size=2, max_size=3, unique=True))
            spec["cid"]["widths"] = [draw(st.sampled_from(pal)) * 50 for _ in range(ng)]
        names = [".notdef"] + ["cid%05d" % i for i in range(1, ng)]
    else:
        c = draw(gen_t2.fonts(max_glyphs=6))
        spec["cff"] = c
        names = gen_t2.glyph_names(len(c["flat"]))
        spec["use_subrs"] = c["lsubrs"]["n"] + c["gsubrs"]["n"] < 1500 and draw(st.booleans())
        if len(names) >= 3 and draw(_i(0, 1)) == 0:
            # accent building through endchar's four optional operands (adx ady bchar achar, the Type 1 seac form): base and
            # accent are addressed by StandardEncoding code, so two glyphs take standard names; with `explicit` the glyph's
            # width differs from defaultWidthX and precedes the four operands
            bi, ai = draw(st.permutations(range(1, len(names))))[:2]
            names[bi], names[ai] = "A", "grave"
            names.append("Agrave")
            spec["seac"] = {"adx": draw(_i(-200, 400)), "ady": draw(_i(-100, 500)), "explicit": draw(_i(0, 3)) > 0, "width": draw(_i(5, 18)) * 50}
    ng = len(names)
    weird = kind != "cid" and "seac" not in spec and draw(_i(0, 3)) == 0
    if weird:
        # glyph names with characters that XML, file systems and case-insensitive comparison treat specially (they are
        # legal in post format 2 and in a CFF charset); names that differ only in such characters or only in case
        pool = ['quote"dbl', "amp&er", "lt<gt>", "apos'x", "f*i", "f_i", "T_x", "T*x", "T?x", "back\\slash", "semi;colon", "hash#1", "A", "a", "percent%41", "f|i", "caf\u00e9"[:3] + "e", "x.y.z", "_", "CON", "com1"]
        # names that collide as file names come first, so that small fonts have a colliding pair too
        group = draw(st.sampled_from([["f*i", "f_i", "f|i"], ["T_x", "T*x", "T?x"], ["A", "a"], ["CON", "com1"], ['quote"dbl', "amp&er"]]))
        # the four XML specials come next: which of them a small font gets must not depend on luck
        lead = group + [x for x in ['quote"dbl', "amp&er", "lt<gt>", "apos'x"] if x not in group]
        picked = (lead + [x for x in draw(st.permutations(pool)) if x not in lead])[: ng - 1]
        ren = dict(zip(names[1:], picked))
        names = [names[0]] + [ren[n] for n in names[1:]]
        if kind in ("glyf", "var"):
            vf = spec["vf"]
            vf = dict(vf, glyphs=[dict(g, name=ren[g["name"]], **({"components": [[ren[c[0]]] + list(c[1:]) for c in g["components"]]} if "components" in g else {})) for g in vf["glyphs"]], variations={ren[k]: v for k, v in vf["variations"].items()})
            spec["vf"] = vf
        spec["weird_names"] = True
    spec["names"] = names
    opt = lambda p=3: draw(_i(0, p)) == 0
    ex = {}
    # -- dress
    if opt(2):
        ex["cmap12"] = {str(cp): draw(_i(1, ng - 1)) for cp in draw(st.lists(st.sampled_from([0x1F600, 0x10000, 0x2F800, 0x10FFFF, 0xE000, 0x3042]), min_size=1, max_size=3, unique=True))} if ng > 1 else {}
    if opt():
        ex["cmapmac"] = draw(st.sampled_from([0, 6]))
    if opt() and ng > 2:
        ex["uvs"] = [[draw(st.sampled_from([0xFE00, 0xFE0F, 0xE0100])), 0x41, None], [draw(st.sampled_from([0xFE01, 0xE0101])), 0x41 + min(1, ng - 2), draw(_i(1, ng - 1))]]
    if kind in ("glyf", "var"):
        ex["post"] = 2 if weird else draw(st.sampled_from([2, 2, 3]))
    lay = draw(_layout(names)) if (opt(1) and not weird) else None  # feature text cannot spell the weird names
    if lay:
        ex["layout"] = lay
    if opt():
        ex["vert"] = [[draw(_i(0, 24)) * 50, draw(_i(-4, 20)) * 10] for _ in range(ng)]
    # -- raw
    if opt(1):
        ex["OS/2"] = draw(_os2())
    if opt():
        ex["kern"] = draw(_kern(ng))
    if opt():
        n = draw(_i(1, 3))
        pp = sorted(draw(st.lists(_i(5, 60), min_size=n, max_size=n, unique=True)))
        ex["gasp"] = {"version": draw(st.sampled_from([0, 1])), "ranges": [[p, draw(_i(0, 15))] for p in pp[:-1]] + [[0xFFFF, draw(_i(0, 15))]]}
    if opt() and kind in ("glyf", "var"):
        pp = sorted(draw(st.lists(_i(6, 40), min_size=1, max_size=3, unique=True)))
        ex["hdmx"] = [[p, [draw(_i(0, 60)) for _ in range(ng)]] for p in pp]
    if opt() and kind in ("glyf", "var"):
        ex["LTSH"] = [draw(_i(0, 255)) for _ in range(ng)]
    if opt() and kind in ("glyf", "var"):
        ex["cvt"] = [draw(_i(-500, 900)) for _ in range(draw(_i(1, 6)))]
        ex["fpgm"] = [0xB0, 0x00, 0x2C, 0xB0, draw(_i(0, 255)), 0x21, 0x2D]  # PUSHB[0] 0 FDEF PUSHB[0] n POP ENDF
        ex["prep"] = [0xB8, draw(_i(0, 255)), draw(_i(0, 255)), 0x21, 0xB1, 1, 2, 0x21, 0x21]
    if opt():
        ex["meta"] = [[t, draw(st.sampled_from(["en-Latn", "Latn, Grek", "zh-Hans", "sr-Cyrl, bg"]))] for t in draw(st.sampled_from([["dlng"], ["slng"], ["dlng", "slng"]]))]
    if opt(5):
        ex["DSIG"] = draw(st.sampled_from([0, 1]))
    if opt() and ng >= 2:
        ex["EBLC"] = [draw(_strike(ng)) for _ in range(draw(st.sampled_from([1, 1, 2])))]
    if opt(4):
        ex["sbix"] = [{"ppem": p, "ppi": 72, "glyphs": [[draw(_i(-5, 5)), draw(_i(-5, 5)), draw(_i(0, 12))] if draw(st.booleans()) else None for _ in range(ng)]} for p in sorted(draw(st.lists(_i(8, 128), min_size=1, max_size=2, unique=True)))]
    if opt(4) and ng >= 2:
        a = draw(_i(1, ng - 1))
        b = draw(_i(a, ng - 1))
        ex["SVG"] = [[a, b, draw(st.sampled_from(["plain", "text", "amp"]))]]
        if b + 1 < ng:
            ex["SVG"].append([b + 1, b + 1, "plain"])
    if opt(4) and ng >= 3:
        npal = draw(_i(1, 2))
        ncol = draw(_i(1, 3))
        bases = sorted(draw(st.lists(_i(1, ng - 1), min_size=1, max_size=2, unique=True)))
        ex["COLR"] = {"palettes": [[[draw(_i(0, 255)) for _ in range(4)] for _ in range(ncol)] for _ in range(npal)], "bases": [[b, [[draw(_i(1, ng - 1)), draw(st.sampled_from(list(range(ncol)) + [0xFFFF]))] for _ in range(draw(_i(1, 3)))]] for b in bases]}
    spec["extras"] = ex
    return spec


# ---------------------------------------------------------------------------
# own writers (struct only)


def w_os2(d):
    v = d["version"]
    b = struct.pack(">HhHHH", v, d["xAvgCharWidth"], d["usWeightClass"], d["usWidthClass"], d["fsType"])
    b += struct.pack(">8h", *d["sub"]) + struct.pack(">hh", *d["strike"]) + struct.pack(">h", d["sFamilyClass"])
    b += bytes(d["panose"]) + struct.pack(">4L", *d["ur"]) + d["vend"].encode("ascii")
    b += struct.pack(">HHH", d["fsSelection"], 0x41, 0x41) + struct.pack(">hhhHH", *(d["typo"] + d["win"]))
    assert len(b) == 78
    if v >= 1:
        b += struct.pack(">LL", *d["cpr"])
    if v >= 2:
        b += struct.pack(">hhHHH", *(d["xcap"] + d["defbreak"] + [d["maxctx"]]))
    if v >= 5:
        b += struct.pack(">HH", *d["opsz"])
    return b


def _search(n, size):
    es = 0
    while (2 << es) <= n:
        es += 1
    sr = (1 << es) * size  # n == 0: 2**0 * size, as every writer I know emits
    return sr, es, max(0, n * size - sr)


def w_kern(subs):
    out = struct.pack(">HH", 0, len(subs))
    for s in subs:
        n = len(s["pairs"])
        sr, es, rs = _search(n, 6)
        body = struct.pack(">HHHH", n, sr, es, rs) + b"".join(struct.pack(">HHh", *p) for p in s["pairs"])
        out += struct.pack(">HHH", 0, 6 + len(body), s["coverage"]) + body
    return out


def w_gasp(d):
    fl = [(f & 3) if d["version"] == 0 else f for p, f in d["ranges"]]
    version = 1 if any(f > 3 for f in fl) else 0  # the version follows from the flags in use
    return struct.pack(">HH", version, len(fl)) + b"".join(struct.pack(">HH", p, f) for (p, _), f in zip(d["ranges"], fl))


def w_hdmx(recs, ng):
    size = (ng + 2 + 3) & ~3
    out = struct.pack(">HhL", 0, len(recs), size)
    for ppem, widths in recs:
        r = bytes([ppem, max(widths)]) + bytes(widths)
        out += r + b"\0" * (size - len(r))
    return out


def w_ltsh(vals):
    return struct.pack(">HH", 0, len(vals)) + bytes(vals)


def w_meta(entries):
    hdr = 16 + 12 * len(entries)
    maps, data = b"", b""
    for tag, text in entries:
        t = text.encode("utf-8")
        maps += tag.encode("ascii") + struct.pack(">LL", hdr + len(data), len(t))
        data += t
    return struct.pack(">LLLL", 1, 0, hdr, len(entries)) + maps + data


def w_dsig(flag):
    return struct.pack(">LHH", 1, 0, flag)


def _pack_bits(values, bd):
    """MSB-first bit packing of pixel values; zero padding at the end."""
    acc, nbits, out = 0, 0, bytearray()
    for v in values:
        acc = (acc << bd) | v
        nbits += bd
        while nbits >= 8:
            out.append((acc >> (nbits - 8)) & 0xFF)
            nbits -= 8
            acc &= (1 << nbits) - 1
    if nbits:
        out.append((acc << (8 - nbits)) & 0xFF)
    return bytes(out)


def _small(g):
    return struct.pack(">BBbbB", g["h"], g["w"], g["bx"], g["by"], g["adv"])


def _big(g):
    return struct.pack(">BBbbBbbB", g["h"], g["w"], g["bx"], g["by"], g["adv"], g["vbx"], g["vby"], g["vadv"])


def bitmap_glyph_data(g, img, bd):
    flat = [v for row in g["pix"] for v in row]
    byte_aligned = b"".join(_pack_bits(row, bd) for row in g["pix"])
    bit_aligned = _pack_bits(flat, bd)
    comps = b"".join(struct.pack(">Hbb", *c) for c in g.get("comps", []))
    if img == 1:
        return _small(g) + byte_aligned
    if img == 2:
        return _small(g) + bit_aligned
    if img == 5:
        return bit_aligned
    if img == 6:
        return _big(g) + byte_aligned
    if img == 7:
        return _big(g) + bit_aligned
    if img == 8:
        return _small(g) + b"\0" + struct.pack(">H", len(g["comps"])) + comps
    if img == 9:
        return _big(g) + struct.pack(">H", len(g["comps"])) + comps
    raise ValueError(img)


def w_bitmaps(strikes):
    """-> (EBLC bytes, EBDT bytes)"""
    ebdt = bytearray(struct.pack(">L", 0x00020000))
    nstrikes = len(strikes)
    arrays = []  # per strike: bytes of indexSubTableArray + index subtables
    for s in strikes:
        bd = s["bitDepth"]
        nsub = len(s["subtables"])
        arr, subs = b"", b""
        for st_ in s["subtables"]:
            gl = st_["glyphs"]
            first, last = gl[0]["gid"], gl[-1]["gid"]
            image_off = len(ebdt)
            datas = [bitmap_glyph_data(g, st_["image"], bd) for g in gl]
            hdr = struct.pack(">HHL", st_["index"], st_["image"], image_off)
            ifmt = st_["index"]
            if ifmt in (1, 3):
                by_gid = {g["gid"]: d for g, d in zip(gl, datas)}
                offs, pos = [], 0
                for gid in range(first, last + 1):
                    offs.append(pos)
                    pos += len(by_gid.get(gid, b""))
                offs.append(pos)
                if ifmt == 1:
                    body = b"".join(struct.pack(">L", o) for o in offs)
                else:
                    body = b"".join(struct.pack(">H", o) for o in offs)
                    if len(body) % 4:
                        body += b"\0\0"
            elif ifmt == 4:
                offs, pos = [], 0
                for d in datas:
                    offs.append(pos)
                    pos += len(d)
                offs.append(pos)
                body = struct.pack(">L", len(gl)) + b"".join(struct.pack(">HH", gid, o) for gid, o in zip([g["gid"] for g in gl] + [0], offs))
            elif ifmt == 2:
                body = struct.pack(">L", len(datas[0])) + _big(st_["metrics"])
            elif ifmt == 5:
                body = struct.pack(">L", len(datas[0])) + _big(st_["metrics"]) + struct.pack(">L", len(gl)) + b"".join(struct.pack(">H", g["gid"]) for g in gl)
                if len(gl) % 2:
                    body += b"\0\0"
            else:
                raise ValueError(ifmt)
            for d in datas:
                ebdt += d
            arr += struct.pack(">HHL", first, last, 8 * nsub + len(subs))
            subs += hdr + body
        arrays.append(arr + subs)
    eblc = struct.pack(">LL", 0x00020000, nstrikes)
    off = 8 + 48 * nstrikes
    for s, a in zip(strikes, arrays):
        gids = [g["gid"] for st_ in s["subtables"] for g in st_["glyphs"]]
        eblc += struct.pack(">LLLL", off, len(a), len(s["subtables"]), 0)
        eblc += struct.pack(">bbB7b2x", *s["hori"]) + struct.pack(">bbB7b2x", *s["vert"])
        eblc += struct.pack(">HHBBBb", min(gids), max(gids), s["ppem"], s["ppem"], s["bitDepth"], s["flags"])
        off += len(a)
    for a in arrays:
        eblc += a
    return eblc, bytes(ebdt)


_PNG = bytes.fromhex("89504e470d0a1a0a0000000d4948445200000001000000010100000000376ef9240000000a49444154789c636000000002000148afa4710000000049454e44ae426082")


def w_sbix(strikes, ng):
    out = struct.pack(">HHL", 1, 1, len(strikes))
    pos = 8 + 4 * len(strikes)
    bodies = []
    for s in strikes:
        offs, data = [], b""
        base = 4 + 4 * (ng + 1)
        for g in s["glyphs"]:
            offs.append(base + len(data))
            if g is not None:
                data += struct.pack(">hh", g[0], g[1]) + b"png " + _PNG + bytes(g[2])
        offs.append(base + len(data))
        b = struct.pack(">HH", s["ppem"], s["ppi"]) + b"".join(struct.pack(">L", o) for o in offs) + data
        bodies.append(b)
    for b in bodies:
        out += struct.pack(">L", pos)
        pos += len(b)
    return out + b"".join(bodies)


def w_svg(entries):
    docs = []
    for a, b, kind in entries:
        ids = "".join('<g id="glyph%d"/>' % g for g in range(a, b + 1))
        extra = {"plain": "", "text": "<title>a  b\tc</title>", "amp": "<desc>x &amp; y &lt; z</desc>"}[kind]
        docs.append(('<svg xmlns="http://www.w3.org/2000/svg">%s%s</svg>' % (extra, ids)).encode("utf-8"))
    n = len(entries)
    lst = struct.pack(">H", n)
    pos = 2 + 12 * n
    for (a, b, _), d in zip(entries, docs):
        lst += struct.pack(">HHLL", a, b, pos, len(d))
        pos += len(d)
    return struct.pack(">HLL", 0, 10, 0) + lst + b"".join(docs)


def w_colr_cpal(d):
    pals = d["palettes"]
    ncol = len(pals[0])
    cpal = struct.pack(">HHHHL", 0, ncol, len(pals), ncol * len(pals), 12 + 2 * len(pals))
    cpal += b"".join(struct.pack(">H", i * ncol) for i in range(len(pals)))
    cpal += b"".join(bytes(c) for p in pals for c in p)
    bases, layers = b"", b""
    nl = 0
    for gid, ls in d["bases"]:
        bases += struct.pack(">HHH", gid, nl, len(ls))
        for lg, pi in ls:
            layers += struct.pack(">HH", lg, pi)
        nl += len(ls)
    colr = struct.pack(">HHLLH", 0, len(d["bases"]), 14, 14 + len(bases), nl) + bases + layers
    return colr, cpal


# ---------------------------------------------------------------------------
# building


def fea_text(lay):
    out = ["languagesystem DFLT dflt;", "languagesystem latn dflt;"]
    if lay.get("mark"):
        m = lay["mark"]
        out.append("markClass %s <anchor %d %d> @TOP;" % (m["mark"], m["manchor"][0], m["manchor"][1]))
    if lay.get("single"):
        out.append("feature smcp { sub %s by %s; } smcp;" % tuple(lay["single"]))
    if lay.get("alt"):
        out.append("feature salt { sub %s from [%s]; } salt;" % (lay["alt"][0], " ".join(lay["alt"][1])))
    if lay.get("liga"):
        out.append("feature liga { sub %s by %s; } liga;" % (" ".join(lay["liga"][0]), lay["liga"][1]))
    if lay.get("pairs") or lay.get("classes"):
        out.append("feature kern {")
        for a, b, v in lay.get("pairs", []):
            out.append("  pos %s %s %d;" % (a, b, v))
        c = lay.get("classes")
        if c:
            A, B, v = "[%s]" % " ".join(c["A"]), "[%s]" % " ".join(c["B"]), c["vals"]
            out.append("  pos %s %s %d;" % (A, A, v[0]))
            out.append("  pos %s %s %d;" % (A, B, v[1]))
            out.append("  pos %s %s %d;" % (B, A, v[2]))
            out.append("  pos %s %s %d;" % (B, B, v[3]))
        out.append("} kern;")
    if lay.get("mark"):
        out.append("feature mark {")
        for b, x, y in lay["mark"]["bases"]:
            if b != lay["mark"]["mark"]:
                out.append("  pos base %s <anchor %d %d> mark @TOP;" % (b, x, y))
        out.append("} mark;")
    return "\n".join(out) + "\n"


def _cid_bytes(spec):
    """CID-keyed CFF font assembled from a TTX description of the CFF table (FontBuilder cannot make one)."""
    from fontTools.fontBuilder import FontBuilder
    from fontTools.misc.psCharStrings import T2CharString
    from fontTools.ttLib import TTFont

    c = spec["cid"]
    names = spec["names"]
    fb = FontBuilder(1000, isTTF=False)
    fb.setupGlyphOrder(names)
    fb.setupCharacterMap({0x41 + i: n for i, n in enumerate(names) if i})
    cs = T2CharString()
    cs.program = ["endchar"]
    fb.setupCFF("GenCID", {}, {n: cs for n in names}, {})
    fb.setupHorizontalMetrics({n: (w, 0) for n, w in zip(names, c["widths"])})
    fb.setupHorizontalHeader(ascent=800, descent=-200)
    fb.setupNameTable({"familyName": "GenCID", "styleName": "Regular"})
    fb.setupOS2()
    fb.setupPost()
    fds = ""
    for k, ((w, h, slant), nom) in enumerate(zip(c["shapes"], c["nominal"])):
        subr = "100 100 rmoveto %d hlineto %d %d rlineto %d hlineto" % (w, slant, h, -w)
        fds += """
        <FontDict index="%d">
          <FontName value="GenCID-FD%d"/>
          <FontMatrix value="0.001 0 0 0.001 0 0"/>
          <Private>
            <BlueValues value="-10 0 500 510"/>
            <defaultWidthX value="0"/>
            <nominalWidthX value="%d"/>
            <Subrs>
              <CharString index="0">
                %s
                return
              </CharString>
            </Subrs>
          </Private>
        </FontDict>""" % (k, k, nom, subr)
    chars = ""
    for i, n in enumerate(names):
        fd = c["fd"][i]
        chars += """
        <CharString name="%s" fdSelectIndex="%d">
          %d -107 callsubr
          %d -60 rmoveto
          %d hlineto
          20 vlineto
          %d hlineto
          endchar
        </CharString>""" % (n, fd, c["widths"][i] - c["nominal"][fd], 10 * i, 30 + 5 * i, -(30 + 5 * i))
    ttx = """<?xml version="1.0" encoding="UTF-8"?>
<ttFont sfntVersion="OTTO" ttLibVersion="4.0">
  <CFF>
    <major value="1"/>
    <minor value="0"/>
    <CFFFont name="GenCID">
      <ROS Registry="Adobe" Order="Identity" Supplement="0"/>
      <FullName value="GenCID"/>
      <FontMatrix value="0.001 0 0 0.001 0 0"/>
      <FontBBox value="0 -60 700 600"/>
      <CIDFontVersion value="1.000"/>
      <CIDFontRevision value="0"/>
      <CIDFontType value="0"/>
      <CIDCount value="%d"/>
      <FDSelect format="%d"/>
      <FDArray>%s
      </FDArray>
      <CharStrings>%s
      </CharStrings>
    </CFFFont>
    <GlobalSubrs>
    </GlobalSubrs>
  </CFF>
</ttFont>
""" % (len(names), c["fdselect"], fds, chars)
    font = fb.font
    del font["CFF "]
    font.importXML(io.StringIO(ttx))
    buf = io.BytesIO()
    font.save(buf)
    return buf.getvalue()


def _base_bytes(spec):
    if spec["kind"] in ("glyf", "var"):
        return gen_varfont.build(spec["vf"])
    if spec["kind"] == "cid":
        return _cid_bytes(spec)
    from . import ref_t2

    c = spec["cff"]
    names = spec["names"]
    progs = c["sub"] if spec.get("use_subrs") else c["flat"]
    widths = {}
    for n, flat in zip(names, c["flat"]):
        r = ref_t2.run(flat, None, None, "cff", c["dwx"], c["nwx"])
        # hmtx advances stay below 2**14: HarfBuzz scales advances as int16, so anything above 32767 (also after a
        # x2 rescaling of the em) wraps around in the oracle
        widths[n] = max(0, min(16000, int(round(r.width))))
    kw = {}
    if spec.get("use_subrs"):
        kw = dict(lsubrs=gen_t2.expand_subrs(c["lsubrs"]), gsubrs=gen_t2.expand_subrs(c["gsubrs"]))
    if spec.get("seac"):
        sc = spec["seac"]
        w = sc["width"] if sc["explicit"] and sc["width"] != c["dwx"] else c["dwx"]
        lead = [w - c["nwx"]] if w != c["dwx"] else []
        progs = list(progs) + [lead + [sc["adx"], sc["ady"], 65, 193, "endchar"]]
        widths["Agrave"] = max(0, min(16000, int(round(w))))
    return gen_t2.build_cff_font(dict(zip(names, progs)), widths, private=dict(defaultWidthX=c["dwx"], nominalWidthX=c["nwx"]), **kw)


def pinned_specs(seed):
    """Specifications that every run has whatever the seed draws: shapes that only a fraction of the drawn fonts have and
    that some clause needs in order to say anything (numbers still vary with the seed)."""
    import random

    rnd = random.Random(seed * 7919 + 11)
    nwx = rnd.choice([0, 100, 500])
    dwx = rnd.choice([500, 600])

    def box(w, x, y, dx, dy):
        lead = [w - nwx] if w != dwx else []
        return lead + [x, y, "rmoveto", dx, "hlineto", dy, "vlineto", -dx, "hlineto", "endchar"]

    widths = [dwx, rnd.randint(5, 9) * 100 + 50, rnd.randint(2, 4) * 100 + 50, dwx]
    flat = [
        box(widths[0], 50, 0, 400, 700),
        box(widths[1], 40, 0, rnd.randint(300, 600), rnd.randint(500, 700)),
        box(widths[2], 100, rnd.randint(500, 650), rnd.randint(100, 200), rnd.randint(60, 160)),
        box(widths[3], 60, 0, 350, 450),
    ]
    none = {"n": 0, "programs": [], "bias": 107}
    cff = {"kind": "font", "dwx": dwx, "nwx": nwx, "flat": flat, "sub": flat, "lsubrs": none, "gsubrs": none}
    # accent building with an explicit width operand, base and accent with real outlines
    os2 = {"version": 5, "xAvgCharWidth": 500, "usWeightClass": 400, "usWidthClass": 5, "fsType": 0, "sub": [650, 600, 0, 75, 650, 600, 0, 350],
           "strike": [50, 250], "sFamilyClass": 0, "panose": [0] * 10, "ur": [1, 0, 0, 0], "vend": "NONE", "fsSelection": 0x40, "typo": [800, -200, 90],
           "win": [900, 250], "cpr": [1, 0], "xcap": [450, 700], "defbreak": [0, 0x20], "maxctx": 1,
           # optical size range in TWIPs: non-zero, one bound not a multiple of 20
           "opsz": [rnd.choice([160, 161, 180]), rnd.choice([1440, 1441, 2400])]}
    seac = {"kind": "cff", "cff": cff, "names": [".notdef", "A", "grave", "B", "Agrave"], "use_subrs": False, "extras": {"OS/2": os2}, "pinned": "seac+os2v5",
            "seac": {"adx": rnd.randint(-50, 250), "ady": rnd.randint(0, 120), "explicit": True, "width": widths[1] + 50}}
    # CID-keyed CFF whose font dicts have different most-common advances, and a glyph of the first font dict that has the
    # other font dict's common advance (half-width glyph in a full-width font dict)
    wa, wb = rnd.sample([300, 500, 600, 1000], 2)
    nfd = rnd.choice([2, 3])
    fds = [0, 0, 0, 0, 1, 1, 1] + ([2, 2] if nfd == 3 else [])
    widths = [wa, wa, wa, wb, wb, wb, wb] + ([wb, wb] if nfd == 3 else [])
    cid = {"kind": "cid", "names": [".notdef"] + ["cid%05d" % i for i in range(1, len(fds))], "extras": {}, "pinned": "cid-widths",
           "cid": {"fd": fds, "shapes": [[rnd.randint(2, 8) * 50, rnd.randint(2, 8) * 50, rnd.randint(0, 4) * 25] for _ in range(nfd)],
                   "nominal": [rnd.choice([0, 100, 500]) for _ in range(nfd)], "widths": widths, "fdselect": rnd.choice([0, 3])}}
    return [seac, cid]


SHAPES = [
    # (name, predicate over a drawn specification): shapes that some clause of some check needs and that a run of 64 drawn
    # fonts has only with some probability
    ("weird-names-cff", lambda s: s.get("weird_names") and s["kind"] == "cff"),
    ("weird-names-glyf", lambda s: s.get("weird_names") and s["kind"] in ("glyf", "var")),
    ("bitmap-components", lambda s: any(st_["image"] in (8, 9) for strike in s["extras"].get("EBLC", []) for st_ in strike["subtables"])),
    ("bitmap-depth>1", lambda s: any(strike.get("bitDepth", strike.get("bd", 1)) > 1 for strike in s["extras"].get("EBLC", []))),
    ("kern-subtables>1", lambda s: len(s["extras"].get("kern", [])) > 1 and all(k["pairs"] for k in s["extras"]["kern"])),
    ("hdmx+LTSH", lambda s: "hdmx" in s["extras"] and "LTSH" in s["extras"]),
    ("VORG", lambda s: "vert" in s["extras"] and s["kind"] in ("cff", "cid")),
    ("COLR", lambda s: "COLR" in s["extras"]),
    ("uvs+cmap12", lambda s: "uvs" in s["extras"] and s["extras"].get("cmap12")),
    ("layout-var", lambda s: "layout" in s["extras"] and s["kind"] == "var"),
]


def shape_picks(drawn, more):
    """For every shape that none of the `drawn` specifications has: the first of `more` (the continuation of the same
    Hypothesis stream) that has it. Deterministic, bounded, and every run gets every shape (if the stream has it at all)."""
    out = []
    for name, pred in SHAPES:
        def has(s):
            try:
                return bool(pred(s))
            except Exception:
                return False

        if any(has(s) for s in drawn):
            continue
        for s in more:
            if has(s) and all(s is not o for o in out):
                out.append(dict(s, pinned=name))
                break
    return out


def build(spec):
    """-> bytes of the complete font."""
    from fontTools.ttLib import TTFont, newTable
    from fontTools.ttLib.tables._c_m_a_p import CmapSubtable

    ex = spec["extras"]
    names = spec["names"]
    ng = len(names)
    data = _base_bytes(spec)
    dress = [k for k in ("cmap12", "cmapmac", "uvs", "post", "layout", "vert") if k in ex]
    if dress:
        f = TTFont(io.BytesIO(data), recalcTimestamp=False)
        cmap = f["cmap"]
        uni = dict(cmap.tables[0].cmap)
        if "cmap12" in ex and ex["cmap12"]:
            t = CmapSubtable.newSubtable(12)
            t.platformID, t.platEncID, t.language = 3, 10, 0
            t.cmap = dict(uni)
            t.cmap.update({int(cp): names[g] for cp, g in ex["cmap12"].items()})
            cmap.tables.append(t)
        if "cmapmac" in ex:
            t = CmapSubtable.newSubtable(ex["cmapmac"])
            t.platformID, t.platEncID, t.language = 1, 0, 0
            t.cmap = {cp: n for cp, n in uni.items() if cp < 256}
            cmap.tables.append(t)
        if "uvs" in ex:
            t = CmapSubtable.newSubtable(14)
            t.platformID, t.platEncID, t.language = 0, 5, 0
            t.cmap = {}
            t.uvsDict = {}
            for sel, cp, g in ex["uvs"]:
                if cp in uni:
                    t.uvsDict.setdefault(sel, []).append((cp, None if g is None or names[g] == uni[cp] else names[g]))
            if t.uvsDict:
                cmap.tables.append(t)
        cmap.tables.sort(key=lambda s: (s.platformID, s.platEncID, s.language))
        if ex.get("post") == 3:
            f["post"].formatType = 3.0
        if "layout" in ex:
            from fontTools.feaLib.builder import addOpenTypeFeaturesFromString

            addOpenTypeFeaturesFromString(f, fea_text(ex["layout"]))
        if "vert" in ex:
            vhea = newTable("vhea")
            vhea.tableVersion = 0x00011000
            vhea.ascent, vhea.descent, vhea.lineGap = 500, -500, 0
            vhea.advanceHeightMax = vhea.minTopSideBearing = vhea.minBottomSideBearing = vhea.yMaxExtent = 0
            vhea.caretSlopeRise, vhea.caretSlopeRun, vhea.caretOffset = 0, 1, 0
            vhea.reserved0 = vhea.reserved1 = vhea.reserved2 = vhea.reserved3 = vhea.reserved4 = 0
            vhea.metricDataFormat = 0
            vhea.numberOfVMetrics = ng
            f["vhea"] = vhea
            vmtx = newTable("vmtx")
            vmtx.metrics = {n: (a, t) for n, (a, t) in zip(names, ex["vert"])}
            f["vmtx"] = vmtx
            if spec["kind"] in ("cff", "cid"):
                vorg = newTable("VORG")
                vorg.majorVersion, vorg.minorVersion = 1, 0
                vorg.defaultVertOriginY = 880
                vorg.VOriginRecords = {names[i]: 880 - 10 * i for i in range(1, ng, 2)}
                vorg.numVertOriginYMetrics = len(vorg.VOriginRecords)
                f["VORG"] = vorg
        buf = io.BytesIO()
        f.save(buf)
        data = buf.getvalue()
    raw = {}
    if "OS/2" in ex:
        raw["OS/2"] = w_os2(ex["OS/2"])
    if "kern" in ex:
        raw["kern"] = w_kern(ex["kern"])
    if "gasp" in ex:
        raw["gasp"] = w_gasp(ex["gasp"])
    if "hdmx" in ex:
        raw["hdmx"] = w_hdmx(ex["hdmx"], ng)
    if "LTSH" in ex:
        raw["LTSH"] = w_ltsh(ex["LTSH"])
    if "cvt" in ex:
        raw["cvt "] = b"".join(struct.pack(">h", v) for v in ex["cvt"])
        raw["fpgm"] = bytes(ex["fpgm"])
        raw["prep"] = bytes(ex["prep"])
    if "meta" in ex:
        raw["meta"] = w_meta(ex["meta"])
    if "DSIG" in ex:
        raw["DSIG"] = w_dsig(ex["DSIG"])
    if "EBLC" in ex:
        raw["EBLC"], raw["EBDT"] = w_bitmaps(ex["EBLC"])
    if "sbix" in ex:
        raw["sbix"] = w_sbix(ex["sbix"], ng)
    if "SVG" in ex:
        raw["SVG "] = w_svg(ex["SVG"])
    if "COLR" in ex:
        raw["COLR"], raw["CPAL"] = w_colr_cpal(ex["COLR"])
    return _finish(data, raw)


FIXED_TIME = 3600000000  # head.created / head.modified of every generated font (seconds since 1904)


def _finish(data, raw):
    """Splice the raw tables in with the independent writer; timestamps are fixed so that the bytes do not depend on
    SOURCE_DATE_EPOCH or the clock of the building process; checkSumAdjustment recomputed here."""
    c = sfntref.parse(data)
    fnt = c.fonts[0]
    tables = {t: bytes(fnt.tables[t]) for t in fnt.tables}
    tables.update(raw)
    head = bytearray(tables["head"])
    head[8:12] = b"\0\0\0\0"
    head[20:36] = struct.pack(">qq", FIXED_TIME, FIXED_TIME)
    tables["head"] = bytes(head)
    out = bytearray(sfntref.build_sfnt(fnt.sfntVersion, sorted(tables.items())))
    adj = (0xB1B0AFBA - sfntref.checksum(bytes(out))) & 0xFFFFFFFF
    n = struct.unpack(">H", out[4:6])[0]
    for i in range(n):
        tag, cs, off, ln = struct.unpack(">4sLLL", out[12 + 16 * i : 28 + 16 * i])
        if tag == b"head":
            out[off + 8 : off + 12] = struct.pack(">L", adj)
    return bytes(out)


def table_tags(spec):
    """Cheap list of the table tags a spec produces (for index entries), without building."""
    ex = spec["extras"]
    tags = {"head", "hhea", "maxp", "OS/2", "hmtx", "cmap", "name", "post"}
    tags |= {"glyf", "loca"} if spec["kind"] != "cff" else {"CFF "}
    if spec["kind"] == "var" and spec["vf"].get("axes"):
        tags |= {"fvar", "gvar"}
        if spec["vf"].get("avar"):
            tags.add("avar")
    return sorted(tags)
