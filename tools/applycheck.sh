#!/bin/bash
# tools/applycheck.sh <patch.diff> <ID> [<ID>...] [-- extra ./check args]
# Applies a seeded patch to a throw-away worktree of /repo HEAD (outside /repo and /verif), runs ./check <ID> --tier quick
# with VERIF_REPO pointing at it and VERIF_OUT at a scratch dir (committed evidence is not touched), prints exit codes
# and VIOLATION/bucket lines, removes the worktree.
patch=$(readlink -f "$1"); shift
wt=/tmp/wt-apply-$$
cd /verif
git -C /repo worktree add -q --detach $wt HEAD || exit 2
trap 'git -C /repo worktree remove --force $wt; rm -rf /verif/.scratch/applyout-$$' EXIT
git -C $wt apply "$patch" || { echo "PATCH DOES NOT APPLY"; exit 2; }
tier=${TIER:-quick}
for id in "$@"; do
  t0=$(date +%s)
  VERIF_REPO=$wt VERIF_OUT=/verif/.scratch/applyout-$$ ./check $id --tier $tier > .scratch/applycheck-$$.log 2>&1
  rc=$?
  echo "== $id exit=$rc secs=$(( $(date +%s) - t0 )) $( [ $rc = 1 ] && echo CAUGHT || ( [ $rc = 0 ] && echo MISSED || echo HARNESS-ERROR ) )"
  grep -E "^VIOLATION|^  bucket|HARNESS" .scratch/applycheck-$$.log | head -${LINES_MAX:-8}
  tail -1 .scratch/applycheck-$$.log
  rm -f .scratch/applycheck-$$.log
done
