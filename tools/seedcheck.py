#!/usr/bin/env python3
"""tools/seedcheck.py <PROP> <seeddir> <worktree> <name> [--checks C05,C01] [--notests]
Confirms a seeded change delivered by a fault-seeding sub-agent and runs our check against it.
  1. clean worktree: demo.py exits 0
  2. patch applied:  demo.py exits 1; byte-compiles; full existing suite passes (PYTHONPATH=<wt>/Lib, since
     /venv holds a non-editable copy of fontTools)
  3. ./check <PROP> with VERIF_REPO=<worktree> (patched) -> expect exit 1 (VIOLATION)
  4. worktree reverted; artefacts copied to /verif/seeded/<name>/ with results in meta.json
"""
import json, os, shutil, subprocess, sys, time
prop, sd, wt, name = sys.argv[1:5]
checks = [prop]
notests = "--notests" in sys.argv
for i, a in enumerate(sys.argv):
    if a == "--checks":
        checks = sys.argv[i + 1].split(",")
def run(cmd, **kw):
    return subprocess.run(cmd, capture_output=True, text=True, **kw)
res = {}
run(["git", "-C", wt, "checkout", "--", "."])
# bring the scratch worktree to /repo's current HEAD so that 'fix:' commits made since it was created are present
head = run(["git", "-C", "/repo", "rev-parse", "HEAD"]).stdout.strip()
run(["git", "-C", wt, "checkout", "-q", "--detach", head])
res["repo_head"] = head[:10]
env = dict(os.environ, PYTHONPATH=wt + "/Lib")
r = run(["/venv/bin/python", sd + "/demo.py", wt], env=env, timeout=600)
res["demo_clean_exit"] = r.returncode
r = run(["git", "-C", wt, "apply", sd + "/patch.diff"])
if r.returncode != 0:
    print("PATCH DOES NOT APPLY", r.stderr); sys.exit(2)
try:
    r = run(["/venv/bin/python", sd + "/demo.py", wt], env=env, timeout=600)
    res["demo_patched_exit"] = r.returncode
    res["demo_patched_output"] = (r.stdout + r.stderr)[-600:]
    r = run(["/venv/bin/python", "-m", "compileall", "-q", wt + "/Lib/fontTools"])
    res["compiles"] = r.returncode == 0
    if not notests:
        t0 = time.time()
        r = run(["/venv/bin/python", "-m", "pytest", "-q", "-p", "no:cacheprovider", "--timeout=900", "-n", "6"], cwd=wt, env=env, timeout=3600)
        res["tests_tail"] = r.stdout.strip().splitlines()[-1] if r.stdout.strip() else r.stderr[-300:]
        res["tests_pass"] = r.returncode == 0
        res["tests_failed"] = [l for l in r.stdout.splitlines() if l.startswith(("FAILED", "ERROR"))][:10]
        res["tests_secs"] = round(time.time() - t0)
    res["checks"] = {}
    for c in checks:
        t0 = time.time()
        r = run(["./check", c, "--tier", "quick"], cwd="/verif", env=dict(os.environ, VERIF_REPO=wt, VERIF_OUT="/verif/.scratch/seedout-%d" % os.getpid()), timeout=3600)
        out = (r.stdout + r.stderr).strip().splitlines()
        res["checks"][c] = dict(exit=r.returncode, caught=r.returncode == 1, secs=round(time.time() - t0), lines=[l for l in out if l.startswith(("VIOLATION", "  bucket"))][:6])
finally:
    run(["git", "-C", wt, "checkout", "--", "."])
    subprocess.run("find %s -name __pycache__ -prune -exec rm -rf {} +" % wt, shell=True)
shutil.rmtree("/verif/.scratch/seedout-%d" % os.getpid(), ignore_errors=True)
out = "/verif/seeded/" + name
os.makedirs(out, exist_ok=True)
shutil.copy(sd + "/patch.diff", out + "/patch.diff")
shutil.copy(sd + "/demo.py", out + "/demo.py")
meta = json.load(open(sd + "/meta.json")) if os.path.exists(sd + "/meta.json") else {}
meta["property"] = prop
meta["confirmed"] = res
meta["what_was_run"] = "tools/seedcheck.py: demo on clean and patched scratch worktree, compileall, full pytest suite with PYTHONPATH=<worktree>/Lib, then ./check <ID> --tier quick with VERIF_REPO=<patched worktree> (equivalent to applying the patch to /repo, used because other work was running against /repo)"
json.dump(meta, open(out + "/meta.json", "w"), indent=1)
# evidence files were rewritten by the mutant runs: caller should re-run the checks on /repo
print(name, json.dumps(res, indent=1)[:1500])
