import argparse
import importlib
import os
import sys
import traceback

from . import runner


def main(argv=None):
    ap = argparse.ArgumentParser(prog="check")
    ap.add_argument("prop")
    ap.add_argument("--tier", default=os.environ.get("VERIF_TIER") or "quick", choices=["quick", "thorough"])
    ap.add_argument("--replay")
    ap.add_argument("--nproc", type=int, default=None)
    args = ap.parse_args(argv)
    try:
        seed = int(os.environ.get("VERIF_SEED", "1") or "1")
    except ValueError:
        seed = 1
    try:
        runner.bootstrap()
        mod = importlib.import_module("props.%s" % args.prop.lower())
        if args.replay:
            return runner.replay(mod, args.replay)
        return runner.run(mod, args.tier, seed, nproc=args.nproc)
    except runner.HarnessError as e:
        print("HARNESS-ERROR %s" % e, file=sys.stderr)
        return 2
    except Exception:
        traceback.print_exc()
        print("HARNESS-ERROR unexpected exception in driver", file=sys.stderr)
        return 2


if __name__ == "__main__":
    sys.exit(main())
