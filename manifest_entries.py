NOT_YET = {}
reg("C15", "exploration",
    "Exhaustive enumeration of the small domains (all F2Dot14, all 255UShort, T2/CFF/T1 integer ranges, all eexec keys, all uni/u glyph names; all well-formed 4-char tags in the thorough tier) plus seeded generation over the large ones, each value checked by decode(encode(v))==v, by the canonical-size rule of the format and by an independent reference decoder.",
    "Reference decoders written from the CFF/Type 2, WOFF2, gvar and Type 1 specifications are trusted; large domains (16.16, reals, base128, point sets, delta runs) are sampled, not exhausted.",
    "exhaustive enumeration + property-based round-trip with independent reference decoders", "DESIGN.md section 2 C15")
reg("C05", "exploration",
    "Differential testing of the glyph-set API against HarfBuzz (FreeType adjudicating) over every glyph of every corpus font at the default location and at generated variation locations (axis extremes, corners, interior, avar segment ends, out-of-range), outlines compared up to representation by vf.geom with 0.51-unit tolerance, advances within 1 unit.",
    "HarfBuzz/FreeType are trusted as correct OpenType implementations; corpus fonts only in this round (generated fonts are exercised through C02/C10/C12); VARC compared at tolerance 2.0 (see evidence assumptions).",
    "differential testing against independent implementations over enumerated corpus x generated locations", "DESIGN.md section 2 C05")
reg("C01", "exploration",
    "Round-trip search over every corpus font in every container flavour, Hypothesis-generated table transplants with unknown-tag tables, lazy modes and generated touched-table sets: G1 = save(load(G0)), G2 = save(load(G1)); oracle = untouched/undecodable tables byte-identical, decoded tables content-equal after masking documented recomputed fields, G2 == G1 byte for byte, save never raises.",
    "Content equality of recompiled tables is judged on the library's own TTX fragment of the original file vs the re-saved file (masks listed in evidence assumptions); single-table TTX dumps of feaLib/otlLib are not mounted on skeleton fonts in this round.",
    "round-trip / fixed-point metamorphic testing over corpus x generated transplants and load configurations", "DESIGN.md section 2 C01")
reg("C03", "exploration",
    "Round-trip search over every corpus font x generated dump-option tuples (split tables/glyphs, instruction disassembly, bitmap formats, newline conventions, tables=/skipTables= merges, a sample through the ttx CLI): save(import(dump)) must give byte-identical tables to save(original object model), free-text tables equal after XML whitespace normalisation.",
    "Corpus fonts only (generated fonts reach TTX through C02's generators in a later round); the whitespace-normalised comparison uses the library's own dump and is consulted only when bytes differ.",
    "round-trip metamorphic testing over corpus x generated option tuples", "DESIGN.md section 2 C03")
reg("C13", "exploration",
    "Generated cubics (14 shape families incl. degenerate ones, scales 1-30000, integer/float) x tolerances x all_quadratic, lists of compatible curves with per-curve tolerances, quadratic splines for qu2cu, and glyph/pen level conversions; oracle = exact end points, equal segment counts across masters, and a certified geometric (two-sided Hausdorff) distance bound computed by an own Bezier library: a violation only when the certified lower bound of the distance exceeds the tolerance.",
    "vf/bezier_ref.py (own de Casteljau / branch-and-bound distance) is trusted; ApproxNotFoundError is an allowed outcome; tolerances in [1e-3, R/10].",
    "property-based testing with a certified geometric distance oracle", "DESIGN.md section 2 C13")
reg("C17", "exploration",
    "Metamorphic testing: corpus fonts x seeded glyph-order permutations (ttLib.reorderGlyphs) and x new units-per-em values (ttLib.scaleUpem), observed through HarfBuzz before/after keyed by glyph name: outlines, advances, cmap, shaping of texts and lookup-biased glyph runs at default and variation locations; reorder must be exact, scaling must multiply every number by k within a data-derived rounding budget and leave unit-less tables byte-identical.",
    "HarfBuzz as observer; scale budget formula in evidence assumptions; VARC fonts excluded from the scale relation; offsets compared only when they come from GPOS (HarfBuzz fallback mark positioning is not font data).",
    "metamorphic relation checked with an independent shaper over corpus x generated permutations/scale factors", "DESIGN.md section 2 C17")
reg("C18", "exploration",
    "Generated merge inputs (seeded character-set partitions of corpus fonts, compatible corpus tuples, FontBuilder-generated TrueType/CFF fonts with name clashes, duplicate code points and generated kerning/ligatures) merged with fontTools.merge and observed through HarfBuzz: every character keeps the outline and advance of the first input mapping it, glyph names are unique, and for disjoint character sets each input's texts shape to the same (outline, advance, offset) sequence in the merged font.",
    "HarfBuzz as observer; inputs constructed to satisfy the merger's documented restrictions (equal upem, same flavour, static, GSUB present when duplicates must be disambiguated, identical non-layout table sets for corpus tuples).",
    "metamorphic / differential testing through an independent shaper over generated input tuples", "DESIGN.md section 2 C18")
reg("C09", "exploration",
    "rebaseTent checked exhaustively on the 1/4 lattice of well-formed tents x axis limits in both tiers (1/8 lattice in thorough) against an exact-rational reference at 65+ points per case incl. all break points; generated master models (5 evaluation routes vs exact deltas/scalars), item and multi variation stores (build, optimize, subset, prune, compile vs own binary parser), IUP inference/optimisation and TupleVariation.optimize checked against the same reference.",
    "vf/ref_var.py (fractions.Fraction reference written from the OpenType variations spec) is trusted; float tolerance 1e-9*scale because the library computes in binary floating point; no optimality claims.",
    "exhaustive lattice enumeration + property-based testing against an exact-rational reference model", "DESIGN.md section 2 C09")
