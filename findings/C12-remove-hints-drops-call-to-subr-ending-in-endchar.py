"""CFFFontSet.remove_hints() deletes the call to a subroutine whose only non-hint operator is its final 'endchar'.
_DehintingT2Decompiler.execute scans 'range(last_checked, len(program) - 1)', i.e. never looks at the last token of a
subroutine (it assumes 'return'), so subr 0 = ['endchar'] keeps status 0 = "empty after dropping hints" and its call is put
on the caller's deletion list. Glyph B = [600, 1, 2, 'hstem', 10, 20, 'rmoveto', 30, 'hlineto', 40, 'vlineto', -107,
'callsubr'] becomes [600, 10, 20, 'rmoveto', 30, 'hlineto', 40, 'vlineto'] without endchar. A Type 2 charstring must end
with endchar: HarfBuzz's CFF interpreter runs off the end of the charstring and reports no extents for the glyph, where it
reported (10, 60, 30, -40) before. Expected: the glyph still ends (through the subr or directly) with endchar."""


def _build(charstrings, widths, private, lsubrs=()):
    """bytes of a small OpenType/CFF font; charstrings: name -> Type 2 program, lsubrs: local subroutine programs"""
    import io

    from fontTools.cffLib import SubrsIndex
    from fontTools.fontBuilder import FontBuilder
    from fontTools.misc.psCharStrings import T2CharString

    names = list(charstrings)
    fb = FontBuilder(1000, isTTF=False)
    fb.setupGlyphOrder(names)
    fb.setupCharacterMap({0x41 + i: n for i, n in enumerate(names) if i})
    fb.setupCFF("Witness", {"FullName": "Witness"}, {n: T2CharString(program=list(p)) for n, p in charstrings.items()}, dict(private))
    if lsubrs:
        subrs = SubrsIndex()
        for p in lsubrs:
            subrs.append(T2CharString(program=list(p)))
        fb.font["CFF "].cff.topDictIndex[0].Private.Subrs = subrs
    fb.setupHorizontalMetrics({n: (widths[n], 0) for n in names})
    fb.setupHorizontalHeader(ascent=800, descent=-200)
    fb.setupNameTable({"familyName": "Witness", "styleName": "Regular"})
    fb.setupOS2()
    fb.setupPost()
    buf = io.BytesIO()
    fb.font.save(buf)
    return buf.getvalue()


def _flatten(program, subrs):
    out = []
    for t in program:
        if t == "callsubr":
            out[-1:] = _flatten(subrs[out[-1] + 107].program, subrs)
        elif t != "return":
            out.append(t)
    return out


def _hb_extents(data, gid):
    try:
        import uharfbuzz as hb
    except ImportError:
        return "n/a"
    ext = hb.Font(hb.Face(data)).get_glyph_extents(gid)
    return None if ext is None else (ext.x_bearing, ext.y_bearing, ext.width, ext.height)


def reproduce():
    import io

    from fontTools.ttLib import TTFont

    data = _build(
        {".notdef": [0, 0, "rmoveto", "endchar"], "B": [600, 1, 2, "hstem", 10, 20, "rmoveto", 30, "hlineto", 40, "vlineto", -107, "callsubr"]},
        {".notdef": 500, "B": 700},
        dict(defaultWidthX=500, nominalWidthX=100),
        lsubrs=[["endchar"]],
    )
    hb_before = _hb_extents(data, 1)
    font = TTFont(io.BytesIO(data))
    font["CFF "].cff.remove_hints()
    buf = io.BytesIO()
    font.save(buf)
    hb_after = _hb_extents(buf.getvalue(), 1)
    font = TTFont(io.BytesIO(buf.getvalue()))
    top = font["CFF "].cff.topDictIndex[0]
    cs = top.CharStrings["B"]
    cs.decompile()
    flat = _flatten(cs.program, getattr(top.Private, "Subrs", []))
    expected = [600, 10, 20, "rmoveto", 30, "hlineto", 40, "vlineto", "endchar"]  # hand-computed: hints gone, rest unchanged
    if flat != expected or hb_after != hb_before:
        return "after remove_hints glyph B reads %r instead of %r; HarfBuzz glyph extents %r -> %r" % (flat, expected, hb_before, hb_after)
    return None
