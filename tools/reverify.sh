#!/bin/bash
# tools/reverify.sh [out] [ID-prefix ...] : seeded changes again against the current /repo HEAD and the current checks (quick tier)
out="${1:-/verif/.scratch/reverify.txt}"; shift; : > "$out"
cd /verif
for d in seeded/*/; do
  id=$(basename "$d"); prop=$(python3 -c "import json,sys;print(json.load(open('$d/meta.json')).get('property') or '$id'.split('-')[0])")
  [ -f "$d/patch.diff" ] || continue
  if [ $# -gt 0 ]; then ok=0; for p in "$@"; do [ "$prop" = "$p" ] && ok=1; done; [ $ok = 1 ] || continue; fi
  r=$(timeout 1500 tools/applycheck.sh "$d/patch.diff" "$prop" 2>&1 | grep -E "^== |does not apply|error:" | head -2 | tr '\n' ' ')
  echo "$id $prop $r" >> "$out"
done
echo DONE >> "$out"
