r"""fontTools.misc.filenames.userNameToFileName does not replace '"' (illegal in Windows file names) nor NUL (illegal in
every file name) although both are meant to be in its illegalCharacters list: the list is split from the RAW string literal
r"\" * + / : < > ? [ \ ] | \0", so it holds the two-character strings backslash+quote and backslash+zero instead of the
characters '"' and chr(0). Expected (UFO 3 convention, and what fontTools.ufoLib.filenames returns): 'a"b' -> 'a_b' and
'a' + chr(0) + 'b' -> 'a_b'; observed: both characters are kept (open() of the NUL name raises ValueError)."""


def reproduce():
    from fontTools.misc.filenames import userNameToFileName

    out = []
    for name, expected in (('a"b', "a_b"), ("a\x00b", "a_b")):
        fn = userNameToFileName(name, existing=set(), suffix=".glif")
        if fn != expected + ".glif":
            out.append("misc.filenames.userNameToFileName(%r, suffix='.glif') returns %r, expected %r" % (name, fn, expected + ".glif"))
    return "; ".join(out) or None
